//! C08: cleanup never removes anything a retained version needs.
//!
//! Interpreter of the C08 op lines against the REAL lance code (`Dataset::cleanup_old_versions`,
//! `Dataset::cleanup_with_policy`, `CleanupPolicyBuilder::retain_n_versions`, the auto-cleanup hook inside
//! `commit_transaction`) on a table in a temporary directory, a seeded generator and the property oracle.
//!
//! Time: every op line carries `t=<seconds>`.  Before the op runs the harness forces lance's clock
//! (`lance::utils::verif_set_clock`, hook H3) to `EPOCH0 + t`; after it every file the op created gets
//! `last_modified = EPOCH0 + t` (`File::set_modified`).  So manifest timestamps, file ages and `utc_now()` are exact
//! functions of the op lines.
//!
//! Names: data files, deletion files, transaction files and index directories are named by uuids; the harness renames
//! them on output to first-occurrence indices in a deterministic walk (new manifests in version order, fragments in
//! manifest order; then the remaining new files sorted by real name): `data/d<k>.lance`, `_deletions/x<k>.<ext>`,
//! `_transactions/t<k>.txn`, `_indices/i<k>/<file>`, `_versions/v<version>.manifest`, `_versions/dm<k>.manifest`
//! (detached).  Files created by `orphan` keep the literal name of the op line.
//!
//! History op lines carry the structure observed when the case was generated after ` => ` (the generator runs the real
//! history once to record it; the interpreter re-runs it and prints what it observes now — the Lean driver echoes the
//! recorded structure, ingests it into the model store, and PREDICTS `R=` (objects that disappeared during the op:
//! auto cleanup, `untag`) and a panic of the auto-cleanup hook):
//! ```text
//! create t=<T> n=<rows> v2=<0|1>             Dataset::write(Create), `enable_v2_manifest_paths = v2`
//! append|overwrite t=<T> n=<rows>             Dataset::write
//! delete t=<T> lt=<x>                         Dataset::delete("c0 < x")
//! compact t=<T>                               compact_files
//! index t=<T>                                 create_index(c0, BTree, replace)
//! tag t=<T> name=<a> v=<N> | untag t=<T> name=<a>
//! config t=<T> i=<val> o=<val> r=<val>        update_config of lance.auto_cleanup.{interval,older_than,retain_versions}; `-` = leave, `=s` = set to s
//! dappend t=<T> n=<rows>                      detached append (CommitBuilder::with_detached)
//! orphan t=<T> p=<relative path>              a 10-byte file; `@i<k>` in the path = the real uuid of index i<k>
//! begin t=<T> n=<rows>                        InsertBuilder::execute_uncommitted (files written, nothing committed)
//! commit t=<T>                                CommitBuilder::execute of the pending transaction
//! hold t=<T> v=<N>                            checkout_version(N), handle kept
//! restore t=<T>                               held handle .restore()
//!   -> <ok|err_<kind>|panic> M=<manifests> F=<new objects> R=<gone objects>     (status = the write's OWN result; `M=` = the
//!      attached versions that exist afterwards and did not before: a write that published must report ok — the Lean driver
//!      predicts `ok` whenever `M=` holds an attached version, whatever the auto-cleanup hook did; oracle key
//!      `auto_cleanup_error_fails_committed_write`)
//!      manifest = v<N>|D<k> : data names : deletion names : txn name : index ids : interval/older/retain
//! cleanup t=<T> h=<l|N> older=<secs> unv=<0|1|-> err=<0|1|->   Dataset::cleanup_old_versions
//! cleanp  t=<T> h=<l|N> bts=<secs|-> bv=<N|-> unv=<0|1> err=<0|1>   cleanup_with_policy(CleanupPolicy{..})
//! cleanr  t=<T> h=<l|N> bts=<secs|-> n=<k> unv=<0|1> err=<0|1>      CleanupPolicyBuilder … retain_n_versions(k)
//!   -> ok old=<old_versions> R=<removed objects> | err tagged n=<tags> | err no_handle | panic
//! ```
//! race t=0 kind=<append|overwrite|delete|restore> unv=<0|1> late=<0|1> seed=<n>     (a case of its own)
//!   a table (create 3 rows, overwrite 2 rows, append 1 row) on an in-memory store; then `cleanup_old_versions(0 s, unv,
//!   error_if_tagged = false)` and ONE writer run as two tasks under the gate controller (gatekit): every storage call of
//!   either task (list, get, head, put, delete, …) is released one at a time in the order drawn from `seed`.  `late=1`
//!   forces lance's clock 8 days ahead, so that the writer's files look older than the threshold (outside the premise).
//!   -> `race safe` (the writer failed, or the version it published scans to the expected rows, and every surviving version
//!      scans) | `race BROKEN`, when kind is not restore and unv = late = 0 (the region of `race_safe`);
//!      `race unconstrained` otherwise (tags and, for restore, the oracle record what happened)
//! Oracle (never looks at the Lean model), after every cleanup: every version the policy keeps (latest for the handle,
//! tagged, not selected by time/version, the n newest for `cleanr`) and every version whose manifest survived scans to
//! the rows it had before; removed manifests were selected by the policy; on an error nothing was removed; with
//! `delete_unverified = false` an object referenced by no manifest and younger than 7 days survives; `RemovalStats`
//! equals the observed removal; after `commit` of a pending write whose files were younger than 7 days at every
//! cleanup (and no cleanup had `delete_unverified`), the published version scans; detached versions stay readable
//! (`detached_version_files_deleted`), a restore of a held version publishes a readable version
//! (`restore_races_cleanup`).

use std::collections::{BTreeMap, BTreeSet};
use std::panic::{catch_unwind, AssertUnwindSafe};
use std::path::{Path, PathBuf};
use std::sync::Arc;
use std::time::{Duration, SystemTime, UNIX_EPOCH};

use hcommon::*;
use lance::dataset::cleanup::{CleanupPolicy, CleanupPolicyBuilder, RemovalStats};
use lance::dataset::optimize::{compact_files, CompactionOptions};
use lance::dataset::transaction::{Operation, Transaction};
use lance::dataset::{CommitBuilder, InsertBuilder, WriteDestination, WriteMode, WriteParams};
use lance_index::scalar::ScalarIndexParams;
use lance::Dataset;
use lance_index::{DatasetIndexExt, IndexType};

#[path = "../tablekit.rs"]
#[allow(dead_code)]
mod tablekit;
use tablekit::*;
#[path = "../gatekit.rs"]
#[allow(dead_code)]
mod gatekit;
use gatekit::{Controller, Fault, GateHandle, GatedObjectStore};
use lance::dataset::builder::DatasetBuilder;
use lance::dataset::ReadParams;
use lance::session::Session;
use lance_io::object_store::{ObjectStoreParams, WrappingObjectStore};
use object_store::memory::InMemory;
use object_store::ObjectStore as OSObjectStore;

const EPOCH0: i64 = 1_700_000_000;
const DAY: i64 = 86_400;
const KEY_DETACHED: &str = "detached_version_files_deleted";
const KEY_RESTORE: &str = "restore_races_cleanup";

fn sys_time(t: i64) -> SystemTime {
    UNIX_EPOCH + Duration::from_secs((EPOCH0 + t) as u64)
}
fn set_clock(t: i64) {
    lance::utils::verif_set_clock((EPOCH0 + t) * 1_000_000_000);
}

fn walk(dir: &Path, rel: &str, out: &mut BTreeMap<String, u64>) {
    let Ok(rd) = std::fs::read_dir(dir) else { return };
    for e in rd.flatten() {
        let name = e.file_name().to_string_lossy().to_string();
        let r = if rel.is_empty() { name.clone() } else { format!("{rel}/{name}") };
        let p = e.path();
        if p.is_dir() {
            walk(&p, &r, out);
        } else {
            out.insert(r, e.metadata().map(|m| m.len()).unwrap_or(0));
        }
    }
}

/// parse the file name of an attached / detached manifest
enum MName {
    Attached(u64),
    Detached(u64),
    Other,
}
fn manifest_name(rel: &str) -> MName {
    let Some(name) = rel.strip_prefix("_versions/") else { return MName::Other };
    let Some(stem) = name.strip_suffix(".manifest") else { return MName::Other };
    if let Some(d) = stem.strip_prefix('d') {
        return d.parse::<u64>().map(MName::Detached).unwrap_or(MName::Other);
    }
    if stem.is_empty() || !stem.bytes().all(|b| b.is_ascii_digit()) {
        return MName::Other;
    }
    match stem.parse::<u64>() {
        Ok(n) if stem.len() == 20 => MName::Attached(u64::MAX - n),
        Ok(n) => MName::Attached(n),
        Err(_) => MName::Other,
    }
}

#[derive(Clone, Debug, Default)]
struct MDesc {
    data: Vec<String>,
    dels: Vec<String>,
    txn: Option<String>,
    idx: Vec<String>,
}

#[derive(Default)]
struct World {
    uri: String,
    dir: PathBuf,
    /// real relative path -> canonical relative path
    canon: BTreeMap<String, String>,
    /// real relative path -> size, as of the last observation
    files: BTreeMap<String, u64>,
    /// real relative path -> t of creation
    mtime: BTreeMap<String, i64>,
    idx_ids: BTreeMap<String, String>,
    nd: usize,
    nx: usize,
    nt: usize,
    ni: usize,
    ndm: usize,
    /// attached versions described so far: version -> (t, refs by REAL relative path, index uuids)
    versions: BTreeMap<u64, (i64, MDesc)>,
    detached: BTreeMap<u64, (i64, MDesc)>,
    tags: BTreeMap<String, u64>,
    pending: Option<Transaction>,
    pending_files: Vec<String>,
    /// the pending write was exposed to a cleanup outside the property's premise (delete_unverified, or files >= 7 days old)
    pending_unsafe: bool,
    held: Option<Dataset>,
    held_unsafe: bool,
    next_key: i64,
    exists: bool,
}

struct C08 {
    kit: Kit,
}

fn arg<'a>(toks: &'a [&'a str], key: &str) -> Option<&'a str> {
    toks.iter().find_map(|t| t.strip_prefix(key).and_then(|r| r.strip_prefix('=')))
}
fn arg_i64(toks: &[&str], key: &str) -> Option<i64> {
    let s = arg(toks, key)?;
    let d = s.strip_prefix('-').unwrap_or(s);
    if d.is_empty() || d.len() > 15 || !d.bytes().all(|b| b.is_ascii_digit()) {
        return None;
    }
    s.parse().ok()
}
fn arg_u64(toks: &[&str], key: &str) -> Option<u64> {
    let s = arg(toks, key)?;
    if s.is_empty() || s.len() > 15 || !s.bytes().all(|b| b.is_ascii_digit()) {
        return None;
    }
    s.parse().ok()
}
fn arg_opt_bool(toks: &[&str], key: &str) -> Option<Option<bool>> {
    match arg(toks, key)? {
        "-" => Some(None),
        "0" => Some(Some(false)),
        "1" => Some(Some(true)),
        _ => None,
    }
}

fn join(xs: &[String]) -> String {
    if xs.is_empty() {
        "-".into()
    } else {
        xs.join(",")
    }
}

fn last_seg(p: &str) -> String {
    p.rsplit('/').next().unwrap_or(p).to_string()
}

impl World {
    fn list(&self) -> BTreeMap<String, u64> {
        let mut m = BTreeMap::new();
        walk(&self.dir, "", &mut m);
        m
    }

    fn name_data(&mut self, real: &str) -> String {
        if let Some(c) = self.canon.get(real) {
            return c.clone();
        }
        let c = format!("data/d{}.lance", self.nd);
        self.nd += 1;
        self.canon.insert(real.to_string(), c.clone());
        c
    }
    fn name_del(&mut self, real: &str) -> String {
        if let Some(c) = self.canon.get(real) {
            return c.clone();
        }
        let ext = real.rsplit('.').next().unwrap_or("arrow");
        let c = format!("_deletions/x{}.{}", self.nx, ext);
        self.nx += 1;
        self.canon.insert(real.to_string(), c.clone());
        c
    }
    fn name_txn(&mut self, real: &str) -> String {
        if let Some(c) = self.canon.get(real) {
            return c.clone();
        }
        let c = format!("_transactions/t{}.txn", self.nt);
        self.nt += 1;
        self.canon.insert(real.to_string(), c.clone());
        c
    }
    fn name_idx(&mut self, uuid: &str) -> String {
        if let Some(c) = self.idx_ids.get(uuid) {
            return c.clone();
        }
        let c = format!("i{}", self.ni);
        self.ni += 1;
        self.idx_ids.insert(uuid.to_string(), c.clone());
        c
    }

    /// canonical name of a real path that no manifest walk has named yet
    fn name_other(&mut self, real: &str) -> String {
        if let Some(c) = self.canon.get(real) {
            return c.clone();
        }
        let segs: Vec<&str> = real.split('/').collect();
        let c = if segs.len() >= 2 && segs[0] == "_indices" && (segs.len() >= 3 || self.idx_ids.contains_key(segs[1])) {
            let id = self.name_idx(segs[1]);
            if segs.len() >= 3 {
                format!("_indices/{}/{}", id, segs[2..].join("/"))
            } else {
                format!("_indices/{}", id)
            }
        } else if segs.len() == 2 && segs[0] == "data" && real.ends_with(".lance") {
            return self.name_data(real);
        } else if segs.len() == 2 && segs[0] == "_deletions" {
            return self.name_del(real);
        } else if segs.len() == 2 && segs[0] == "_transactions" && real.ends_with(".txn") {
            return self.name_txn(real);
        } else {
            match manifest_name(real) {
                MName::Attached(v) => format!("_versions/v{v}.manifest"),
                MName::Detached(_) => {
                    let c = format!("_versions/dm{}.manifest", self.ndm);
                    self.ndm += 1;
                    c
                }
                MName::Other => real.to_string(),
            }
        };
        self.canon.insert(real.to_string(), c.clone());
        c
    }
}

/// what one manifest names, by real relative path
fn describe(kit: &Kit, ds: &Dataset) -> KitResult<(MDesc, [Option<String>; 3], i64)> {
    let m = ds.manifest();
    let mut d = MDesc::default();
    for f in m.fragments.iter() {
        for df in f.files.iter() {
            d.data.push(format!("data/{}", df.path));
        }
        if let Some(del) = &f.deletion_file {
            let p = lance_table::io::deletion::deletion_file_path(&object_store::path::Path::default(), f.id, del);
            d.dels.push(p.to_string());
        }
    }
    d.txn = m.transaction_file.as_ref().map(|t| format!("_transactions/{t}"));
    let idx = kit.lance_call("load_indices", async { ds.load_indices().await })?;
    for i in idx.iter() {
        d.idx.push(i.uuid.to_string());
    }
    let cfg = [
        m.config.get("lance.auto_cleanup.interval").cloned(),
        m.config.get("lance.auto_cleanup.older_than").cloned(),
        m.config.get("lance.auto_cleanup.retain_versions").cloned(),
    ];
    let ts = m.timestamp().timestamp();
    Ok((d, cfg, ts))
}

fn show_cfg(c: &[Option<String>; 3]) -> String {
    c.iter().map(|v| match v {
        None => "-".to_string(),
        Some(s) => format!("={s}"),
    }).collect::<Vec<_>>().join("/")
}

impl C08 {
    fn spec() -> SchemaSpec {
        SchemaSpec::ints(1)
    }

    fn rows(w: &mut World, n: usize) -> Vec<Row> {
        let mut v = vec![];
        for _ in 0..n {
            v.push(vec![Some(w.next_key)]);
            w.next_key += 1;
        }
        v
    }

    /// scan a version to (ordered rows, rows through the index path)
    fn snapshot(&self, w: &World, v: u64) -> Result<(Vec<Row>, usize), String> {
        let ds = self.kit.open(&w.uri, Some(v)).map_err(|e| format!("open v{v}: {}", e.msg))?;
        let rows = self.kit.scan(&ds, &Self::spec(), &ScanOpts::ordered()).map_err(|e| format!("scan v{v}: {}", e.msg))?;
        let n = self.kit.count_rows(&ds, Some("c0 >= 0")).map_err(|e| format!("filtered count v{v}: {}", e.msg))?;
        Ok((rows, n))
    }

    /// observe the store after an op at time `t`: name and stamp new objects; returns (M, F, R)
    fn observe(&self, w: &mut World, t: i64, fails: &mut Vec<OracleFailure>, line: usize) -> (String, String, String) {
        let now = w.list();
        let new: Vec<String> = now.keys().filter(|k| !w.files.contains_key(*k)).cloned().collect();
        let gone: Vec<String> = w.files.keys().filter(|k| !now.contains_key(*k)).cloned().collect();
        // new manifests, attached in version order, then detached
        let mut att: Vec<u64> = vec![];
        let mut det: Vec<u64> = vec![];
        for p in &new {
            match manifest_name(p) {
                MName::Attached(v) => att.push(v),
                MName::Detached(v) => det.push(v),
                MName::Other => {}
            }
        }
        att.sort();
        det.sort();
        let mut mdescs = vec![];
        for (is_det, v) in att.iter().map(|v| (false, *v)).chain(det.iter().map(|v| (true, *v))) {
            let r = self.kit.open(&w.uri, Some(v)).and_then(|ds| describe(&self.kit, &ds));
            match r {
                Ok((d, cfg, ts)) => {
                    if ts != EPOCH0 + t {
                        fails.push(OracleFailure {
                            what: format!("manifest {v} has timestamp {ts}, the forced clock is {}", EPOCH0 + t),
                            key: Some("clock_hook".into()),
                            line,
                        });
                    }
                    let data: Vec<String> = d.data.iter().map(|p| last_seg(&w.name_data(p))).collect();
                    let dels: Vec<String> = d.dels.iter().map(|p| last_seg(&w.name_del(p))).collect();
                    let txn = d.txn.as_ref().map(|p| last_seg(&w.name_txn(p)));
                    let idx: Vec<String> = d.idx.iter().map(|u| w.name_idx(u)).collect();
                    let head = if is_det {
                        let real = new.iter().find(|p| matches!(manifest_name(p), MName::Detached(x) if x == v)).unwrap().clone();
                        let c = w.name_other(&real);
                        format!("D{}", c.trim_start_matches("_versions/dm").trim_end_matches(".manifest"))
                    } else {
                        format!("v{v}")
                    };
                    mdescs.push(format!(
                        "{head}:{}:{}:{}:{}:{}",
                        join(&data),
                        join(&dels),
                        txn.unwrap_or_else(|| "-".into()),
                        join(&idx),
                        show_cfg(&cfg)
                    ));
                    if is_det {
                        w.detached.insert(v, (t, d));
                    } else {
                        w.versions.insert(v, (t, d));
                    }
                }
                Err(e) => mdescs.push(format!("v{v}:unreadable_{}", e.kind.as_str())),
            }
        }
        let mut f_names = vec![];
        for p in &new {
            let c = w.name_other(p);
            f_names.push(c);
            w.mtime.insert(p.clone(), t);
            let full = w.dir.join(p);
            if let Ok(f) = std::fs::OpenOptions::new().write(true).open(&full) {
                let _ = f.set_modified(sys_time(t));
            }
        }
        f_names.sort();
        let mut r_names: Vec<String> = gone.iter().map(|p| w.canon.get(p).cloned().unwrap_or_else(|| p.clone())).collect();
        r_names.sort();
        for p in &gone {
            if let MName::Attached(v) = manifest_name(p) {
                w.versions.remove(&v);
            }
            w.mtime.remove(p);
        }
        w.files = now;
        let m = if mdescs.is_empty() { "-".to_string() } else { mdescs.join(";") };
        (m, join(&f_names), join(&r_names))
    }

    fn run_case(&mut self, lines: &[String]) -> CaseResult {
        self.kit.reset_session();
        let mut res = CaseResult::default();
        let mut w = World::default();
        w.uri = self.kit.tempdir_uri();
        w.dir = PathBuf::from(&w.uri);
        for (li, raw) in lines.iter().enumerate() {
            let line = raw.split(" => ").next().unwrap_or("");
            let toks: Vec<&str> = line.split(' ').filter(|s| !s.is_empty()).collect();
            let out = self.run_op(&mut w, &toks, li, &mut res);
            res.outputs.push(out);
        }
        lance::utils::verif_set_clock(0);
        res.nontrivial = res.tags.iter().any(|t| t == "removed_some");
        res
    }

    fn history_out(&self, w: &mut World, t: i64, status: String, res: &mut CaseResult, li: usize) -> String {
        let (m, f, r) = self.observe(w, t, &mut res.failures, li);
        format!("{status} M={m} F={f} R={r}")
    }

    fn run_op(&mut self, w: &mut World, toks: &[&str], li: usize, res: &mut CaseResult) -> String {
        let Some(op) = toks.first().copied() else { return "err parse".into() };
        let Some(t) = arg_i64(toks, "t") else { return "err parse".into() };
        if !(0..=100_000 * DAY).contains(&t) {
            return "err parse".into();
        }
        let known = [
            "create", "append", "overwrite", "delete", "compact", "index", "tag", "untag", "config", "dappend", "orphan", "begin",
            "commit", "hold", "restore", "cleanup", "cleanp", "cleanr", "race",
        ];
        if !known.contains(&op) {
            return "err parse".into();
        }
        // argument check before anything runs (the Lean driver has the same grammar)
        let ok_args = match op {
            "create" => arg_u64(toks, "n").map(|n| n <= 64).unwrap_or(false) && matches!(arg_opt_bool(toks, "v2"), Some(Some(_))),
            "append" | "overwrite" | "dappend" | "begin" => arg_u64(toks, "n").map(|n| n <= 64).unwrap_or(false),
            "delete" => arg_i64(toks, "lt").is_some(),
            "tag" => arg(toks, "name").is_some() && arg_u64(toks, "v").is_some(),
            "untag" => arg(toks, "name").is_some(),
            "config" => arg(toks, "i").is_some() && arg(toks, "o").is_some() && arg(toks, "r").is_some(),
            "orphan" => arg(toks, "p").map(|p| !p.is_empty() && !p.starts_with('/') && !p.ends_with('/') && !p.contains("//") && !p.contains("..")).unwrap_or(false),
            "hold" => arg_u64(toks, "v").is_some(),
            "race" => {
                matches!(arg(toks, "kind"), Some("append" | "overwrite" | "delete" | "restore"))
                    && matches!(arg_opt_bool(toks, "unv"), Some(Some(_)))
                    && matches!(arg_opt_bool(toks, "late"), Some(Some(_)))
                    && arg_u64(toks, "seed").is_some()
            }
            "cleanup" => {
                handle_arg(toks).is_some() && arg_i64(toks, "older").is_some() && arg_opt_bool(toks, "unv").is_some() && arg_opt_bool(toks, "err").is_some()
            }
            "cleanp" => {
                handle_arg(toks).is_some()
                    && opt_i64(toks, "bts").is_some()
                    && opt_u64(toks, "bv").is_some()
                    && matches!(arg_opt_bool(toks, "unv"), Some(Some(_)))
                    && matches!(arg_opt_bool(toks, "err"), Some(Some(_)))
            }
            "cleanr" => {
                handle_arg(toks).is_some()
                    && opt_i64(toks, "bts").is_some()
                    && arg_u64(toks, "n").is_some()
                    && matches!(arg_opt_bool(toks, "unv"), Some(Some(_)))
                    && matches!(arg_opt_bool(toks, "err"), Some(Some(_)))
            }
            _ => true,
        };
        if !ok_args {
            return "err parse".into();
        }
        if op == "race" {
            res.tags.push("op:race".into());
            return self.run_race(toks, li, res);
        }
        if op != "create" && !w.exists {
            return "err no_table".into();
        }
        if op == "create" && w.exists {
            return "err exists".into();
        }
        set_clock(t);
        res.tags.push(format!("op:{op}"));
        match op {
            "cleanup" | "cleanp" | "cleanr" => self.run_cleanup(w, op, toks, t, li, res),
            _ => {
                let r = catch_unwind(AssertUnwindSafe(|| self.run_history(w, op, toks, t, li, res)));
                let status = match r {
                    Ok(Ok(())) => "ok".to_string(),
                    Ok(Err(e)) => {
                        if std::env::var("C08_DEBUG").is_ok() {
                            eprintln!("[c08] {op}: {}", e.msg);
                        }
                        format!("err_{}", e.kind.as_str())
                    }
                    Err(_) => "panic".to_string(),
                };
                if status != "ok" {
                    res.tags.push(format!("hist:{status}"));
                }
                let out = self.history_out(w, t, status.clone(), res, li);
                // a write either fails without effect or reports ok: `M=` lists the attached versions that exist now and did
                // not before the op (observed by listing + opening them)
                let published = out.split(' ').find_map(|x| x.strip_prefix("M=")).map(|m| m.split(';').any(|d| d.starts_with('v'))).unwrap_or(false);
                if published {
                    res.tags.push(format!("write_published:{}", if status == "ok" { "ok" } else { "not_ok" }));
                }
                if published && status.starts_with("err_") {
                    res.failures.push(OracleFailure {
                        what: format!("`{op}` returned an error ({status}) although the version it wrote is published: {out}"),
                        key: Some("auto_cleanup_error_fails_committed_write".into()),
                        line: li,
                    });
                }
                if !out.ends_with("R=-") {
                    res.tags.push("auto_removed".into());
                    res.tags.push("removed_some".into());
                }
                out
            }
        }
    }

    fn run_history(&mut self, w: &mut World, op: &str, toks: &[&str], t: i64, li: usize, res: &mut CaseResult) -> KitResult<()> {
        let spec = Self::spec();
        let kit = &self.kit;
        match op {
            "create" => {
                let n = arg_u64(toks, "n").unwrap() as usize;
                let rows = Self::rows(w, n);
                w.exists = true;
                let v2 = arg_opt_bool(toks, "v2").unwrap().unwrap();
                let params = WriteParams {
                    mode: WriteMode::Create,
                    session: Some(kit.session.clone()),
                    enable_v2_manifest_paths: v2,
                    ..Default::default()
                };
                let reader = arrow_array::RecordBatchIterator::new(vec![Ok(spec.batch(&rows))].into_iter(), spec.arrow_schema());
                kit.lance_call("create", Dataset::write(reader, w.uri.as_str(), Some(params)))?;
            }
            "append" | "overwrite" => {
                let n = arg_u64(toks, "n").unwrap() as usize;
                let rows = Self::rows(w, n);
                let ds = kit.open(&w.uri, None)?;
                if op == "append" {
                    kit.append(&ds, &spec, &[rows], &Knobs::default())?;
                } else {
                    kit.overwrite(&ds, &spec, &[rows], &Knobs::default())?;
                }
            }
            "delete" => {
                let x = arg_i64(toks, "lt").unwrap();
                let mut ds = kit.open(&w.uri, None)?;
                kit.lance_call("delete", ds.delete(&format!("c0 < {x}")))?;
            }
            "compact" => {
                let mut ds = kit.open(&w.uri, None)?;
                let opts = CompactionOptions { target_rows_per_fragment: 1 << 20, num_threads: Some(1), ..Default::default() };
                kit.lance_call("compact_files", compact_files(&mut ds, opts, None))?;
            }
            "index" => {
                let mut ds = kit.open(&w.uri, None)?;
                kit.lance_call(
                    "create_index",
                    ds.create_index(&["c0"], IndexType::BTree, Some("i0".into()), &ScalarIndexParams::default(), true),
                )?;
            }
            "tag" => {
                let name = arg(toks, "name").unwrap();
                let v = arg_u64(toks, "v").unwrap();
                let ds = kit.open(&w.uri, None)?;
                kit.lance_call("tag", async { ds.tags().create(name, v).await })?;
                w.tags.insert(name.to_string(), v);
            }
            "untag" => {
                let name = arg(toks, "name").unwrap();
                let ds = kit.open(&w.uri, None)?;
                kit.lance_call("untag", async { ds.tags().delete(name).await })?;
                w.tags.remove(name);
            }
            "config" => {
                let mut ds = kit.open(&w.uri, None)?;
                let mut kv: Vec<(String, String)> = vec![];
                for (a, key) in [("i", "lance.auto_cleanup.interval"), ("o", "lance.auto_cleanup.older_than"), ("r", "lance.auto_cleanup.retain_versions")] {
                    let v = arg(toks, a).unwrap();
                    if let Some(s) = v.strip_prefix('=') {
                        kv.push((key.to_string(), s.to_string()));
                    }
                }
                kit.lance_call("update_config", async { ds.update_config(kv).await.map(|_| ()) })?;
            }
            "dappend" => {
                let n = arg_u64(toks, "n").unwrap() as usize;
                let rows = Self::rows(w, n);
                let ds = Arc::new(kit.open(&w.uri, None)?);
                let batch = spec.batch(&rows);
                let params = WriteParams { mode: WriteMode::Append, session: Some(kit.session.clone()), ..Default::default() };
                let txn = kit.lance_call("execute_uncommitted", async {
                    InsertBuilder::new(WriteDestination::Dataset(ds.clone())).with_params(&params).execute_uncommitted(vec![batch]).await
                })?;
                kit.lance_call("commit_detached", CommitBuilder::new(WriteDestination::Dataset(ds.clone())).with_detached(true).execute(txn))?;
            }
            "orphan" => {
                let p = arg(toks, "p").unwrap();
                // `@i<k>` -> real uuid of the k-th index
                let mut real = p.to_string();
                for (uuid, id) in w.idx_ids.clone() {
                    real = real.replace(&format!("@{id}/"), &format!("{uuid}/"));
                }
                if real.contains('@') {
                    return Err(KitError::invalid("orphan: unknown index"));
                }
                let full = w.dir.join(&real);
                if full.exists() {
                    return Err(KitError::invalid("orphan: exists"));
                }
                if let Some(parent) = full.parent() {
                    std::fs::create_dir_all(parent).map_err(|e| KitError::invalid(format!("orphan: {e}")))?;
                }
                std::fs::write(&full, b"0123456789").map_err(|e| KitError::invalid(format!("orphan: {e}")))?;
                let canon = p.replace('@', "");
                w.canon.insert(real, canon);
            }
            "begin" => {
                let n = arg_u64(toks, "n").unwrap() as usize;
                if w.pending.is_some() {
                    return Err(KitError::invalid("begin: a write is pending"));
                }
                let rows = Self::rows(w, n);
                let ds = Arc::new(kit.open(&w.uri, None)?);
                let batch = spec.batch(&rows);
                let params = WriteParams { mode: WriteMode::Append, session: Some(kit.session.clone()), ..Default::default() };
                let txn = kit.lance_call("execute_uncommitted", async {
                    InsertBuilder::new(WriteDestination::Dataset(ds.clone())).with_params(&params).execute_uncommitted(vec![batch]).await
                })?;
                let mut files = vec![];
                if let Operation::Append { fragments } = &txn.operation {
                    for f in fragments {
                        for df in &f.files {
                            let real = format!("data/{}", df.path);
                            w.name_data(&real);
                            files.push(real);
                        }
                    }
                }
                w.pending = Some(txn);
                w.pending_files = files;
                w.pending_unsafe = false;
            }
            "commit" => {
                let Some(txn) = w.pending.take() else { return Err(KitError::invalid("commit: nothing pending")) };
                let ds = Arc::new(kit.open(&w.uri, None)?);
                let unsafe_ = w.pending_unsafe;
                let r = kit.lance_call("commit", CommitBuilder::new(WriteDestination::Dataset(ds)).execute(txn));
                match r {
                    Ok(nd) => {
                        let v = nd.manifest().version;
                        if let Err(e) = self.snapshot(w, v) {
                            if unsafe_ {
                                res.tags.push("commit_after_unsafe_cleanup_broken".into());
                            } else {
                                res.failures.push(OracleFailure {
                                    what: format!("the commit of a write in progress published version {v} which does not scan: {e}"),
                                    key: Some("inflight_files_deleted".into()),
                                    line: li,
                                });
                            }
                        } else {
                            res.tags.push("commit_after_cleanup_ok".into());
                        }
                    }
                    Err(e) => return Err(e),
                }
            }
            "hold" => {
                let v = arg_u64(toks, "v").unwrap();
                let ds = kit.open(&w.uri, Some(v))?;
                w.held = Some(ds);
                w.held_unsafe = false;
            }
            "restore" => {
                let Some(mut ds) = w.held.take() else { return Err(KitError::invalid("restore: nothing held")) };
                kit.lance_call("restore", ds.restore())?;
                let v = ds.manifest().version;
                if let Err(e) = self.snapshot(w, v) {
                    res.tags.push("restore_broken".into());
                    res.failures.push(OracleFailure {
                        what: format!("restore of a version checked out before a cleanup published version {v} which does not scan: {e}"),
                        key: Some(KEY_RESTORE.into()),
                        line: li,
                    });
                }
            }
            _ => unreachable!(),
        }
        let _ = t;
        Ok(())
    }

    fn run_cleanup(&mut self, w: &mut World, op: &str, toks: &[&str], t: i64, li: usize, res: &mut CaseResult) -> String {
        let h = handle_arg(toks).unwrap();
        let ds = match h {
            None => self.kit.open(&w.uri, None),
            Some(v) => self.kit.open(&w.uri, Some(v)),
        };
        let ds = match ds {
            Ok(d) => d,
            Err(_) => return "err no_handle".into(),
        };
        let dsv = ds.manifest().version;
        // ---- before
        let pre_versions: Vec<u64> = w.versions.keys().copied().collect();
        let mut snaps: BTreeMap<u64, Result<(Vec<Row>, usize), String>> = BTreeMap::new();
        for v in &pre_versions {
            snaps.insert(*v, self.snapshot(w, *v));
        }
        let mut dsnaps: BTreeMap<u64, Result<(Vec<Row>, usize), String>> = BTreeMap::new();
        for v in w.detached.keys() {
            dsnaps.insert(*v, self.snapshot(w, *v));
        }
        let pre_files = w.files.clone();
        let pre_mtime = w.mtime.clone();
        let tagged: BTreeSet<u64> = w.tags.values().copied().collect();
        // ---- policy (also the oracle's own reading of it)
        let unv;
        let bts: Option<i64>;
        let mut bv: Option<u64> = None;
        let mut keep_newest: Option<usize> = None;
        let call: Result<Result<RemovalStats, KitError>, ()> = match op {
            "cleanup" => {
                let older = arg_i64(toks, "older").unwrap();
                let u = arg_opt_bool(toks, "unv").unwrap();
                let e = arg_opt_bool(toks, "err").unwrap();
                unv = u.unwrap_or(false);
                bts = Some(t - older);
                catch_unwind(AssertUnwindSafe(|| {
                    self.kit.lance_call("cleanup_old_versions", ds.cleanup_old_versions(chrono::TimeDelta::seconds(older), u, e))
                }))
                .map_err(|_| ())
            }
            "cleanp" => {
                bts = opt_i64(toks, "bts").unwrap();
                bv = opt_u64(toks, "bv").unwrap();
                unv = arg_opt_bool(toks, "unv").unwrap().unwrap();
                let e = arg_opt_bool(toks, "err").unwrap().unwrap();
                let policy = CleanupPolicy {
                    before_timestamp: bts.map(|s| chrono::DateTime::from_timestamp(EPOCH0 + s, 0).unwrap()),
                    before_version: bv,
                    delete_unverified: unv,
                    error_if_tagged_old_versions: e,
                };
                catch_unwind(AssertUnwindSafe(|| self.kit.lance_call("cleanup_with_policy", ds.cleanup_with_policy(policy)))).map_err(|_| ())
            }
            _ => {
                bts = opt_i64(toks, "bts").unwrap();
                let n = arg_u64(toks, "n").unwrap() as usize;
                keep_newest = Some(n);
                unv = arg_opt_bool(toks, "unv").unwrap().unwrap();
                let e = arg_opt_bool(toks, "err").unwrap().unwrap();
                catch_unwind(AssertUnwindSafe(|| {
                    self.kit.lance_call("cleanup_retain_n", async {
                        let mut b = CleanupPolicyBuilder::default();
                        if let Some(s) = bts {
                            b = b.before_timestamp(chrono::DateTime::from_timestamp(EPOCH0 + s, 0).unwrap());
                        }
                        b = b.retain_n_versions(&ds, n).await?;
                        b = b.delete_unverified(unv).error_if_tagged_old_versions(e);
                        ds.cleanup_with_policy(b.build()).await
                    })
                }))
                .map_err(|_| ())
            }
        };
        // ---- after
        let post = w.list();
        let removed: Vec<String> = pre_files.keys().filter(|k| !post.contains_key(*k)).cloned().collect();
        let appeared: Vec<String> = post.keys().filter(|k| !pre_files.contains_key(*k)).cloned().collect();
        if !appeared.is_empty() {
            res.failures.push(OracleFailure { what: format!("cleanup created objects: {appeared:?}"), key: None, line: li });
        }
        let mut r_names: Vec<String> = removed.iter().map(|p| w.canon.get(p).cloned().unwrap_or_else(|| p.clone())).collect();
        r_names.sort();
        let removed_versions: BTreeSet<u64> = removed
            .iter()
            .filter_map(|p| match manifest_name(p) {
                MName::Attached(v) => Some(v),
                _ => None,
            })
            .collect();
        // the oracle's reading of "kept by the policy"
        let newest: BTreeSet<u64> = match keep_newest {
            Some(n) => pre_versions.iter().rev().take(n).copied().collect(),
            None => BTreeSet::new(),
        };
        let selected = |v: u64| -> bool {
            let ts = w.versions.get(&v).map(|x| x.0).unwrap_or(0);
            let by_ts = bts.map(|b| ts < b).unwrap_or(true);
            let by_v = bv.map(|b| v < b).unwrap_or(true);
            let by_n = keep_newest.map(|_| !newest.contains(&v)).unwrap_or(true);
            by_ts && by_v && by_n
        };
        let keep_spec = |v: u64| -> bool { v >= dsv || tagged.contains(&v) || !selected(v) };
        let out = match &call {
            Err(()) => {
                res.tags.push("cleanup:panic".into());
                "panic".to_string()
            }
            Ok(Err(e)) => {
                res.tags.push("cleanup:err".into());
                if !removed.is_empty() {
                    res.failures.push(OracleFailure {
                        what: format!("cleanup returned an error ({}) but removed {r_names:?}", e.msg),
                        key: Some("error_but_removed".into()),
                        line: li,
                    });
                }
                if e.msg.contains("tagged version(s) have been marked for cleanup") {
                    // the message reads "Cleanup error: <n> tagged version(s) …" (Display prefix varies): take the number
                    // right before " tagged version(s)"
                    let head = e.msg.split(" tagged version(s)").next().unwrap_or("");
                    let n = head.rsplit(|c: char| !c.is_ascii_digit()).next().unwrap_or("?");
                    format!("err tagged n={n}")
                } else {
                    format!("err {}", e.kind.as_str())
                }
            }
            Ok(Ok(stats)) => {
                res.tags.push("cleanup:ok".into());
                if !removed.is_empty() {
                    res.tags.push("removed_some".into());
                }
                if !removed_versions.is_empty() {
                    res.tags.push("removed_manifests".into());
                }
                let bytes: u64 = removed.iter().map(|p| pre_files[p]).sum();
                if stats.bytes_removed != bytes || stats.old_versions != removed_versions.len() as u64 {
                    res.failures.push(OracleFailure {
                        what: format!(
                            "RemovalStats {{ bytes_removed: {}, old_versions: {} }} but {} bytes in {} objects ({} manifests) disappeared",
                            stats.bytes_removed,
                            stats.old_versions,
                            bytes,
                            removed.len(),
                            removed_versions.len()
                        ),
                        key: Some("removal_stats".into()),
                        line: li,
                    });
                }
                format!("ok old={} R={}", stats.old_versions, join(&r_names))
            }
        };
        // ---- property oracle
        for v in &pre_versions {
            let survived = !removed_versions.contains(v);
            if !survived && keep_spec(*v) {
                res.failures.push(OracleFailure {
                    what: format!("the manifest of version {v} was removed although the policy keeps it (handle at {dsv}, tagged {tagged:?})"),
                    key: Some("removed_unselected_manifest".into()),
                    line: li,
                });
            }
            if survived {
                let after = self.snapshot(w, *v);
                if let (Ok(b), a) = (&snaps[v], &after) {
                    if a.as_ref().ok() != Some(b) {
                        res.failures.push(OracleFailure {
                            what: format!(
                                "version {v} survived the cleanup (kept by policy: {}) but no longer reads as before: {}",
                                keep_spec(*v),
                                match a {
                                    Ok(x) => format!("{} rows instead of {}", x.0.len(), b.0.len()),
                                    Err(e) => e.clone(),
                                }
                            ),
                            key: Some(if keep_spec(*v) { "retained_version_broken" } else { "surviving_version_broken" }.into()),
                            line: li,
                        });
                    }
                }
            }
        }
        for (v, b) in &dsnaps {
            if let Ok(b) = b {
                let a = self.snapshot(w, *v);
                if a.as_ref().ok() != Some(b) {
                    res.tags.push("detached_broken".into());
                    res.failures.push(OracleFailure {
                        what: format!("detached version {v} no longer reads after the cleanup: {}", a.err().unwrap_or_else(|| "different rows".into())),
                        key: Some(KEY_DETACHED.into()),
                        line: li,
                    });
                }
            }
        }
        // unverified guard
        let mut referenced: BTreeSet<String> = BTreeSet::new();
        let mut ref_idx: BTreeSet<String> = BTreeSet::new();
        for (_, d) in w.versions.values().chain(w.detached.values()) {
            referenced.extend(d.data.iter().cloned());
            referenced.extend(d.dels.iter().cloned());
            referenced.extend(d.txn.iter().cloned());
            ref_idx.extend(d.idx.iter().cloned());
        }
        if !unv {
            for p in &removed {
                if matches!(manifest_name(p), MName::Attached(_)) {
                    continue;
                }
                let segs: Vec<&str> = p.split('/').collect();
                let is_ref = referenced.contains(p) || (segs.len() >= 2 && segs[0] == "_indices" && ref_idx.contains(segs[1]));
                let young = pre_mtime.get(p).map(|m| *m >= t - 7 * DAY).unwrap_or(false);
                if !is_ref && young {
                    res.failures.push(OracleFailure {
                        what: format!("{} is referenced by no manifest and younger than 7 days, delete_unverified is off, but it was removed", w.canon.get(p).cloned().unwrap_or_else(|| p.clone())),
                        key: Some("young_unreferenced_deleted".into()),
                        line: li,
                    });
                }
            }
        }
        // a pending write / held handle exposed outside the premise?
        if w.pending.is_some() {
            let old = w.pending_files.iter().any(|p| pre_mtime.get(p).map(|m| *m < t - 7 * DAY).unwrap_or(false));
            if unv || old {
                w.pending_unsafe = true;
            }
        }
        // ---- bookkeeping
        for p in &removed {
            if let MName::Attached(v) = manifest_name(p) {
                w.versions.remove(&v);
            }
            w.mtime.remove(p);
        }
        w.files = post;
        out
    }
}


// ------------------------------------------------------------------------------------------------ cleanup || writer under the gate

const RURI: &str = "memory://c08race/t";

#[derive(Debug)]
struct GateWrap {
    inner: Arc<dyn OSObjectStore>,
    h: GateHandle,
}
impl WrappingObjectStore for GateWrap {
    fn wrap(&self, _prefix: &str, _original: Arc<dyn OSObjectStore>) -> Arc<dyn OSObjectStore> {
        Arc::new(GatedObjectStore::new(self.inner.clone(), self.h.clone()))
    }
}
#[derive(Debug)]
struct PlainWrap {
    inner: Arc<dyn OSObjectStore>,
}
impl WrappingObjectStore for PlainWrap {
    fn wrap(&self, _prefix: &str, _original: Arc<dyn OSObjectStore>) -> Arc<dyn OSObjectStore> {
        self.inner.clone()
    }
}

fn race_store_params(w: Arc<dyn WrappingObjectStore>) -> ObjectStoreParams {
    ObjectStoreParams { object_store_wrapper: Some(w), ..Default::default() }
}
async fn race_open(w: Arc<dyn WrappingObjectStore>, v: Option<u64>) -> lance::Result<Dataset> {
    let mut b = DatasetBuilder::from_uri(RURI).with_read_params(ReadParams {
        session: Some(Arc::new(Session::default())),
        store_options: Some(race_store_params(w)),
        ..Default::default()
    });
    if let Some(v) = v {
        b = b.with_version(v);
    }
    b.load().await
}
fn race_params(w: Arc<dyn WrappingObjectStore>, mode: WriteMode) -> WriteParams {
    WriteParams {
        mode,
        store_params: Some(race_store_params(w)),
        session: Some(Arc::new(Session::default())),
        skip_auto_cleanup: true,
        ..Default::default()
    }
}
fn race_reader(keys: &[i64]) -> arrow_array::RecordBatchIterator<std::vec::IntoIter<std::result::Result<arrow_array::RecordBatch, arrow_schema::ArrowError>>> {
    let spec = SchemaSpec::ints(1);
    let rows: Vec<Row> = keys.iter().map(|k| vec![Some(*k)]).collect();
    arrow_array::RecordBatchIterator::new(vec![Ok(spec.batch(&rows))].into_iter(), spec.arrow_schema())
}
async fn race_write(w: Arc<dyn WrappingObjectStore>, mode: WriteMode, keys: &[i64]) -> lance::Result<u64> {
    let nd = if matches!(mode, WriteMode::Create) {
        Dataset::write(race_reader(keys), RURI, Some(race_params(w, mode))).await?
    } else {
        let ds = race_open(w.clone(), None).await?;
        Dataset::write(race_reader(keys), WriteDestination::Dataset(Arc::new(ds)), Some(race_params(w, mode))).await?
    };
    Ok(nd.manifest().version)
}
async fn race_scan(w: Arc<dyn WrappingObjectStore>, v: u64) -> std::result::Result<Vec<i64>, String> {
    let ds = race_open(w, Some(v)).await.map_err(|e| format!("open v{v}: {e}"))?;
    let mut sc = ds.scan();
    sc.scan_in_order(true);
    let batch = sc.try_into_batch().await.map_err(|e| format!("scan v{v}: {e}"))?;
    let rows = SchemaSpec::ints(1).decode(&batch, &[]).map_err(|e| format!("decode v{v}: {}", e.0))?;
    Ok(rows.into_iter().map(|r| r[0].unwrap_or(i64::MIN)).collect())
}

impl C08 {
    fn run_race(&mut self, toks: &[&str], li: usize, res: &mut CaseResult) -> String {
        let kind = arg(toks, "kind").unwrap().to_string();
        let unv = arg_opt_bool(toks, "unv").unwrap().unwrap();
        let late = arg_opt_bool(toks, "late").unwrap().unwrap();
        let seed = arg_u64(toks, "seed").unwrap();
        let premise = kind != "restore" && !unv && !late;
        let store: Arc<dyn OSObjectStore> = Arc::new(InMemory::new());
        let rt = gatekit::runtime();
        let kind2 = kind.clone();
        let kind3 = kind.clone();
        // (writer result, cleanup result, problems found afterwards, stuck)
        let (wres, cres, problems, stuck): (Option<std::result::Result<u64, String>>, Option<std::result::Result<u64, String>>, Vec<String>, bool) =
            rt.block_on(async move {
                let plain: Arc<dyn WrappingObjectStore> = Arc::new(PlainWrap { inner: store.clone() });
                lance::utils::verif_set_clock(0);
                let mut problems = vec![];
                let setup = async {
                    race_write(plain.clone(), WriteMode::Create, &[0, 1, 2]).await?;
                    race_write(plain.clone(), WriteMode::Overwrite, &[3, 4]).await?;
                    race_write(plain.clone(), WriteMode::Append, &[5]).await
                };
                if let Err(e) = setup.await {
                    return (None, None, vec![format!("setup: {e}")], false);
                }
                if late {
                    let now = SystemTime::now().duration_since(UNIX_EPOCH).unwrap().as_nanos() as i64;
                    lance::utils::verif_set_clock(now + 8 * DAY * 1_000_000_000);
                }
                let mut ctl: Controller<std::result::Result<u64, String>> = Controller::new();
                ctl.max_spins = 2_000_000;
                let w0: Arc<dyn WrappingObjectStore> = Arc::new(GateWrap { inner: store.clone(), h: ctl.handle(0) });
                let w1: Arc<dyn WrappingObjectStore> = Arc::new(GateWrap { inner: store.clone(), h: ctl.handle(1) });
                ctl.spawn(0, async move {
                    let ds = race_open(w0, None).await.map_err(|e| e.to_string())?;
                    let st = ds.cleanup_old_versions(chrono::TimeDelta::zero(), Some(unv), Some(false)).await.map_err(|e| e.to_string())?;
                    Ok(st.old_versions)
                });
                ctl.spawn(1, async move {
                    match kind2.as_str() {
                        "append" => race_write(w1, WriteMode::Append, &[100, 101]).await.map_err(|e| e.to_string()),
                        "overwrite" => race_write(w1, WriteMode::Overwrite, &[100, 101]).await.map_err(|e| e.to_string()),
                        "delete" => {
                            let mut ds = race_open(w1, None).await.map_err(|e| e.to_string())?;
                            ds.delete("c0 < 4").await.map_err(|e| e.to_string())?;
                            Ok(ds.manifest().version)
                        }
                        _ => {
                            let mut ds = race_open(w1, Some(1)).await.map_err(|e| e.to_string())?;
                            ds.restore().await.map_err(|e| e.to_string())?;
                            Ok(ds.manifest().version)
                        }
                    }
                });
                let mut rng = Rng::new(seed);
                let mut stuck = false;
                let mut steps = 0usize;
                let mut cur = rng.below(2) as usize;
                let mut burst = 0u64;
                loop {
                    if !ctl.quiesce().await {
                        stuck = true;
                        break;
                    }
                    let p0 = ctl.parked(0).is_some();
                    let p1 = ctl.parked(1).is_some();
                    if !p0 && !p1 {
                        break;
                    }
                    if burst == 0 {
                        cur = rng.below(2) as usize;
                        let m = [1u64, 2, 4, 8, 16][rng.usize(5)];
                        burst = 1 + rng.below(m);
                    }
                    burst -= 1;
                    let pick = if p0 && p1 { cur } else if p0 { 0 } else { 1 };
                    ctl.step(pick, Fault::None).await;
                    steps += 1;
                    if steps > 20_000 {
                        stuck = true;
                        break;
                    }
                }
                let cres = ctl.result(0);
                let wres = ctl.result(1);
                ctl.abort_all();
                lance::utils::verif_set_clock(0);
                if !stuck {
                    // afterwards, through an ungated handle: every version that is still listed scans; the writer's version
                    // holds the rows it must hold
                    let expect: Vec<i64> = match kind3.as_str() {
                        "append" => vec![3, 4, 5, 100, 101],
                        "overwrite" => vec![100, 101],
                        "delete" => vec![4, 5],
                        _ => vec![0, 1, 2],
                    };
                    match race_open(plain.clone(), None).await {
                        Err(e) => problems.push(format!("the table no longer opens: {e}")),
                        Ok(ds) => match ds.versions().await {
                            Err(e) => problems.push(format!("versions(): {e}")),
                            Ok(vs) => {
                                for v in vs {
                                    match race_scan(plain.clone(), v.version).await {
                                        Err(e) => problems.push(e),
                                        Ok(rows) => {
                                            if let Some(Ok(wv)) = &wres {
                                                if *wv == v.version && rows != expect {
                                                    problems.push(format!("the writer's version {wv} holds {rows:?}, expected {expect:?}"));
                                                }
                                            }
                                        }
                                    }
                                }
                            }
                        },
                    }
                    if let Some(Ok(wv)) = &wres {
                        if let Err(e) = race_scan(plain.clone(), *wv).await {
                            if !problems.contains(&e) {
                                problems.push(e);
                            }
                        }
                    }
                }
                (wres, cres, problems, stuck)
            });
        res.tags.push(format!("race:{kind}"));
        if stuck {
            res.tags.push("race_stuck".into());
            res.failures.push(OracleFailure { what: "race: the controller could not reach quiescence".into(), key: Some("harness_stuck".into()), line: li });
        }
        match &wres {
            Some(Ok(_)) => res.tags.push("race_writer_ok".into()),
            Some(Err(e)) => {
                res.tags.push("race_writer_err".into());
                if std::env::var("C08_DEBUG").is_ok() {
                    eprintln!("[c08] race writer: {e}");
                }
            }
            None => res.tags.push("race_writer_none".into()),
        }
        if let Some(Err(e)) = &cres {
            res.tags.push("race_cleanup_err".into());
            if std::env::var("C08_DEBUG").is_ok() {
                eprintln!("[c08] race cleanup: {e}");
            }
        }
        let broken = !problems.is_empty();
        if broken {
            res.tags.push(format!("race_broken:{kind}:unv{}:late{}", unv as u8, late as u8));
            if std::env::var("C08_DEBUG").is_ok() {
                eprintln!("[c08] race problems: {problems:?}");
            }
        }
        res.tags.push("removed_some".into());
        if premise {
            if broken {
                res.failures.push(OracleFailure {
                    what: format!("cleanup raced with a {kind} (delete_unverified off, files younger than the threshold): {}", problems.join("; ")),
                    key: Some("racing_commit_broken".into()),
                    line: li,
                });
                "race BROKEN".into()
            } else {
                "race safe".into()
            }
        } else {
            if broken && kind == "restore" && !unv && !late {
                res.failures.push(OracleFailure {
                    what: format!("cleanup raced with a restore of version 1: {}", problems.join("; ")),
                    key: Some(KEY_RESTORE.into()),
                    line: li,
                });
            }
            "race unconstrained".into()
        }
    }
}

fn handle_arg(toks: &[&str]) -> Option<Option<u64>> {
    match arg(toks, "h")? {
        "l" => Some(None),
        _ => arg_u64(toks, "h").map(Some),
    }
}
fn opt_i64(toks: &[&str], key: &str) -> Option<Option<i64>> {
    match arg(toks, key)? {
        "-" => Some(None),
        _ => arg_i64(toks, key).map(Some),
    }
}
fn opt_u64(toks: &[&str], key: &str) -> Option<Option<u64>> {
    match arg(toks, key)? {
        "-" => Some(None),
        _ => arg_u64(toks, key).map(Some),
    }
}

// ------------------------------------------------------------------------------------------------ generator

const ORPHANS: [&str; 24] = [
    "data/o#.lance",
    "data/o#.lance",
    "data/o#.lance",
    "data/o#.txt",
    "data/o#.",
    "data/sub/o#.lance",
    "datax/o#.lance",
    "o#.lance",
    "_versions/.tmp_o#",
    "_versions/.tmpo#.manifest",
    "_versions/o#.tmp",
    "_transactions/5-o#.txn",
    "_transactions/o#.txn",
    "_transactions/o#.bin",
    "_deletions/0-1-o#.arrow",
    "_deletions/0-1-o#.bin",
    "_deletions/o#.lance",
    "_indices/o#/index.idx",
    "_indices/o#/page.lance",
    "_indices/@i0/extra#.bin",
    "_indices/@i0/extra#.lance",
    "_indicesx/o#/f.txn",
    "_refs/o#.txt",
    "_latest.manifest.o#",
];

const CFG_VALS: [&str; 12] = ["=1", "=2", "=3", "=0", "=x", "=", "=+2", "=-1", "-", "-", "-", "=4"];
const OLDER_VALS: [&str; 16] =
    ["=0s", "=1d", "=3days", "=8d", "=2w", "=36h", "=90m", "=zz", "=5", "=0", "=s", "=1week", "=1M", "=2hrs", "=7day", "-"];
const RETAIN_VALS: [&str; 10] = ["=1", "=2", "=3", "=0", "=q", "=+1", "-", "-", "-", "=5"];

impl C08 {
    fn gen_lines(rng: &mut Rng, tier: Tier) -> Vec<String> {
        let mut lines = vec![];
        let mut t: i64 = 100 * DAY + rng.below(1000) as i64;
        let mut times: Vec<i64> = vec![];
        let mut version_guess: u64 = 0;
        let mut orphan_n = 0;
        let step = |rng: &mut Rng, t: &mut i64| {
            *t += *rng.pick(&[0i64, 0, 1, 1, 60, 3600, DAY, DAY, 3 * DAY, 6 * DAY, 7 * DAY, 8 * DAY, 20 * DAY]);
        };
        let n_ops = match tier {
            Tier::Quick => rng.range(3, 9),
            _ => rng.range(3, 14),
        } as usize;
        lines.push(format!("create t={t} n={} v2={}", rng.range(1, 4), rng.below(3).min(1)));
        times.push(t);
        version_guess += 1;
        let auto = rng.chance(1, 4);
        if auto {
            step(rng, &mut t);
            lines.push(format!("config t={t} i={} o={} r={}", rng.pick(&CFG_VALS), rng.pick(&OLDER_VALS), rng.pick(&RETAIN_VALS)));
            times.push(t);
            version_guess += 1;
        }
        let mut pending = false;
        let mut held = false;
        for k in 0..n_ops {
            step(rng, &mut t);
            let last = k + 1 == n_ops;
            let roll = if last { 95 } else { rng.below(100) };
            let line = match roll {
                0..=17 => {
                    version_guess += 1;
                    times.push(t);
                    format!("append t={t} n={}", rng.range(1, 3))
                }
                18..=22 => {
                    version_guess += 1;
                    times.push(t);
                    format!("overwrite t={t} n={}", rng.range(1, 3))
                }
                23..=30 => {
                    version_guess += 1;
                    times.push(t);
                    format!("delete t={t} lt={}", rng.range(0, 6))
                }
                31..=35 => {
                    version_guess += 1;
                    times.push(t);
                    format!("compact t={t}")
                }
                36..=40 => {
                    version_guess += 1;
                    times.push(t);
                    format!("index t={t}")
                }
                41..=47 => format!("tag t={t} name={} v={}", rng.pick(&["a", "b", "c"]), rng.range(1, version_guess + 1)),
                48..=49 => format!("untag t={t} name={}", rng.pick(&["a", "b", "c"])),
                50..=52 if auto => {
                    version_guess += 1;
                    times.push(t);
                    format!("config t={t} i={} o={} r={}", rng.pick(&CFG_VALS), rng.pick(&OLDER_VALS), rng.pick(&RETAIN_VALS))
                }
                50..=52 => format!("dappend t={t} n={}", rng.range(1, 2)),
                53..=66 => {
                    orphan_n += 1;
                    // orphans may be stamped in the past or the future
                    let ot = match rng.below(5) {
                        0 => (t - 8 * DAY).max(0),
                        1 => (t - 7 * DAY).max(0),
                        2 => *rng.pick(&times),
                        3 => t + DAY,
                        _ => t,
                    };
                    format!("orphan t={ot} p={}", rng.pick(&ORPHANS).replace('#', &orphan_n.to_string()))
                }
                67..=70 if !pending => {
                    pending = true;
                    format!("begin t={t} n={}", rng.range(1, 2))
                }
                67..=72 if pending => {
                    pending = false;
                    version_guess += 1;
                    times.push(t);
                    format!("commit t={t}")
                }
                73..=74 if !held => {
                    held = true;
                    format!("hold t={t} v={}", rng.range(1, version_guess))
                }
                73..=75 if held => {
                    held = false;
                    version_guess += 1;
                    times.push(t);
                    format!("restore t={t}")
                }
                _ => {
                    let h = if rng.chance(1, 6) { rng.range(1, version_guess + 1).to_string() } else { "l".to_string() };
                    let older_choices = [0, 1, 3600, DAY, 3 * DAY, 7 * DAY, 10 * DAY, t - *rng.pick(&times), t - *rng.pick(&times) + 1, t - *rng.pick(&times) - 1];
                    let bts_choices = [*rng.pick(&times), *rng.pick(&times) + 1, *rng.pick(&times) - 1, t, t + 1];
                    match rng.below(10) {
                        0..=4 => format!(
                            "cleanup t={t} h={h} older={} unv={} err={}",
                            rng.pick(&older_choices),
                            rng.pick(&["-", "0", "1", "0"]),
                            rng.pick(&["-", "0", "1", "0"])
                        ),
                        5..=7 => format!(
                            "cleanp t={t} h={h} bts={} bv={} unv={} err={}",
                            if rng.chance(1, 3) { "-".to_string() } else { rng.pick(&bts_choices).to_string() },
                            if rng.chance(1, 2) { "-".to_string() } else { rng.range(0, version_guess + 2).to_string() },
                            rng.below(3) / 2,
                            rng.below(2)
                        ),
                        _ => format!(
                            "cleanr t={t} h={h} bts={} n={} unv={} err={}",
                            if rng.chance(1, 2) { "-".to_string() } else { rng.pick(&bts_choices).to_string() },
                            rng.pick(&[0u64, 1, 1, 2, 2, 3, 5, 50]),
                            rng.below(3) / 2,
                            rng.below(2)
                        ),
                    }
                }
            };
            lines.push(line);
            // pending commit right after a cleanup, to close the in-flight scenario
            if last && pending {
                step(rng, &mut t);
                lines.push(format!("commit t={t}"));
            }
            if last && held {
                step(rng, &mut t);
                lines.push(format!("restore t={t}"));
            }
        }
        // malformed stream
        if rng.chance(1, 8) {
            let bad = ["cleanup t=5 h=l older=x unv=0 err=0", "vacuum t=5", "append n=2", "cleanp t=900 h=l bts=- bv=- unv=- err=0", "orphan t=5 p=/abs", "tag t=7 name=a"];
            let pos = rng.usize(lines.len()) + 1;
            lines.insert(pos.min(lines.len()), rng.pick(&bad).to_string());
        }
        lines
    }
}

impl Prop for C08 {
    fn id(&self) -> &'static str {
        "C08"
    }
    fn budget(&self, tier: Tier) -> usize {
        match tier {
            Tier::Quick => 84,
            Tier::Thorough => 1600,
            Tier::Search => 400,
        }
    }
    fn gen_case(&mut self, rng: &mut Rng, tier: Tier, idx: usize) -> Vec<String> {
        // every fourth case is a race: cleanup || one writer under the gate controller
        if idx % 4 == 3 {
            let kind = *rng.pick(&["append", "append", "overwrite", "delete", "restore", "restore"]);
            let (unv, late) = match rng.below(8) {
                0 => (1, 0),
                1 => (0, 1),
                _ => (0, 0),
            };
            return vec![format!("race t=0 kind={kind} unv={unv} late={late} seed={}", rng.below(1_000_000))];
        }
        let lines = Self::gen_lines(rng, tier);
        // record the structure of the history by running it once
        let r = self.run_case(&lines);
        lines
            .iter()
            .zip(r.outputs.iter())
            .map(|(l, o)| {
                let op = l.split(' ').next().unwrap_or("");
                if matches!(op, "cleanup" | "cleanp" | "cleanr") || o.starts_with("err parse") || o.starts_with("err no_table") || o.starts_with("err exists") {
                    l.clone()
                } else {
                    format!("{l} => {o}")
                }
            })
            .collect()
    }
    fn exec_case(&mut self, lines: &[String]) -> CaseResult {
        let r = self.run_case(lines);
        if let Ok(p) = std::env::var("C08_RECORD_OUT") {
            use std::io::Write;
            if let Ok(mut f) = std::fs::OpenOptions::new().create(true).append(true).open(p) {
                let _ = writeln!(f, "# case");
                for (l, o) in lines.iter().zip(r.outputs.iter()) {
                    let base = l.split(" => ").next().unwrap_or("");
                    let op = base.split(' ').next().unwrap_or("");
                    if matches!(op, "cleanup" | "cleanp" | "cleanr") || o.starts_with("err parse") || o.starts_with("err no_table") || o.starts_with("err exists") {
                        let _ = writeln!(f, "{base}");
                    } else {
                        let _ = writeln!(f, "{base} => {o}");
                    }
                }
            }
        }
        r
    }
    fn rule(&self) -> String {
        "seeded histories on a real table in a temporary directory (create, then 3-9 (quick) / 3-14 ops of append / overwrite / delete / \
         compact / create index / tag / untag / auto-cleanup config / detached append / orphan object of 24 path shapes stamped now, \
         in the past or the future / begin + commit of an in-flight append / hold + restore of an old version), clock forced per op \
         (steps 0 s .. 20 d), ending in a cleanup by age, by explicit policy (timestamp and version bounds at, just below and just \
         above manifest timestamps) or retain-n, through the latest or a stale handle; 1/8 of the cases carry a malformed line. \
         Every fourth case is a race on an in-memory table: cleanup and one writer (append / overwrite / delete / restore) as two \
         tasks whose storage calls are released one at a time in a seeded order (bursts of 1-16 calls), 1/8 each with \
         delete_unverified or a clock 8 days ahead. Non-trivial: a cleanup (explicit or automatic) removed at least one object, or a race."
            .into()
    }
}

fn main() {
    // the generator runs histories too: keep caught panics quiet from the start
    std::panic::set_hook(Box::new(|_| {}));
    run_main(C08 { kit: Kit::new() })
}
