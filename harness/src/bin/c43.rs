//! C43: schema and projection algebra.
//! Interpreter of the C43 line protocol against the real lance-core `Schema` / `Field` / `Projection` / field-path code,
//! a seeded generator of cases (random nested schemas with adversarial names and id assignments, exhaustive small
//! enumeration for the path parser), and the property oracle (id-set semantics computed independently from parent maps).
//!
//! Line protocol (tokens separated by single spaces; a name / path / string is a comma separated list of decimal code
//! points, `-` is the empty string; ids are signed decimals):
//!   def R n F…            F = name id kind nullable meta nchildren F…   kind = s | l | t0..t3
//!   pids R A ids b        Schema::project_by_ids(ids, b)                 → dump
//!   excl R A B            Schema::exclude                                → dump | err:K | panic
//!   isect R A B ig        Schema::intersection / intersection_ignore_types
//!   merge R A B           Schema::merge
//!   proj R A k path…      Schema::project        projd = project_or_drop
//!   resolve A path        Schema::resolve  → ids of the resolved fields | none
//!   byid A id             Schema::field_by_id → field dump | none
//!   fpath A id            Schema::field_path → string | err:index
//!   setid R A m           Schema::set_field_id(m)  m = none | int
//!   maxid A | ids A | validate A
//!   parse path | fmt n seg… | esc path
//!   pempty P A | pfull P A | pcol P Q path om | pusch P Q S | pssch P Q S | puni P Q1 Q2 | psub P Q1 Q2 | pint P Q1 Q2
//!   pflag P Q k | pbare R P
use std::collections::{BTreeSet, HashMap, HashSet};
use std::panic::{catch_unwind, AssertUnwindSafe};
use std::sync::Arc;

use hcommon::*;
use lance_core::datatypes::{
    escape_field_path_for_project, format_field_path, parse_field_path, Field, LogicalType, OnMissing, Projection, Schema,
};
use lance_core::Error;
use lance_file::datatypes::Fields;

#[derive(Clone)]
enum Val {
    S(Schema),
    P(Projection, String), // projection and the register name of its base schema (for the oracle)
}

// ---------- encoding helpers ----------

fn dec_str(tok: &str) -> Option<String> {
    if tok == "-" {
        return Some(String::new());
    }
    let mut s = String::new();
    for p in tok.split(',') {
        let n: u32 = p.parse().ok()?;
        s.push(char::from_u32(n)?);
    }
    Some(s)
}

fn enc_str(s: &str) -> String {
    if s.is_empty() {
        return "-".into();
    }
    s.chars().map(|c| (c as u32).to_string()).collect::<Vec<_>>().join(",")
}

fn parse_ids(tok: &str) -> Option<Vec<i32>> {
    if tok == "-" {
        return Some(vec![]);
    }
    tok.split(',').map(|x| x.parse::<i32>().ok()).collect()
}

fn show_ids<I: IntoIterator<Item = i32>>(xs: I) -> String {
    let v: Vec<String> = xs.into_iter().map(|x| x.to_string()).collect();
    if v.is_empty() {
        "-".into()
    } else {
        v.join(",")
    }
}

fn kind_of(f: &Field) -> String {
    let lt = f.logical_type.to_string();
    match lt.as_str() {
        "struct" => "s".into(),
        "list" | "list.struct" => "l".into(),
        "int32" => "t0".into(),
        "int64" => "t1".into(),
        "string" => "t2".into(),
        "bool" => "t3".into(),
        other => format!("?{other}"),
    }
}

fn meta_of(f: &Field) -> u32 {
    f.metadata.get("k").and_then(|v| v.parse().ok()).unwrap_or(0)
}

fn dump_field(f: &Field, o: &mut String) {
    o.push_str(&format!("{}:{}:{}:{}:{}", enc_str(&f.name), f.id, kind_of(f), f.nullable as u8, meta_of(f)));
    if !f.children.is_empty() {
        o.push('{');
        for (i, c) in f.children.iter().enumerate() {
            if i > 0 {
                o.push(' ');
            }
            dump_field(c, o);
        }
        o.push('}');
    }
}

fn dump_schema(s: &Schema) -> String {
    let mut o = String::from("[");
    for (i, f) in s.fields.iter().enumerate() {
        if i > 0 {
            o.push(' ');
        }
        dump_field(f, &mut o);
    }
    o.push(']');
    o
}

fn dump_proj(p: &Projection) -> String {
    let mut ids: Vec<i32> = p.field_ids.iter().copied().collect();
    ids.sort();
    format!(
        "ids={} rid={} raddr={} upd={} crt={}",
        show_ids(ids),
        p.with_row_id as u8,
        p.with_row_addr as u8,
        p.with_row_last_updated_at_version as u8,
        p.with_row_created_at_version as u8
    )
}

fn err_kind(e: &Error) -> &'static str {
    match e {
        Error::Schema { .. } => "err:schema",
        Error::Arrow { .. } => "err:arrow",
        Error::InvalidInput { .. } => "err:invalid",
        Error::Index { .. } => "err:index",
        Error::Internal { .. } => "err:internal",
        _ => "err:other",
    }
}

fn mk_field(name: String, id: i32, kind: &str, nullable: bool, meta: u32, children: Vec<Field>) -> Option<Field> {
    let lt = match kind {
        "s" => "struct",
        "l" => {
            if children.first().map(|c| c.logical_type.to_string() == "struct").unwrap_or(false) {
                "list.struct"
            } else {
                "list"
            }
        }
        "t0" => "int32",
        "t1" => "int64",
        "t2" => "string",
        "t3" => "bool",
        _ => return None,
    };
    let mut metadata = HashMap::new();
    if meta != 0 {
        metadata.insert("k".to_string(), meta.to_string());
    }
    Some(Field {
        name,
        id,
        parent_id: -1,
        logical_type: LogicalType::from(lt),
        metadata,
        encoding: None,
        nullable,
        children,
        dictionary: None,
        unenforced_primary_key: false,
    })
}

fn parse_field(toks: &[&str], pos: &mut usize, depth: usize) -> Option<Field> {
    if depth > 16 || *pos + 6 > toks.len() {
        return None;
    }
    let name = dec_str(toks[*pos])?;
    let id: i32 = toks[*pos + 1].parse().ok()?;
    let kind = toks[*pos + 2];
    let nullable = match toks[*pos + 3] {
        "0" => false,
        "1" => true,
        _ => return None,
    };
    let meta: u32 = toks[*pos + 4].parse().ok()?;
    let n: usize = toks[*pos + 5].parse().ok()?;
    *pos += 6;
    let mut ch = vec![];
    for _ in 0..n {
        ch.push(parse_field(toks, pos, depth + 1)?);
    }
    mk_field(name, id, kind, nullable, meta, ch)
}

fn parse_fields(toks: &[&str]) -> Option<Vec<Field>> {
    let n: usize = toks.first()?.parse().ok()?;
    let mut pos = 1;
    let mut v = vec![];
    for _ in 0..n {
        v.push(parse_field(toks, &mut pos, 0)?);
    }
    if pos != toks.len() {
        return None;
    }
    Some(v)
}

// ---------- independent reference computations for the oracle ----------

#[derive(Clone, Debug, PartialEq)]
struct Node {
    id: i32,
    parent: Option<usize>, // index into the pre-order node list
    name: String,
    kind: String,
    nullable: bool,
    meta: u32,
    nchildren: usize,
}

fn flatten(fields: &[Field], parent: Option<usize>, out: &mut Vec<Node>) {
    for f in fields {
        let me = out.len();
        out.push(Node {
            id: f.id,
            parent,
            name: f.name.clone(),
            kind: kind_of(f),
            nullable: f.nullable,
            meta: meta_of(f),
            nchildren: f.children.len(),
        });
        flatten(&f.children, Some(me), out);
    }
}

fn nodes_of(s: &Schema) -> Vec<Node> {
    let mut v = vec![];
    flatten(&s.fields, None, &mut v);
    v
}

/// schema usable by the id-set oracle: unique non-negative ids, unique sibling names, structs/lists/leaves well shaped
fn oracle_valid(s: &Schema) -> bool {
    let ns = nodes_of(s);
    let mut ids = HashSet::new();
    let mut names = HashSet::new();
    for n in &ns {
        if n.id < 0 || !ids.insert(n.id) {
            return false;
        }
        if !names.insert((n.parent, n.name.clone())) {
            return false;
        }
        match n.kind.as_str() {
            "s" => {}
            "l" => {
                if n.nchildren != 1 {
                    return false;
                }
            }
            _ => {
                if n.nchildren != 0 {
                    return false;
                }
            }
        }
    }
    true
}

fn is_anc_or_self(ns: &[Node], a: usize, mut d: usize) -> bool {
    loop {
        if d == a {
            return true;
        }
        match ns[d].parent {
            Some(p) => d = p,
            None => return false,
        }
    }
}

/// the attributes of node `i` of `sub` equal those of the node with the same id in `base`, and the parent ids agree
fn sub_of(sub: &Schema, base: &Schema) -> bool {
    let a = nodes_of(sub);
    let b = nodes_of(base);
    let mut bi = 0usize;
    // order preserving embedding by id, attributes and parent ids preserved
    for n in &a {
        let mut found = None;
        while bi < b.len() {
            if b[bi].id == n.id {
                found = Some(bi);
                bi += 1;
                break;
            }
            bi += 1;
        }
        let Some(j) = found else { return false };
        let m = &b[j];
        if m.name != n.name || m.kind != n.kind || m.nullable != n.nullable || m.meta != n.meta {
            return false;
        }
        let pa = n.parent.map(|p| a[p].id);
        let pb = m.parent.map(|p| b[p].id);
        if pa != pb {
            return false;
        }
    }
    true
}

fn name_paths(s: &Schema) -> BTreeSet<Vec<String>> {
    let ns = nodes_of(s);
    let mut out = BTreeSet::new();
    for i in 0..ns.len() {
        let mut p = vec![];
        let mut c = Some(i);
        while let Some(k) = c {
            p.push(ns[k].name.clone());
            c = ns[k].parent;
        }
        p.reverse();
        out.insert(p);
    }
    out
}

/// name path -> node, `None` when two siblings share a name (paths would be ambiguous)
fn path_map(s: &Schema) -> Option<std::collections::BTreeMap<Vec<String>, Node>> {
    let ns = nodes_of(s);
    let mut out = std::collections::BTreeMap::new();
    for i in 0..ns.len() {
        let mut p = vec![];
        let mut c = Some(i);
        while let Some(k) = c {
            p.push(ns[k].name.clone());
            c = ns[k].parent;
        }
        p.reverse();
        if out.insert(p, ns[i].clone()).is_some() {
            return None;
        }
    }
    Some(out)
}

fn field_to_tokens(f: &Field, o: &mut Vec<String>) {
    o.push(format!("{} {} {} {} {} {}", enc_str(&f.name), f.id, kind_of(f), f.nullable as u8, meta_of(f), f.children.len()));
    for c in &f.children {
        field_to_tokens(c, o);
    }
}

/// a variant of the schema defined by `line`: same names, ids re-assigned by `f(id)`; optionally some sub-trees dropped,
/// the top level reversed, one leaf type changed
fn gen_variant(r: &mut Rng, line: &str, reg: &str) -> Option<String> {
    let toks: Vec<&str> = line.split(' ').collect();
    let mut fs = parse_fields(&toks[2..])?;
    let mode = r.below(4);
    let maxid = Schema { fields: fs.clone(), metadata: HashMap::new() }.field_ids().into_iter().max().unwrap_or(0).max(0);
    fn remap(fs: &mut Vec<Field>, mode: u64, maxid: i32, r: &mut Rng, depth: usize) {
        if depth > 0 && fs.len() > 1 && r.chance(1, 4) {
            let k = r.usize(fs.len());
            fs.remove(k);
        }
        for f in fs.iter_mut() {
            if f.id >= 0 {
                f.id = match mode {
                    0 => f.id + 7,                 // other side larger
                    1 => maxid - f.id,             // reversed: some larger, some smaller
                    2 => f.id * 2 + 1,
                    _ => f.id / 2 + (f.id % 2) * (maxid + 1), // mostly smaller, still injective
                };
            }
            if f.children.is_empty() && r.chance(1, 12) {
                f.logical_type = LogicalType::from(if f.logical_type.to_string() == "int32" { "int64" } else { "int32" });
            }
            if r.chance(1, 6) {
                f.nullable = !f.nullable;
            }
            remap(&mut f.children, mode, maxid, r, depth + 1);
        }
    }
    remap(&mut fs, mode, maxid, r, 0);
    if fs.len() > 1 && r.chance(1, 3) {
        let k = r.usize(fs.len());
        fs.remove(k);
    }
    if r.chance(1, 3) {
        fs.reverse();
    }
    let mut o = vec![];
    for f in &fs {
        field_to_tokens(f, &mut o);
    }
    Some(format!("def {reg} {} {}", fs.len(), o.join(" ")))
}

struct C43 {
    state: HashMap<String, Val>,
}

const ROW_NAMES: [&str; 4] = ["_rowid", "_rowaddr", "_row_last_updated_at_version", "_row_created_at_version"];

impl C43 {
    fn schema(&self, r: &str) -> Option<Schema> {
        match self.state.get(r) {
            Some(Val::S(s)) => Some(s.clone()),
            _ => None,
        }
    }
    fn proj(&self, r: &str) -> Option<(Projection, String)> {
        match self.state.get(r) {
            Some(Val::P(p, b)) => Some((p.clone(), b.clone())),
            _ => None,
        }
    }

    /// a register holding a valid schema of which both `a` and `b` are sub-schemas
    fn common_base(&self, a: &Schema, b: &Schema) -> Option<Schema> {
        let mut keys: Vec<&String> = self.state.keys().collect();
        keys.sort();
        for k in keys {
            if let Some(Val::S(c)) = self.state.get(k) {
                if oracle_valid(c) && sub_of(a, c) && sub_of(b, c) {
                    return Some(c.clone());
                }
            }
        }
        None
    }

    fn run_line(&mut self, line: &str, lineno: usize, fails: &mut Vec<OracleFailure>, tags: &mut Vec<String>) -> String {
        let toks: Vec<&str> = line.trim().split(' ').filter(|t| !t.is_empty()).collect();
        let bad = "bad-op".to_string();
        if toks.is_empty() {
            return bad;
        }
        let mut fail = |key: &str, what: String| {
            fails.push(OracleFailure { what, key: Some(key.to_string()), line: lineno });
        };
        macro_rules! guard {
            ($e:expr) => {
                match catch_unwind(AssertUnwindSafe(|| $e)) {
                    Ok(v) => v,
                    Err(_) => {
                        tags.push("res:panic".into());
                        return "panic".into();
                    }
                }
            };
        }
        let op = toks[0];
        match (op, toks.len()) {
            ("def", n) if n >= 3 => {
                let Some(fields) = parse_fields(&toks[2..]) else { return bad };
                let s = Schema { fields, metadata: HashMap::new() };
                let out = dump_schema(&s);
                // oracle (implementation only, not modelled): the stored form (protobuf Fields) and Arrow round trips
                // preserve every kept attribute (Arrow carries no field ids)
                if oracle_valid(&s) {
                    let mut s2 = s.clone();
                    fn set_parents(fs: &mut [Field], parent: i32) {
                        for f in fs {
                            f.parent_id = parent;
                            let id = f.id;
                            set_parents(&mut f.children, id);
                        }
                    }
                    set_parents(&mut s2.fields, -1);
                    let back = guard!(Schema::from(&Fields::from(&s2)));
                    if dump_schema(&back) != out || back != s2 {
                        fail("conv_roundtrip", format!("Fields round trip gives {}", dump_schema(&back)));
                    }
                    let arrow = guard!(arrow_schema::Schema::from(&s2));
                    // (the conversion back validates: top-level names with dots are rejected by design, ids are re-assigned 0..n)
                    match guard!(Schema::try_from(&arrow)) {
                        _ if s2.validate().is_err() => {}
                        Ok(b2) => {
                            let (x, y) = (nodes_of(&s2), nodes_of(&b2));
                            let same = x.len() == y.len()
                                && x.iter().zip(y.iter()).enumerate().all(|(k, (a, b))| {
                                    a.name == b.name && a.kind == b.kind && a.nullable == b.nullable && a.meta == b.meta && a.nchildren == b.nchildren && a.parent == b.parent && b.id == k as i32
                                });
                            if !same {
                                fail("conv_roundtrip", format!("Arrow round trip gives {}", dump_schema(&b2)));
                            }
                        }
                        Err(e) => fail("conv_roundtrip", format!("Arrow round trip failed: {e}")),
                    }
                    tags.push("def:conv_oracle".into());
                }
                self.state.insert(toks[1].into(), Val::S(s));
                out
            }
            ("pids", 5) => {
                let (Some(a), Some(ids)) = (self.schema(toks[2]), parse_ids(toks[3])) else { return bad };
                let b = match toks[4] {
                    "0" => false,
                    "1" => true,
                    _ => return bad,
                };
                let r = guard!(a.project_by_ids(&ids, b));
                // oracle: ancestor closure of the selected ids plus the subtree of a selected field that has no selected strict
                // descendant (or of every selected field when include_all_children)
                if oracle_valid(&a) {
                    let ns = nodes_of(&a);
                    let sel: Vec<usize> = (0..ns.len()).filter(|&i| ids.contains(&ns[i].id)).collect();
                    let mut exp = vec![];
                    for i in 0..ns.len() {
                        let up = sel.iter().any(|&j| is_anc_or_self(&ns, i, j));
                        let down = sel.iter().any(|&a_| {
                            is_anc_or_self(&ns, a_, i)
                                && (b || !sel.iter().any(|&j| j != a_ && is_anc_or_self(&ns, a_, j)))
                        });
                        if up || down {
                            exp.push(ns[i].id);
                        }
                    }
                    let got = r.field_ids();
                    if got != exp {
                        fail("project_by_ids_set", format!("project_by_ids ids {:?} expected {:?}", got, exp));
                    }
                    if !sub_of(&r, &a) {
                        fail("project_by_ids_attrs", "project_by_ids result is not an attribute preserving sub-schema".into());
                    }
                    tags.push(format!("pids:{}", if exp.is_empty() { "empty" } else if exp.len() == ns.len() { "all" } else { "some" }));
                }
                let out = dump_schema(&r);
                self.state.insert(toks[1].into(), Val::S(r));
                out
            }
            ("excl", 4) => {
                let (Some(a), Some(b)) = (self.schema(toks[2]), self.schema(toks[3])) else { return bad };
                let r = guard!(a.exclude(&b));
                match r {
                    Ok(r) => {
                        if let Some(base) = self.common_base(&a, &b) {
                            // leaves of a that are not leaves of b survive; a nested field survives iff one of its children does
                            let _ = base;
                            let na = nodes_of(&a);
                            let idb: HashSet<i32> = nodes_of(&b).iter().map(|n| n.id).collect();
                            let mut keep = vec![false; na.len()];
                            for i in (0..na.len()).rev() {
                                let has_kept_child = (0..na.len()).any(|j| na[j].parent == Some(i) && keep[j]);
                                let nested = na[i].kind == "s" || na[i].kind == "l";
                                keep[i] = if !idb.contains(&na[i].id) {
                                    true
                                } else if nested {
                                    has_kept_child
                                } else {
                                    false
                                };
                            }
                            // a kept node needs all its ancestors; an unmatched node keeps its whole subtree
                            let mut exp = vec![];
                            for i in 0..na.len() {
                                let mut ok = keep[i];
                                let mut c = na[i].parent;
                                let mut under_unmatched = false;
                                while let Some(p) = c {
                                    if !idb.contains(&na[p].id) {
                                        under_unmatched = true;
                                    }
                                    c = na[p].parent;
                                }
                                if under_unmatched {
                                    ok = true;
                                }
                                if ok {
                                    exp.push(na[i].id);
                                }
                            }
                            let got = r.field_ids();
                            if got != exp {
                                fail("exclude_set", format!("exclude ids {:?} expected {:?}", got, exp));
                            }
                            if !sub_of(&r, &a) {
                                fail("exclude_attrs", "exclude result is not an attribute preserving sub-schema".into());
                            }
                            tags.push("excl:oracle".into());
                        }
                        let out = dump_schema(&r);
                        self.state.insert(toks[1].into(), Val::S(r));
                        out
                    }
                    Err(e) => {
                        if self.common_base(&a, &b).is_some() {
                            fail("exclude_set", format!("exclude of two sub-schemas of a valid schema failed: {e}"));
                        }
                        err_kind(&e).into()
                    }
                }
            }
            ("isect", 5) => {
                let (Some(a), Some(b)) = (self.schema(toks[2]), self.schema(toks[3])) else { return bad };
                let ig = match toks[4] {
                    "0" => false,
                    "1" => true,
                    _ => return bad,
                };
                let r = guard!(if ig { a.intersection_ignore_types(&b) } else { a.intersection(&b) });
                match r {
                    Ok(r) => {
                        if let Some(base) = self.common_base(&a, &b) {
                            let idb: HashSet<i32> = nodes_of(&b).iter().map(|n| n.id).collect();
                            let exp: Vec<i32> = a.field_ids().into_iter().filter(|i| idb.contains(i)).collect();
                            let got = r.field_ids();
                            if got != exp {
                                fail("intersection_set", format!("intersection ids {:?} expected {:?}", got, exp));
                            }
                            if !sub_of(&r, &base) {
                                fail("intersection_attrs", "intersection result is not an attribute preserving sub-schema".into());
                            }
                            tags.push("isect:oracle".into());
                        }
                        // general oracle (any two operands with unambiguous name paths): every field of the result is the
                        // same-named field path of the LEFT operand with its id and attributes (the right operand only lends
                        // an id where the left one has none), ids stay pairwise distinct, and for type-compatible operands the
                        // result's name paths are exactly those present in both
                        if let (Some(pa), Some(pb), Some(pr)) = (path_map(&a), path_map(&b), path_map(&r)) {
                            for (p, n) in &pr {
                                match pa.get(p) {
                                    None => fail("intersection_paths", format!("result field {:?} is not a field path of the left operand", p)),
                                    Some(x) => {
                                        if x.id >= 0 {
                                            if n.id != x.id {
                                                fail("intersection_left_ids", format!("field {:?} has id {} in the left operand but {} in the intersection", p, x.id, n.id));
                                            }
                                            if n.kind != x.kind || n.nullable != x.nullable || n.meta != x.meta {
                                                fail("intersection_left_attrs", format!("field {:?} does not carry the left operand's attributes", p));
                                            }
                                        } else if let Some(y) = pb.get(p) {
                                            if n.id != y.id {
                                                fail("intersection_left_ids", format!("field {:?} without id on the left should take the right id {} but has {}", p, y.id, n.id));
                                            }
                                        }
                                    }
                                }
                            }
                            let a_ids: Vec<i32> = a.field_ids();
                            let a_ok = a_ids.iter().all(|i| *i >= 0) && a_ids.iter().collect::<HashSet<_>>().len() == a_ids.len();
                            if a_ok {
                                let rid = r.field_ids();
                                if rid.iter().collect::<HashSet<_>>().len() != rid.len() {
                                    fail("intersection_left_ids", format!("intersection has duplicate ids {:?} although the left operand's ids {:?} are distinct", rid, a_ids));
                                }
                            }
                            let leaf_ok = |m: &std::collections::BTreeMap<Vec<String>, Node>| m.values().all(|n| n.kind == "s" || n.kind == "l" || n.nchildren == 0);
                            let compat = pa.iter().all(|(p, x)| pb.get(p).map(|y| y.kind == x.kind).unwrap_or(true));
                            if compat && leaf_ok(&pa) && leaf_ok(&pb) {
                                let exp: BTreeSet<&Vec<String>> = pa.keys().filter(|p| pb.contains_key(*p)).collect();
                                let got: BTreeSet<&Vec<String>> = pr.keys().collect();
                                if exp != got {
                                    fail("intersection_paths", format!("intersection name paths {:?}, expected exactly those present in both {:?}", got, exp));
                                }
                                tags.push("isect:paths_oracle".into());
                            }
                            if a_ok && pb.iter().any(|(p, y)| pa.get(p).map(|x| y.id > x.id).unwrap_or(false)) {
                                tags.push("isect:other_id_larger".into());
                            }
                            if a_ok && pb.iter().any(|(p, y)| pa.get(p).map(|x| y.id >= 0 && y.id < x.id).unwrap_or(false)) {
                                tags.push("isect:other_id_smaller".into());
                            }
                            tags.push("isect:left_oracle".into());
                        }
                        let out = dump_schema(&r);
                        self.state.insert(toks[1].into(), Val::S(r));
                        out
                    }
                    Err(e) => {
                        if self.common_base(&a, &b).is_some() {
                            fail("intersection_set", format!("intersection of two sub-schemas of a valid schema failed: {e}"));
                        }
                        err_kind(&e).into()
                    }
                }
            }
            ("merge", 4) => {
                let (Some(a), Some(b)) = (self.schema(toks[2]), self.schema(toks[3])) else { return bad };
                let r = guard!(a.merge(&b));
                match r {
                    Ok(r) => {
                        if self.common_base(&a, &b).is_some() {
                            let mut exp = name_paths(&a);
                            exp.extend(name_paths(&b));
                            let got = name_paths(&r);
                            if got != exp {
                                fail("merge_set", format!("merge paths {:?} expected {:?}", got, exp));
                            }
                            // fields of a keep their ids; new fields carry -1
                            let ida: HashSet<i32> = a.field_ids().into_iter().collect();
                            let gotids: Vec<i32> = r.field_ids().into_iter().filter(|i| *i >= 0).collect();
                            let gotset: HashSet<i32> = gotids.iter().copied().collect();
                            if gotset != ida || gotids.len() != ida.len() {
                                fail("merge_ids", format!("merge kept ids {:?} expected exactly those of the left schema", gotids));
                            }
                            tags.push("merge:oracle".into());
                        }
                        let out = dump_schema(&r);
                        self.state.insert(toks[1].into(), Val::S(r));
                        out
                    }
                    Err(e) => {
                        if self.common_base(&a, &b).is_some() {
                            fail("merge_set", format!("merge of two sub-schemas of a valid schema failed: {e}"));
                        }
                        err_kind(&e).into()
                    }
                }
            }
            ("proj", n) | ("projd", n) if n >= 4 => {
                let Some(a) = self.schema(toks[2]) else { return bad };
                let Ok(k) = toks[3].parse::<usize>() else { return bad };
                if toks.len() != 4 + k {
                    return bad;
                }
                let mut cols = vec![];
                for t in &toks[4..] {
                    let Some(s) = dec_str(t) else { return bad };
                    cols.push(s);
                }
                let r = guard!(if op == "proj" { a.project(&cols) } else { a.project_or_drop(&cols) });
                match r {
                    Ok(r) => {
                        let out = dump_schema(&r);
                        self.state.insert(toks[1].into(), Val::S(r));
                        out
                    }
                    Err(e) => err_kind(&e).into(),
                }
            }
            ("resolve", 3) => {
                let (Some(a), Some(p)) = (self.schema(toks[1]), dec_str(toks[2])) else { return bad };
                match guard!(a.resolve(&p).map(|v| v.iter().map(|f| f.id).collect::<Vec<_>>())) {
                    Some(ids) => show_ids(ids),
                    None => "none".into(),
                }
            }
            ("byid", 3) => {
                let Some(a) = self.schema(toks[1]) else { return bad };
                let Ok(id) = toks[2].parse::<i32>() else { return bad };
                match guard!(a.field_by_id(id).cloned()) {
                    Some(f) => {
                        let mut o = String::new();
                        dump_field(&f, &mut o);
                        o
                    }
                    None => "none".into(),
                }
            }
            ("fpath", 3) => {
                let Some(a) = self.schema(toks[1]) else { return bad };
                let Ok(id) = toks[2].parse::<i32>() else { return bad };
                match guard!(a.field_path(id)) {
                    Ok(p) => {
                        // oracle: the formatted path of a field resolves to exactly that field, and projecting by it keeps
                        // exactly its ancestors and its subtree
                        let ns = nodes_of(&a);
                        if oracle_valid(&a) && ns.iter().all(|n| !n.name.is_empty()) {
                            let me = ns.iter().position(|n| n.id == id).unwrap();
                            let mut anc = vec![];
                            let mut c = Some(me);
                            while let Some(k) = c {
                                anc.push(ns[k].id);
                                c = ns[k].parent;
                            }
                            anc.reverse();
                            let got = guard!(a.resolve(&p).map(|v| v.iter().map(|f| f.id).collect::<Vec<_>>()));
                            if got.as_ref() != Some(&anc) {
                                fail("resolve_exact", format!("resolve({:?}) = {:?}, expected the ancestry {:?} of field {}", p, got, anc, id));
                            }
                            let exp: Vec<i32> = (0..ns.len())
                                .filter(|&i| is_anc_or_self(&ns, i, me) || is_anc_or_self(&ns, me, i))
                                .map(|i| ns[i].id)
                                .collect();
                            let pr = guard!(a.project(&[p.as_str()]));
                            match pr {
                                Ok(r) => {
                                    if r.field_ids() != exp || !sub_of(&r, &a) {
                                        fail("project_path", format!("project([{:?}]) kept ids {:?}, expected {:?}", p, r.field_ids(), exp));
                                    }
                                }
                                Err(e) => {
                                    fail("project_path", format!("project([{:?}]) of the path of field {} failed: {}", p, id, e));
                                }
                            }
                            tags.push("fpath:oracle".into());
                        }
                        enc_str(&p)
                    }
                    Err(e) => err_kind(&e).into(),
                }
            }
            ("setid", 4) => {
                let Some(mut a) = self.schema(toks[2]) else { return bad };
                let m = if toks[3] == "none" {
                    None
                } else {
                    let Ok(v) = toks[3].parse::<i32>() else { return bad };
                    Some(v)
                };
                let before = nodes_of(&a);
                guard!(a.set_field_id(m));
                // oracle: non-negative ids are kept, negative ones get fresh, distinct ids above everything seen
                let after = nodes_of(&a);
                let floor = before.iter().map(|n| n.id).max().unwrap_or(-1).max(m.unwrap_or(-1));
                let mut fresh = HashSet::new();
                for (x, y) in before.iter().zip(after.iter()) {
                    if x.id >= 0 {
                        if y.id != x.id {
                            fail("set_field_id", format!("field id {} changed to {}", x.id, y.id));
                        }
                    } else if y.id <= floor || !fresh.insert(y.id) {
                        fail("set_field_id", format!("new id {} not fresh (floor {})", y.id, floor));
                    }
                }
                let out = dump_schema(&a);
                self.state.insert(toks[1].into(), Val::S(a));
                out
            }
            ("maxid", 2) => {
                let Some(a) = self.schema(toks[1]) else { return bad };
                match a.max_field_id() {
                    Some(v) => v.to_string(),
                    None => "none".into(),
                }
            }
            ("ids", 2) => {
                let Some(a) = self.schema(toks[1]) else { return bad };
                show_ids(a.field_ids())
            }
            ("validate", 2) => {
                let Some(a) = self.schema(toks[1]) else { return bad };
                match guard!(a.validate()) {
                    Ok(()) => "ok".into(),
                    Err(e) => err_kind(&e).into(),
                }
            }
            ("parse", 2) => {
                let Some(p) = dec_str(toks[1]) else { return bad };
                match guard!(parse_field_path(&p)) {
                    Ok(segs) => {
                        // oracle: a successful parse has at least one segment, none empty, and formatting it parses back
                        if segs.is_empty() || segs.iter().any(|s| s.is_empty()) {
                            fail("parse_nonempty", format!("parse({:?}) returned an empty list or an empty segment", p));
                        }
                        let refs: Vec<&str> = segs.iter().map(|s| s.as_str()).collect();
                        let again = parse_field_path(&format_field_path(&refs));
                        if again.as_ref().ok() != Some(&segs) {
                            fail("path_roundtrip", format!("parse(format({:?})) = {:?}", segs, again.ok()));
                        }
                        tags.push("parse:ok".into());
                        format!("ok {} {}", segs.len(), segs.iter().map(|s| enc_str(s)).collect::<Vec<_>>().join(" "))
                    }
                    Err(e) => {
                        tags.push("parse:err".into());
                        err_kind(&e).into()
                    }
                }
            }
            ("fmt", n) if n >= 2 => {
                let Ok(k) = toks[1].parse::<usize>() else { return bad };
                if toks.len() != 2 + k {
                    return bad;
                }
                let mut segs = vec![];
                for t in &toks[2..] {
                    let Some(s) = dec_str(t) else { return bad };
                    segs.push(s);
                }
                let refs: Vec<&str> = segs.iter().map(|s| s.as_str()).collect();
                let p = guard!(format_field_path(&refs));
                if !segs.is_empty() && segs.iter().all(|s| !s.is_empty()) {
                    let back = parse_field_path(&p);
                    if back.as_ref().ok() != Some(&segs) {
                        fail("path_roundtrip", format!("parse(format({:?})) = {:?}", segs, back.ok()));
                    }
                    tags.push("fmt:roundtrip".into());
                }
                enc_str(&p)
            }
            ("esc", 2) => {
                let Some(p) = dec_str(toks[1]) else { return bad };
                let e = guard!(escape_field_path_for_project(&p));
                if let Ok(segs) = parse_field_path(&p) {
                    if p != "*" && parse_field_path(&e).ok().as_ref() != Some(&segs) {
                        fail("escape_roundtrip", format!("parse(escape({:?})) differs from parse", p));
                    }
                }
                enc_str(&e)
            }
            ("pempty", 3) | ("pfull", 3) => {
                let Some(a) = self.schema(toks[2]) else { return bad };
                let base = Arc::new(a);
                let p = guard!(if op == "pempty" { Projection::empty(base) } else { Projection::full(base) });
                let out = dump_proj(&p);
                self.state.insert(toks[1].into(), Val::P(p, toks[2].into()));
                out
            }
            ("pcol", 5) => {
                let (Some((q, b)), Some(col)) = (self.proj(toks[2]), dec_str(toks[3])) else { return bad };
                let om = match toks[4] {
                    "e" => OnMissing::Error,
                    "i" => OnMissing::Ignore,
                    _ => return bad,
                };
                match guard!(q.union_column(&col, om)) {
                    Ok(p) => {
                        let out = dump_proj(&p);
                        self.state.insert(toks[1].into(), Val::P(p, b));
                        out
                    }
                    Err(e) => err_kind(&e).into(),
                }
            }
            ("pusch", 4) | ("pssch", 4) => {
                let (Some((q, b)), Some(s)) = (self.proj(toks[2]), self.schema(toks[3])) else { return bad };
                let before: BTreeSet<i32> = q.field_ids.iter().copied().collect();
                let p = guard!(if op == "pusch" { q.union_schema(&s) } else { q.subtract_schema(&s) });
                let sid: BTreeSet<i32> = s.field_ids().into_iter().filter(|i| *i >= 0).collect();
                let exp: BTreeSet<i32> = if op == "pusch" {
                    before.union(&sid).copied().collect()
                } else {
                    before.difference(&sid).copied().collect()
                };
                let got: BTreeSet<i32> = p.field_ids.iter().copied().collect();
                if got != exp {
                    fail("projection_set", format!("{op}: ids {:?} expected {:?}", got, exp));
                }
                let out = dump_proj(&p);
                self.state.insert(toks[1].into(), Val::P(p, b));
                out
            }
            ("puni", 4) | ("psub", 4) | ("pint", 4) => {
                let (Some((q1, b)), Some((q2, _))) = (self.proj(toks[2]), self.proj(toks[3])) else { return bad };
                let s1: BTreeSet<i32> = q1.field_ids.iter().copied().collect();
                let s2: BTreeSet<i32> = q2.field_ids.iter().copied().collect();
                let f1 = [q1.with_row_id, q1.with_row_addr, q1.with_row_last_updated_at_version, q1.with_row_created_at_version];
                let f2 = [q2.with_row_id, q2.with_row_addr, q2.with_row_last_updated_at_version, q2.with_row_created_at_version];
                let p = guard!(match op {
                    "puni" => q1.union_projection(&q2),
                    "psub" => q1.subtract_projection(&q2),
                    _ => q1.intersect(&q2),
                });
                let exp: BTreeSet<i32> = match op {
                    "puni" => s1.union(&s2).copied().collect(),
                    "psub" => s1.difference(&s2).copied().collect(),
                    _ => s1.intersection(&s2).copied().collect(),
                };
                let got: BTreeSet<i32> = p.field_ids.iter().copied().collect();
                let gf = [p.with_row_id, p.with_row_addr, p.with_row_last_updated_at_version, p.with_row_created_at_version];
                let ef: Vec<bool> = (0..4)
                    .map(|i| match op {
                        "puni" => f1[i] || f2[i],
                        "psub" => f1[i] && !f2[i],
                        _ => f1[i] && f2[i],
                    })
                    .collect();
                if got != exp || gf.to_vec() != ef {
                    fail("projection_set", format!("{op}: ids {:?} flags {:?} expected {:?} {:?}", got, gf, exp, ef));
                }
                let out = dump_proj(&p);
                self.state.insert(toks[1].into(), Val::P(p, b));
                out
            }
            ("pflag", 4) => {
                let Some((q, b)) = self.proj(toks[2]) else { return bad };
                let p = match toks[3] {
                    "rid" => q.with_row_id(),
                    "raddr" => q.with_row_addr(),
                    "upd" => q.with_row_last_updated_at_version(),
                    "crt" => q.with_row_created_at_version(),
                    _ => return bad,
                };
                let out = dump_proj(&p);
                self.state.insert(toks[1].into(), Val::P(p, b));
                out
            }
            ("pbare", 3) => {
                let Some((q, b)) = self.proj(toks[2]) else { return bad };
                let r = guard!(q.to_bare_schema());
                // oracle: the schema of a projection holds the ancestor closure of its ids (within the base), attributes kept
                if let Some(base) = self.schema(&b) {
                    if oracle_valid(&base) {
                        let ns = nodes_of(&base);
                        let sel: Vec<usize> = (0..ns.len()).filter(|&i| q.field_ids.contains(&ns[i].id)).collect();
                        let exp: Vec<i32> = (0..ns.len())
                            .filter(|&i| sel.iter().any(|&j| is_anc_or_self(&ns, i, j)))
                            .map(|i| ns[i].id)
                            .collect();
                        if r.field_ids() != exp || !sub_of(&r, &base) {
                            fail("projection_schema", format!("to_bare_schema ids {:?} expected {:?}", r.field_ids(), exp));
                        }
                        tags.push("pbare:oracle".into());
                    }
                }
                let out = dump_schema(&r);
                self.state.insert(toks[1].into(), Val::S(r));
                out
            }
            _ => bad,
        }
    }
}

// ---------- generator ----------

const ALPHA: [char; 6] = ['a', '.', '`', ' ', 'é', '\\'];

fn gen_name(r: &mut Rng, adversarial: bool) -> String {
    if !adversarial {
        return (*r.pick(&["a", "b", "c", "d", "x", "y", "item", "é", "a b"])).to_string();
    }
    match r.below(16) {
        0..=5 => (*r.pick(&["a", "b", "c", "x"])).to_string(),
        6 => (*r.pick(&["a.b", "a.b.c", "x.a", ".", "a.", ".a"])).to_string(),
        7 => (*r.pick(&["`a`", "a`b", "`", "``", "`a", "a`", "`a`.b", "`a.b`"])).to_string(),
        8 => (*r.pick(&["_rowid", "_rowaddr", "_row_created_at_version", "*"])).to_string(),
        9 => String::new(),
        _ => {
            let n = r.range(1, 3);
            (0..n).map(|_| *r.pick(&ALPHA)).collect()
        }
    }
}

struct GenCtx {
    next_id: i32,
    adversarial: bool,
    dup_ids: bool,
    dup_names: bool,
}

fn gen_field(r: &mut Rng, g: &mut GenCtx, depth: usize, siblings: &mut Vec<String>, forced_name: Option<&str>, o: &mut Vec<String>) {
    let mut name = match forced_name {
        Some(n) => n.to_string(),
        None => gen_name(r, g.adversarial),
    };
    if !g.dup_names {
        let mut tries = 0;
        while siblings.contains(&name) {
            name = if tries < 4 { gen_name(r, g.adversarial) } else { format!("{name}a") };
            tries += 1;
        }
    }
    siblings.push(name.clone());
    let id = if g.dup_ids && r.chance(1, 5) {
        r.below(4) as i32 - 1
    } else {
        let v = g.next_id;
        g.next_id += 1 + (r.below(4) == 0) as i32;
        v
    };
    let kind = if depth >= 3 {
        2
    } else {
        match r.below(10) {
            0..=2 => 0, // struct
            3 => 1,     // list
            _ => 2,
        }
    };
    let nullable = r.below(2);
    let meta = if r.chance(1, 3) { r.range(1, 3) } else { 0 };
    match kind {
        0 => {
            let n = if r.chance(1, 12) { 0 } else { r.range(1, 3) as usize };
            o.push(format!("{} {} s {} {} {}", enc_str(&name), id, nullable, meta, n));
            let mut sib = vec![];
            for _ in 0..n {
                gen_field(r, g, depth + 1, &mut sib, None, o);
            }
        }
        1 => {
            o.push(format!("{} {} l {} {} 1", enc_str(&name), id, nullable, meta));
            let mut sib = vec![];
            gen_field(r, g, depth + 1, &mut sib, Some("item"), o);
        }
        _ => {
            o.push(format!("{} {} t{} {} {} 0", enc_str(&name), id, r.below(4), nullable, meta));
        }
    }
}

fn gen_schema(r: &mut Rng, reg: &str, adversarial: bool, dup_ids: bool, dup_names: bool) -> (String, Vec<i32>) {
    let mut g = GenCtx { next_id: r.below(3) as i32, adversarial, dup_ids, dup_names };
    let n = r.range(1, 4) as usize;
    let mut o = vec![];
    let mut sib = vec![];
    for _ in 0..n {
        gen_field(r, &mut g, 0, &mut sib, None, &mut o);
    }
    let line = format!("def {reg} {n} {}", o.join(" "));
    // ids present (token 2 of each field group): recover by parsing
    let toks: Vec<&str> = line.split(' ').collect();
    let ids = parse_fields(&toks[2..]).map(|fs| Schema { fields: fs, metadata: HashMap::new() }.field_ids()).unwrap_or_default();
    (line, ids)
}

fn gen_id_subset(r: &mut Rng, ids: &[i32]) -> String {
    let mut v = vec![];
    for &i in ids {
        if r.chance(1, 3) {
            v.push(i);
        }
    }
    if r.chance(1, 6) {
        v.push(r.below(12) as i32 + 20);
    }
    if r.chance(1, 10) && !v.is_empty() {
        let k = v[0];
        v.push(k);
    }
    // unordered on purpose
    if r.chance(1, 2) {
        v.reverse();
    }
    show_ids(v)
}

fn gen_path_string(r: &mut Rng) -> String {
    let n = r.below(5);
    (0..n).map(|_| *r.pick(&ALPHA)).collect()
}

/// the idx-th string over ALPHA in length-lexicographic order
fn nth_path(mut idx: usize) -> String {
    let k = ALPHA.len();
    let mut len = 0usize;
    let mut block = 1usize;
    while idx >= block {
        idx -= block;
        block *= k;
        len += 1;
    }
    let mut cs = vec![];
    for _ in 0..len {
        cs.push(ALPHA[idx % k]);
        idx /= k;
    }
    cs.reverse();
    cs.into_iter().collect()
}

fn real_paths(line: &str) -> Vec<String> {
    // formatted paths of every field of a `def` line, built with an independent formatter
    let toks: Vec<&str> = line.split(' ').collect();
    let Some(fs) = parse_fields(&toks[2..]) else { return vec![] };
    let s = Schema { fields: fs, metadata: HashMap::new() };
    let ns = nodes_of(&s);
    let mut out = vec![];
    for i in 0..ns.len() {
        let mut p = vec![];
        let mut c = Some(i);
        while let Some(k) = c {
            let n = &ns[k].name;
            p.push(if n.contains('.') || n.contains('`') { format!("`{}`", n.replace('`', "``")) } else { n.clone() });
            c = ns[k].parent;
        }
        p.reverse();
        out.push(p.join("."));
    }
    out
}

impl Prop for C43 {
    fn id(&self) -> &'static str {
        "C43"
    }
    fn budget(&self, tier: Tier) -> usize {
        match tier {
            Tier::Quick => 10_000,
            Tier::Thorough => 300_000,
            Tier::Search => 60_000,
        }
    }
    fn rule(&self) -> String {
        "cases 0..299: exhaustive enumeration of all strings of length <= 4 over {a . ` space é \\} through parse / escape / \
         format (6 per op line group); then random register programs: 1-2 base schemas (in a third of the cases the second one is a variant of the first: same names, every id re-assigned to a larger / smaller / permuted value, some sub-trees dropped, a leaf retyped, top level reversed, followed by intersections in both directions) (1-4 top level fields, depth <= 3, structs, \
         lists, four leaf types, nullable/metadata attributes; 60 % with adversarial names: dots, backticks, spaces, non-ASCII, \
         empty, row-id names; 12 % with duplicate ids, 12 % with duplicate sibling names), then 6-14 ops among project_by_ids \
         (random id subsets incl. unknown/duplicate ids, both include_all_children), exclude / intersection / merge between \
         derived sub-schemas, project / project_or_drop by formatted and mangled paths, resolve, field_by_id, field_path, \
         set_field_id, validate, Projection union/subtract/intersect/to_bare_schema; 10 % of op lines are malformed. Non-trivial = \
         at least one derived schema with a proper non-empty id subset or a successful multi-segment/quoted parse."
            .into()
    }
    fn gen_case(&mut self, r: &mut Rng, _tier: Tier, idx: usize) -> Vec<String> {
        let mut l = vec![];
        if idx < 300 {
            // exhaustive: 1 + 6 + 36 + 216 + 1296 = 1555 strings, 6 per case
            for j in 0..6 {
                let n = idx * 6 + j;
                if n >= 1555 {
                    break;
                }
                let p = nth_path(n);
                l.push(format!("parse {}", enc_str(&p)));
                l.push(format!("esc {}", enc_str(&p)));
                // as one segment, and split at the middle as two segments
                l.push(format!("fmt 1 {}", enc_str(&p)));
                let cs: Vec<char> = p.chars().collect();
                let (a, b) = cs.split_at(cs.len() / 2);
                l.push(format!("fmt 2 {} {}", enc_str(&a.iter().collect::<String>()), enc_str(&b.iter().collect::<String>())));
            }
            if l.is_empty() {
                l.push("parse 97".into());
            }
            return l;
        }
        let adversarial = r.chance(3, 5);
        let dup_ids = r.chance(1, 8);
        let dup_names = r.chance(1, 8);
        let (a, ids_a) = gen_schema(r, "A", adversarial, dup_ids, dup_names);
        let paths_a = real_paths(&a);
        l.push(a);
        let mut schemas = vec!["A".to_string()];
        let mut variant = false;
        match r.below(6) {
            0 | 1 => {
                let (b, _) = gen_schema(r, "B", adversarial, dup_ids, dup_names);
                l.push(b);
                schemas.push("B".into());
            }
            2 | 3 => {
                // same names, different assigned ids (larger / smaller / permuted), some fields dropped or retyped
                if let Some(b) = gen_variant(r, &l[0], "B") {
                    l.push(b);
                    schemas.push("B".into());
                    variant = true;
                }
            }
            _ => {}
        }
        if variant {
            l.push(format!("isect X1 A B {}", (r.below(4) == 0) as u8));
            l.push(format!("isect X2 B A {}", (r.below(4) == 0) as u8));
        }
        let mut projs: Vec<String> = vec![];
        let nops = r.range(6, 14);
        let mut fresh = 0;
        for _ in 0..nops {
            if r.chance(1, 10) {
                // malformed
                l.push(
                    (*r.pick(&["pids R A 1,x 0", "def Z 1 97 0 s 1 0 2", "excl R A", "isect R A Q 2", "proj R A 2 97", "frob", "fmt 3 97", "byid A z", "pcol P P 97 q", "def Z 1 97 0 q 1 0 0"]))
                        .to_string(),
                );
                continue;
            }
            fresh += 1;
            let reg = format!("S{fresh}");
            let s1 = r.pick(&schemas).clone();
            let s2 = r.pick(&schemas).clone();
            match r.below(26) {
                0..=4 => {
                    l.push(format!("pids {reg} {s1} {} {}", gen_id_subset(r, &ids_a), r.below(2)));
                    schemas.push(reg);
                }
                5..=7 => {
                    l.push(format!("excl {reg} {s1} {s2}"));
                    schemas.push(reg);
                }
                8..=10 => {
                    l.push(format!("isect {reg} {s1} {s2} {}", (r.below(4) == 0) as u8));
                    schemas.push(reg);
                }
                11..=12 => {
                    l.push(format!("merge {reg} {s1} {s2}"));
                    schemas.push(reg);
                }
                13..=14 => {
                    let k = r.range(1, 3) as usize;
                    let mut cols = vec![];
                    for _ in 0..k {
                        cols.push(if !paths_a.is_empty() && r.chance(4, 5) { r.pick(&paths_a).clone() } else { gen_path_string(r) });
                    }
                    let opn = if r.chance(1, 3) { "projd" } else { "proj" };
                    l.push(format!("{opn} {reg} {s1} {k} {}", cols.iter().map(|c| enc_str(c)).collect::<Vec<_>>().join(" ")));
                    schemas.push(reg);
                }
                15 => {
                    let p = if !paths_a.is_empty() && r.chance(3, 4) { r.pick(&paths_a).clone() } else { gen_path_string(r) };
                    l.push(format!("resolve {s1} {}", enc_str(&p)));
                }
                16 => {
                    let id = if !ids_a.is_empty() && r.chance(4, 5) { *r.pick(&ids_a) } else { r.below(30) as i32 - 1 };
                    l.push(format!("byid {s1} {id}"));
                }
                17..=18 => {
                    let id = if !ids_a.is_empty() && r.chance(5, 6) { *r.pick(&ids_a) } else { r.below(30) as i32 - 1 };
                    l.push(format!("fpath {s1} {id}"));
                }
                19 => {
                    let m = if r.chance(1, 2) { "none".to_string() } else { (r.below(40) as i32 - 2).to_string() };
                    l.push(format!("setid {reg} {s1} {m}"));
                    schemas.push(reg);
                }
                20 => {
                    l.push(format!("{} {s1}", r.pick(&["maxid", "ids", "validate"])));
                }
                _ => {
                    // projection ops
                    let preg = format!("P{fresh}");
                    if projs.is_empty() || r.chance(1, 4) {
                        l.push(format!("{} {preg} A", r.pick(&["pempty", "pfull", "pempty"])));
                        projs.push(preg);
                    } else {
                        let q1 = r.pick(&projs).clone();
                        let q2 = r.pick(&projs).clone();
                        match r.below(9) {
                            0..=2 => {
                                let p = if !paths_a.is_empty() && r.chance(4, 5) {
                                    r.pick(&paths_a).clone()
                                } else if r.chance(1, 2) {
                                    (*r.pick(&ROW_NAMES)).to_string()
                                } else {
                                    gen_path_string(r)
                                };
                                l.push(format!("pcol {preg} {q1} {} {}", enc_str(&p), r.pick(&["e", "i"])));
                                projs.push(preg);
                            }
                            3 => {
                                l.push(format!("{} {preg} {q1} {s1}", r.pick(&["pusch", "pssch"])));
                                projs.push(preg);
                            }
                            4..=5 => {
                                l.push(format!("{} {preg} {q1} {q2}", r.pick(&["puni", "psub", "pint"])));
                                projs.push(preg);
                            }
                            6 => {
                                l.push(format!("pflag {preg} {q1} {}", r.pick(&["rid", "raddr", "upd", "crt"])));
                                projs.push(preg);
                            }
                            _ => {
                                l.push(format!("pbare {reg} {q1}"));
                                schemas.push(reg);
                            }
                        }
                    }
                }
            }
        }
        l
    }
    fn exec_case(&mut self, lines: &[String]) -> CaseResult {
        self.state.clear();
        let mut res = CaseResult::default();
        for (i, l) in lines.iter().enumerate() {
            let op = l.split(' ').next().unwrap_or("").to_string();
            let out = self.run_line(l, i, &mut res.failures, &mut res.tags);
            let cls = if out == "bad-op" {
                "bad".to_string()
            } else if out.starts_with("err:") || out == "panic" || out == "none" {
                out.clone()
            } else {
                "ok".to_string()
            };
            res.tags.push(format!("op:{op}:{cls}"));
            if cls == "ok" && matches!(op.as_str(), "pids" | "excl" | "isect" | "merge" | "proj" | "projd" | "pbare") && out != "[]" {
                res.nontrivial = true;
            }
            if op == "parse" && out.starts_with("ok") && (out.starts_with("ok 2") || out.starts_with("ok 3") || l.contains("96")) {
                res.nontrivial = true;
            }
            res.outputs.push(out);
        }
        res
    }
}

fn main() {
    run_main(C43 { state: HashMap::new() })
}
