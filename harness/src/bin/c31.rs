//! C31: object writes persist exactly the bytes written (rust/lance-io/src/object_writer.rs).
//!
//! The REAL `ObjectWriter` is driven poll by poll (`poll_write` / `poll_flush` / `poll_shutdown`, `abort`, drop)
//! against the parking multipart store of `c31_store.rs`; the case decides when, in which order and with which
//! fault each store call (`put_multipart`, every `put_part`, `complete`, the single `put`) is answered.
//!
//! Line protocol (one output line per op line; the Lean driver `drv_c31` prints the same):
//!   cfg <init> <step> <maxpar> <maxretry> <const>   a fresh store and writer; the first four must equal the process-wide
//!                                                   settings of object_writer.rs (env via props/C31.json harness_env)
//!   w <n>            one `poll_write` offering the next n bytes of the stream (continuing after the bytes accepted so far)
//!   fl | sd          one `poll_flush` / `poll_shutdown` (a ready `sd` is followed by `shutdown().await` to read WriteResult)
//!   rel <id> <f>     the store answers call c | s | f | p<number> with ok | fb | reset | lr
//!   abort | drop     `ObjectWriter::abort().await` / drop the writer
//! Output: `<result> cur=<tell()> calls=<store calls made by this op> dest=<absent | len:ok|bad | extra>[ size=<n>]`
//!
//! Property oracle (independent of the model): see `Session::oracle`.

#[path = "../c31_store.rs"]
mod c31_store;
#[path = "../gatekit.rs"]
mod gatekit;

use std::panic::{catch_unwind, AssertUnwindSafe};
use std::pin::Pin;
use std::sync::atomic::{AtomicBool, Ordering};
use std::sync::Arc;
use std::task::{Context, Poll, Wake, Waker};

use c31_store::{is_stream_at, pattern, Decision, McStore, PATTERN_LEN};
use hcommon::*;
use lance_io::object_store::ObjectStore;
use lance_io::object_writer::ObjectWriter;
use lance_io::traits::Writer;
use object_store::path::Path;
use tokio::io::AsyncWrite;

const STEP: usize = 5 * 1024 * 1024;

fn env_usize(k: &str, d: usize) -> usize {
    std::env::var(k).ok().and_then(|s| s.parse().ok()).unwrap_or(d)
}

#[derive(Clone, Copy, Debug, PartialEq, Eq)]
struct Settings {
    init: usize,
    maxpar: usize,
    maxretry: usize,
}

fn settings() -> Settings {
    Settings {
        init: env_usize("LANCE_INITIAL_UPLOAD_SIZE", STEP),
        maxpar: env_usize("LANCE_UPLOAD_CONCURRENCY", 10),
        maxretry: env_usize("LANCE_CONN_RESET_RETRIES", 20),
    }
}

struct WakeFlag(AtomicBool);
impl Wake for WakeFlag {
    fn wake(self: Arc<Self>) {
        self.0.store(true, Ordering::SeqCst);
    }
}

async fn settle() {
    for _ in 0..8 {
        tokio::task::yield_now().await;
    }
    // retry back-off of put_part (2-8 s of paused, i.e. virtual, time)
    tokio::time::sleep(std::time::Duration::from_secs(10)).await;
    for _ in 0..8 {
        tokio::task::yield_now().await;
    }
}

struct Session {
    store: Option<Arc<McStore>>,
    writer: Option<ObjectWriter>,
    path: Path,
    flag: Arc<WakeFlag>,
    /// bytes accepted so far, as counted here from the poll_write answers
    pos: usize,
    last_cur: usize,
    // --- what the case did (for the oracle) ---
    sd_seen: bool,
    late_write: bool,
    final_applied: bool,
    lr_seen: bool,
    fb_seen: bool,
    resets: usize,
    err_seen: bool,
    panic_seen: bool,
    ended: bool, // abort / drop
    must_stay_absent: bool,
    /// the destination held an object after the previous op
    last_present: bool,
    /// the abort watchdog had to answer a parked call
    watchdog_released: bool,
    success: bool,
    reported: Vec<String>,
}

impl Session {
    fn new() -> Self {
        Self {
            store: None,
            writer: None,
            path: Path::from("dir/obj.bin"),
            flag: Arc::new(WakeFlag(AtomicBool::new(false))),
            pos: 0,
            last_cur: 0,
            sd_seen: false,
            late_write: false,
            final_applied: false,
            lr_seen: false,
            fb_seen: false,
            resets: 0,
            err_seen: false,
            panic_seen: false,
            ended: false,
            must_stay_absent: false,
            last_present: false,
            watchdog_released: false,
            success: false,
            reported: vec![],
        }
    }

    fn live(&self) -> Vec<String> {
        self.store.as_ref().map(|s| s.gate.live()).unwrap_or_default()
    }

    fn fail(&mut self, fails: &mut Vec<OracleFailure>, line: usize, key: &str, what: String) {
        if self.reported.iter().any(|k| k == key) {
            return;
        }
        self.reported.push(key.to_string());
        fails.push(OracleFailure { what, key: Some(key.to_string()), line });
    }

    /// the client kept to the AsyncWrite protocol: no write after shutdown began, nothing after an error / abort
    fn clean_client(&self) -> bool {
        !self.late_write && !self.ended && !self.panic_seen
    }

    async fn exec(&mut self, line: &str, idx: usize, fails: &mut Vec<OracleFailure>) -> String {
        let toks: Vec<&str> = line.split_whitespace().collect();
        if toks.first() == Some(&"cfg") {
            if toks.len() != 6 {
                return "badline".into();
            }
            let nums: Vec<Option<usize>> = toks[1..5].iter().map(|t| t.parse().ok()).collect();
            if nums.iter().any(|n| n.is_none()) {
                return "badline".into();
            }
            let st = settings();
            if nums[0] != Some(st.init) || nums[1] != Some(STEP) || nums[2] != Some(st.maxpar) || nums[3] != Some(st.maxretry) {
                return format!("cfg mismatch: process has {} {} {} {}", st.init, STEP, st.maxpar, st.maxretry);
            }
            let constant = toks[5] == "1";
            // drop a previous writer inside the runtime
            self.writer = None;
            *self = Session::new();
            let store = Arc::new(McStore::new());
            let ls = ObjectStore::new(
                store.clone() as Arc<dyn object_store::ObjectStore>,
                url::Url::parse("memory:///").unwrap(),
                None,
                None,
                constant,
                true,
                8,
                3,
                None,
            );
            self.writer = Some(ObjectWriter::new(&ls, &self.path).await.unwrap());
            self.store = Some(store);
            return "cfg ok".into();
        }
        let Some(store) = self.store.clone() else { return "nocfg".into() };

        #[derive(PartialEq)]
        enum K {
            W(usize),
            Fl,
            Sd,
            Abort,
            Drop,
            Rel(String, Decision),
        }
        let k = match toks.as_slice() {
            ["w", n] => match n.parse::<usize>() {
                Ok(n) => K::W(n),
                Err(_) => return "badline".into(),
            },
            ["fl"] => K::Fl,
            ["sd"] => K::Sd,
            ["abort"] => K::Abort,
            ["drop"] => K::Drop,
            ["rel", c, f] => {
                let okc = *c == "c" || *c == "s" || *c == "f" || (c.starts_with('p') && c[1..].parse::<usize>().is_ok());
                match (okc, Decision::parse(f)) {
                    (true, Some(d)) => K::Rel(c.to_string(), d),
                    _ => return "badline".into(),
                }
            }
            _ => return "badline".into(),
        };
        if !matches!(k, K::Rel(..)) && self.writer.is_none() {
            return "nowriter".into();
        }

        self.flag.0.store(false, Ordering::SeqCst);
        let waker = Waker::from(self.flag.clone());
        let mut cx = Context::from_waker(&waker);
        let mut size_suffix = String::new();
        let mut is_poll = false;
        let res: String = match &k {
            K::W(n) => {
                is_poll = true;
                if self.sd_seen {
                    self.late_write = true;
                }
                if self.pos + n > PATTERN_LEN {
                    return "badline".into();
                }
                let data = &pattern()[self.pos..self.pos + n];
                let w = self.writer.as_mut().unwrap();
                match catch_unwind(AssertUnwindSafe(|| Pin::new(w).poll_write(&mut cx, data))) {
                    Err(_) => "panic".into(),
                    Ok(Poll::Pending) => "pending".into(),
                    Ok(Poll::Ready(Ok(k))) => {
                        self.pos += k;
                        format!("ready {k}")
                    }
                    Ok(Poll::Ready(Err(e))) => show_err(&e),
                }
            }
            K::Fl => {
                is_poll = true;
                let w = self.writer.as_mut().unwrap();
                match catch_unwind(AssertUnwindSafe(|| Pin::new(w).poll_flush(&mut cx))) {
                    Err(_) => "panic".into(),
                    Ok(Poll::Pending) => "pending".into(),
                    Ok(Poll::Ready(Ok(()))) => "ready".into(),
                    Ok(Poll::Ready(Err(e))) => show_err(&e),
                }
            }
            K::Sd => {
                is_poll = true;
                self.sd_seen = true;
                let w = self.writer.as_mut().unwrap();
                match catch_unwind(AssertUnwindSafe(|| Pin::new(w).poll_shutdown(&mut cx))) {
                    Err(_) => "panic".into(),
                    Ok(Poll::Pending) => "pending".into(),
                    Ok(Poll::Ready(Ok(()))) => {
                        // the public wrapper: state is Done, so this returns at once with the WriteResult
                        match self.writer.as_mut().unwrap().shutdown().await {
                            Ok(r) => size_suffix = format!(" size={}", r.size),
                            Err(_) => size_suffix = " size=err".into(),
                        }
                        "ready".into()
                    }
                    Ok(Poll::Ready(Err(e))) => show_err(&e),
                }
            }
            K::Abort => {
                // watchdog: `abort()` must not wait for a store answer that only the case can give.  If it does not
                // return, the parked calls are answered `ok` one by one after a grace period (one settle each) and
                // the output line says so (`aborted waited=<ids>`); `abort-hung` if it still does not return.
                let mut waited: Vec<String> = vec![];
                let mut done = false;
                {
                    let mut fut = Box::pin(self.writer.as_mut().unwrap().abort());
                    for _ in 0..8 {
                        match catch_unwind(AssertUnwindSafe(|| std::future::Future::poll(fut.as_mut(), &mut cx))) {
                            Err(_) => {
                                waited.push("panic".into());
                                done = true;
                                break;
                            }
                            Ok(Poll::Ready(())) => {
                                done = true;
                                break;
                            }
                            Ok(Poll::Pending) => {}
                        }
                        settle().await;
                        if let Ok(Poll::Ready(())) = catch_unwind(AssertUnwindSafe(|| std::future::Future::poll(fut.as_mut(), &mut cx))) {
                            done = true;
                            break;
                        }
                        match store.gate.live().first() {
                            Some(id) => {
                                store.gate.release(store.inner.as_ref(), id, Decision::Ok).await;
                                waited.push(id.clone());
                                self.watchdog_released = true;
                            }
                            None => break,
                        }
                    }
                }
                if !done {
                    "abort-hung".into()
                } else if waited.is_empty() {
                    "aborted".into()
                } else {
                    format!("aborted waited={}", waited.join(","))
                }
            }
            K::Drop => {
                self.writer = None;
                "dropped".into()
            }
            K::Rel(id, d) => {
                match d {
                    Decision::Lr => self.lr_seen = true,
                    Decision::Fb => self.fb_seen = true,
                    Decision::Reset => {
                        if id.starts_with('p') {
                            self.resets += 1
                        } else {
                            self.fb_seen = true
                        }
                    }
                    Decision::Ok => {}
                }
                if store.gate.release(store.inner.as_ref(), id, *d).await {
                    if (id == "s" || id == "f") && matches!(d, Decision::Ok | Decision::Lr) {
                        self.final_applied = true;
                    }
                    "released".into()
                } else {
                    "norel".into()
                }
            }
        };
        settle().await;

        let woken = self.flag.0.load(Ordering::SeqCst);
        let live = store.gate.live();
        let stuck = is_poll && res == "pending" && live.is_empty() && !woken;
        let res = if stuck { "stuck".to_string() } else { res };

        if let Some(w) = self.writer.as_mut() {
            self.last_cur = w.tell().await.unwrap_or(usize::MAX);
        }
        let calls = store.gate.take_new_calls();
        // destination as a reader sees it
        let listing = gatekit::list_all(store.inner.as_ref()).await;
        let body = gatekit::read_all(store.inner.as_ref(), &self.path).await;
        let extra = listing.iter().any(|p| *p != self.path);
        let dest = if extra {
            "extra".to_string()
        } else {
            match &body {
                None => "absent".to_string(),
                Some(b) => format!("{}:{}", b.len(), if is_stream_at(b, 0) { "ok" } else { "bad" }),
            }
        };

        // ---------------- property oracle ----------------
        if res.starts_with("err") {
            self.err_seen = true;
        }
        if res == "panic" {
            self.panic_seen = true;
        }
        // cursor = bytes accepted
        if self.writer.is_some() && self.last_cur != self.pos {
            self.fail(fails, idx, "cursor_mismatch", format!("tell() = {} after {} accepted bytes", self.last_cur, self.pos));
        }
        // nothing at the destination before the completion step of shutdown
        if (body.is_some() || extra) && !self.final_applied && !self.watchdog_released {
            self.fail(fails, idx, "visible_before_shutdown", format!("destination listing {listing:?} before put/complete was answered"));
        }
        if let Some(b) = &body {
            if !is_stream_at(b, 0) {
                self.fail(fails, idx, "content_mismatch", format!("object of {} bytes is not the stream written", b.len()));
            }
        }
        // a successful shutdown: object = everything accepted, size = tell() = total
        if matches!(k, K::Sd) && res == "ready" && !self.ended {
            self.success = true;
            if !self.late_write {
                let ok = body.as_ref().map(|b| b.len() == self.pos && is_stream_at(b, 0)).unwrap_or(false);
                if !ok {
                    self.fail(fails, idx, "shutdown_content", format!("shutdown succeeded after {} accepted bytes, destination is {dest}", self.pos));
                }
                if size_suffix != format!(" size={}", self.pos) {
                    self.fail(fails, idx, "size_mismatch", format!("WriteResult{size_suffix} after {} accepted bytes", self.pos));
                }
            }
        }
        // abort / drop before completion, or a reported failure (fail-stop faults): no object, now or later
        if matches!(k, K::Abort | K::Drop) {
            // judged on the destination as it was BEFORE the abort: nothing published, no publishing answer given
            if !self.last_present && !self.final_applied {
                self.must_stay_absent = true;
            }
            self.ended = true;
        }
        if res == "abort-hung" {
            self.fail(fails, idx, "abort_hangs", "abort() did not return although every parked store call was answered".into());
        }
        if res.starts_with("err") && !self.lr_seen {
            self.must_stay_absent = true;
        }
        if self.must_stay_absent && !self.lr_seen && (body.is_some() || extra) {
            self.fail(fails, idx, "object_after_failure", format!("destination is {dest} after an abort / a reported failure"));
        }
        // part number i carries the bytes after the parts with smaller numbers
        let mut off = 0usize;
        for (i, start, len) in store.gate.part_calls() {
            if let Some(s) = start {
                if s != off {
                    let key = if self.resets > 0 { "retry_renumbers_part" } else { "parts_out_of_order" };
                    self.fail(fails, idx, key, format!("part number {i} carries stream bytes from {s}, the parts before it hold {off} bytes"));
                    break;
                }
            }
            off += len;
        }
        // connection resets within the retry budget must not fail the write
        if res.starts_with("err") && self.resets > 0 && self.resets <= settings().maxretry && !self.fb_seen && !self.lr_seen && self.clean_client() {
            self.fail(fails, idx, "retry_renumbers_part", format!("{} connection reset(s) within the budget of {}, the write failed: {res}", self.resets, settings().maxretry));
        }
        // Pending with nothing in flight and no wake-up arranged
        if stuck && self.clean_client() && !self.err_seen && !self.success {
            let key = if matches!(k, K::W(0)) { "zero_len_write_pending" } else { "lost_wakeup" };
            self.fail(fails, idx, key, format!("`{line}` answered Pending with no store call in flight and no wake-up"));
        }

        self.last_present = body.is_some() || extra;
        format!(
            "{res} cur={} calls={} dest={dest}{size_suffix}",
            self.last_cur,
            if calls.is_empty() { "-".to_string() } else { calls.join(",") }
        )
    }
}

fn show_err(e: &std::io::Error) -> String {
    if e.kind() == std::io::ErrorKind::ConnectionReset {
        "err reset".into()
    } else {
        "err other".into()
    }
}

struct C31 {
    st: Settings,
}

impl C31 {
    fn cfg_line(&self, constant: bool) -> String {
        format!("cfg {} {} {} {} {}", self.st.init, STEP, self.st.maxpar, self.st.maxretry, constant as u8)
    }

    /// chunk sizes around the thresholds
    fn chunk(&self, rng: &mut Rng) -> usize {
        let i = self.st.init;
        match rng.below(14) {
            0 => 1,
            1 => rng.range(1, 4096) as usize,
            2 => i - 1,
            3 => i,
            4 => i + 1,
            5 => i / 2,
            6 => i / 3 * 2,
            7 => 2 * i - 1,
            8 => 2 * i,
            9 => 2 * i + 1,
            10 => STEP,
            11 => rng.range(1, 2 * i as u64) as usize,
            12 => i - rng.range(1, 64) as usize,
            _ => rng.range(1, 1 << 20) as usize,
        }
    }

    fn fixed_plans(&self) -> Vec<Vec<usize>> {
        let i = self.st.init;
        vec![
            vec![],
            vec![1],
            vec![i - 1],
            vec![i],
            vec![i + 1],
            vec![i - 1, 1],
            vec![i - 1, 2],
            vec![i, i],
            vec![2 * i],
            vec![2 * i - 1],
            vec![2 * i + 1],
            vec![i, i, 1],
            vec![3 * i],
            vec![i / 2, i / 2, i / 2, i / 2, i / 2],
            vec![STEP, STEP],
            vec![STEP - 1, 1, STEP],
            vec![3 * i + 1],
            vec![1, i, i - 1, i],
        ]
    }
}

impl Prop for C31 {
    fn id(&self) -> &'static str {
        "C31"
    }
    fn budget(&self, tier: Tier) -> usize {
        match tier {
            Tier::Quick => 220,
            Tier::Thorough => 6000,
            Tier::Search => 2500,
        }
    }

    fn gen_case(&mut self, rng: &mut Rng, _tier: Tier, idx: usize) -> Vec<String> {
        let rt = gatekit::runtime();
        let fixed = self.fixed_plans();
        // scenario: 0 no faults, 1 faults, 2 abort / drop, 3 protocol misuse
        let (scenario, plan, constant) = if idx < fixed.len() {
            (0, fixed[idx].clone(), false)
        } else if idx < 2 * fixed.len() {
            // the same payloads, answers in random order, one connection reset where there is a part
            (4, fixed[idx - fixed.len()].clone(), idx % 2 == 0)
        } else if idx < 2 * fixed.len() + 10 || rng.chance(1, 12) {
            // shutdown started and given up while the final request (put / complete) is outstanding, then abort,
            // then the store answers the final request
            let k = if idx < 2 * fixed.len() + 10 { idx - 2 * fixed.len() } else { rng.usize(fixed.len()) };
            (5, fixed[[1usize, 3, 4, 0, 8, 2, 7, 11, 5, 10][k % 10].min(fixed.len() - 1)].clone(), k % 3 == 0)
        } else {
            let sc = match rng.below(20) {
                0..=5 => 0,
                6..=12 => 1,
                13..=16 => 2,
                _ => 3,
            };
            let n = rng.below(5) as usize;
            let mut plan = vec![];
            let mut tot = 0usize;
            for _ in 0..n {
                let c = self.chunk(rng);
                if tot + c > 4 * self.st.init {
                    break;
                }
                tot += c;
                plan.push(c);
            }
            (sc, plan, rng.chance(1, 4))
        };
        let mut lines: Vec<String> = vec![];
        let mut s = Session::new();
        let mut sink = vec![];
        macro_rules! run {
            ($l:expr) => {{
                let l: String = $l;
                let out = rt.block_on(s.exec(&l, lines.len(), &mut sink));
                lines.push(l);
                out
            }};
        }
        run!(self.cfg_line(constant));
        let mut chunk_i = 0usize;
        let mut remaining = plan.first().copied().unwrap_or(0);
        let mut shutting = plan.is_empty();
        let mut need_release = false;
        let mut finished = false;
        let mut reset_budget = if scenario == 4 { 1 } else { 3 };
        let end_at = if scenario == 2 { rng.below(14) as usize + 1 } else { usize::MAX };
        let fifo = idx < fixed.len() || scenario == 5;
        while lines.len() < 90 {
            if scenario == 2 && lines.len() >= end_at && !s.ended {
                run!(if rng.chance(1, 2) { "abort".to_string() } else { "drop".to_string() });
                continue;
            }
            if s.ended {
                // a few answers that arrive late, and polls after abort
                let live_or_bogus = ["c", "s", "f", "p0", "p1", "p2"];
                for _ in 0..rng.below(4) {
                    let l = match rng.below(4) {
                        0 if s.writer.is_some() => "sd".to_string(),
                        1 if s.writer.is_some() => format!("w {}", rng.range(0, 100)),
                        _ => format!("rel {} ok", rng.pick(&live_or_bogus)),
                    };
                    run!(l);
                }
                break;
            }
            if scenario == 3 && rng.chance(1, 3) {
                let l = match rng.below(9) {
                    0 => "w 0".to_string(),
                    1 => format!("w {}", self.chunk(rng)),
                    2 => "fl".to_string(),
                    3 => "sd".to_string(),
                    4 => format!("rel p{} {}", rng.below(5), rng.pick(&["ok", "fb", "reset", "lr"])),
                    5 => format!("rel {} {}", rng.pick(&["c", "s", "f"]), rng.pick(&["ok", "fb", "reset", "lr"])),
                    6 => "w 1".to_string(),
                    7 if rng.chance(1, 4) => "abort".to_string(),
                    _ => "fl".to_string(),
                };
                if s.pos + self.st.init * 3 > PATTERN_LEN {
                    break;
                }
                run!(l);
                continue;
            }
            let live = s.live();
            let release = !live.is_empty() && (need_release || (!fifo && rng.chance(1, 3)));
            if release {
                let id = if fifo { live[0].clone() } else { rng.pick(&live).clone() };
                let f = match scenario {
                    1 | 3 => {
                        if id.starts_with('p') {
                            match rng.below(10) {
                                0 => "fb",
                                1 | 2 if reset_budget > 0 => {
                                    reset_budget -= 1;
                                    "reset"
                                }
                                _ => "ok",
                            }
                        } else if id == "c" {
                            if rng.chance(1, 8) {
                                "fb"
                            } else {
                                "ok"
                            }
                        } else {
                            match rng.below(10) {
                                0 => "fb",
                                1 => "lr",
                                _ => "ok",
                            }
                        }
                    }
                    4 => {
                        if id.starts_with('p') && reset_budget > 0 && rng.chance(1, 2) {
                            reset_budget -= 1;
                            "reset"
                        } else {
                            "ok"
                        }
                    }
                    _ => "ok",
                };
                run!(format!("rel {id} {f}"));
                need_release = false;
                continue;
            }
            if finished {
                break;
            }
            if need_release && live.is_empty() {
                // Pending with nothing in flight: the writer can make no progress
                break;
            }
            if rng.chance(1, 12) && !fifo {
                run!("fl".to_string());
                continue;
            }
            let out = if !shutting { run!(format!("w {remaining}")) } else { run!("sd".to_string()) };
            let accepted: Option<usize> = out.strip_prefix("ready ").and_then(|k| k.split_whitespace().next().unwrap().parse().ok());
            if let Some(k) = accepted {
                remaining -= k;
                if remaining == 0 {
                    chunk_i += 1;
                    if chunk_i < plan.len() {
                        remaining = plan[chunk_i];
                    } else {
                        shutting = true;
                    }
                }
            } else if out.starts_with("ready") {
                finished = true;
                if rng.chance(1, 6) {
                    run!("sd".to_string());
                }
                if scenario == 3 || rng.chance(1, 10) {
                    run!("abort".to_string());
                }
            } else if out.starts_with("pending") {
                need_release = true;
                if scenario == 5 && shutting {
                    if let Some(id) = s.live().into_iter().find(|id| id == "s" || id == "f") {
                        run!(if rng.chance(4, 5) { "abort".to_string() } else { "drop".to_string() });
                        run!(format!("rel {id} ok"));
                        if s.writer.is_some() {
                            run!("sd".to_string());
                        }
                        break;
                    }
                }
            } else if out.starts_with("stuck") {
                break;
            } else {
                // err / panic: a well behaved client aborts; sometimes keep polling
                if scenario == 3 && rng.chance(1, 2) {
                    continue;
                }
                run!(if rng.chance(3, 4) { "abort".to_string() } else { "drop".to_string() });
            }
        }
        rt.block_on(async {
            s.writer = None;
            settle().await;
        });
        lines
    }

    fn exec_case(&mut self, lines: &[String]) -> CaseResult {
        let rt = gatekit::runtime();
        let mut s = Session::new();
        let mut res = CaseResult::default();
        let mut n_rel = 0usize;
        let mut n_poll = 0usize;
        for (i, l) in lines.iter().enumerate() {
            let out = rt.block_on(s.exec(l, i, &mut res.failures));
            if l.starts_with("rel") && out.starts_with("released") {
                n_rel += 1;
            }
            if l.starts_with('w') || l.starts_with("sd") || l.starts_with("fl") {
                n_poll += 1;
            }
            let head = out.split(" cur=").next().unwrap_or("").split(' ').next().unwrap_or("").to_string();
            res.tags.push(format!("{}:{}", l.split(' ').next().unwrap_or(""), head));
            res.outputs.push(out);
        }
        let parts = s.store.as_ref().map(|st| st.gate.part_calls().len()).unwrap_or(0);
        res.tags.push(format!("parts={}", parts.min(6)));
        res.tags.push(
            if s.success {
                "outcome:success"
            } else if s.ended {
                "outcome:aborted"
            } else if s.err_seen {
                "outcome:error"
            } else {
                "outcome:open"
            }
            .to_string(),
        );
        if s.resets > 0 {
            res.tags.push("fault:reset".into());
        }
        if s.fb_seen {
            res.tags.push("fault:fb".into());
        }
        if s.lr_seen {
            res.tags.push("fault:lr".into());
        }
        if s.late_write {
            res.tags.push("misuse:late_write".into());
        }
        res.nontrivial = n_poll >= 2 && (n_rel >= 1 || s.pos > 0);
        rt.block_on(async {
            s.writer = None;
            settle().await;
        });
        res
    }

    fn rule(&self) -> String {
        "online generator: a client writes a plan of chunks (sizes around the part size: 1, init-1, init, init+1, 2*init±1, 5 MiB, random) with poll_write, \
         then polls shutdown; between polls the parked store calls (put_multipart, put_part by number, complete, put) are answered in FIFO (first 18 fixed payloads) or random order, \
         with faults per scenario (none / fb, connection reset, lost response / abort or drop at a random point / shutdown given up while put or complete is outstanding, then abort, then the store answers / protocol misuse: writes after shutdown, polls after errors, bogus ids, zero-length writes); \
         non-trivial = at least two polls and either accepted bytes or an answered store call"
            .into()
    }
}

fn main() {
    // panics of a poisoned writer are caught and reported as outputs
    std::panic::set_hook(Box::new(|_| {}));
    let st = settings();
    run_main(C31 { st })
}
