//! C17: change data feed and version columns are correct.
//!
//! Interpreter of the C17 op lines against the REAL lance code on tables with stable row ids (`Dataset::write`,
//! `Dataset::delete`, `UpdateBuilder`, `MergeInsertBuilder` with a full or a partial source schema, `compact_files`,
//! `Scanner` projecting `_rowid`, `_row_created_at_version`, `_row_last_updated_at_version`, `Dataset::delta()`), a seeded
//! generator of multi-fragment histories and the property oracle.  Every step runs through a fresh `Session` (row-id
//! sequences are cached by fragment id — C38 — and an overwrite re-uses fragment id 0).
//!
//! Op lines (cells / rows: canonical forms of `../tablekit.rs`; a table has `K` ∈ {2,3} Int64 columns, `c0` is the key):
//!
//! ```text
//! create    f=<nat> k=<K> <rows>       WriteMode::Create, enable_stable_row_ids, max_rows_per_file = f
//! append    f=<nat> <rows>             WriteMode::Append through the latest handle
//! overwrite f=<nat> <rows>             WriteMode::Overwrite (same K)
//! delete    <pred>                     Dataset::delete            pred ::= lt <int> | ge <int> | in <int,…> | all   (on c0)
//! update    <pred> <int>               UpdateBuilder: set c1 = <int> where pred                   (Update / RewriteRows)
//! upsert    <rows>                     MergeInsertBuilder on c0, UpdateAll / InsertAll; rows of width K (Update /
//!                                      RewriteRows: matched rows in SOURCE order, then the new rows) or of width 2 on a
//!                                      K = 3 table (partial schema: Update / RewriteColumns); keys must be non-NULL and distinct
//! compact   t=<nat> m=<0|1>            compact_files, target_rows_per_fragment = t, materialize_deletions = m (threshold 0);
//!                                      publishes no version (empty plan) or two (fragment-id reservation + rewrite)
//! deltas                               for every b < e <= latest: checkout e, delta(b, e) inserted / updated row-id sets
//! open      a|b                        keep a handle at the current latest version under that name (`ok open v=<version>`)
//! @a|@b append f=<nat> <rows>          WriteMode::Append through that (possibly stale) handle: the transaction has the handle's
//!                                      read version and is rebased onto the latest version (`err no_handle`; an Overwrite
//!                                      committed after the handle's version makes it `err conflict_incompatible`)
//! ```
//!
//! Output of a mutating op:
//! `ok v=<version> nrid=<next_row_id> mfid=<max_fragment_id|none> meta=<per fragment: id[rid.created.updated[x] …]>
//!  scan=<ordered scan: cells…,_rowid,_row_created_at_version,_row_last_updated_at_version>` or `err <kind>`;
//! of `deltas`: `ok <b>-<e>:i=<ids>:u=<ids> …` (`ok -` when there is no pair).  `err parse`, `err no_table`, `err width`,
//! `err keys`, `err ambiguous`, `err multi_insert` (two or more new keys in one upsert: the join's emission order of unmatched rows
//! is hash-dependent) are decided by the interpreter alone, identically on both sides.
//!
//! Oracle (independent of the Lean model): after every step, (1) the harness's own flat replay of the history (append =
//! add rows with fresh ids, delete = remove, update / upsert = change cells and keep the id, compaction = nothing) gives
//! the scan's id → cells map; fresh ids were never seen before; (2) every visible row's `_row_created_at_version` is the
//! first version in which its id was visible and (3) its `_row_last_updated_at_version` the last version in which an
//! update / upsert touched it (its creation version if none did); (4) the manifest's per-fragment sequences agree with the
//! scan; (5) for all version pairs the delta streams are exactly the ids inserted / updated-but-not-inserted in the range.
//! A wrong created-at value that is exactly what "the stable row id read as an address" produces (known finding
//! `created_at_rowid_as_address`) is tagged with that key; any other wrong value is unclassified.

use std::collections::{BTreeMap, BTreeSet};
use std::sync::Arc;

use arrow_array::RecordBatchIterator;
use futures::TryStreamExt;
use hcommon::*;
use lance::dataset::optimize::{compact_files, CompactionOptions};
use lance::dataset::{MergeInsertBuilder, UpdateBuilder, WhenMatched, WhenNotMatched};
use lance::session::Session;
use lance::Dataset;
use lance_table::format::RowIdMeta;

#[path = "../tablekit.rs"]
#[allow(dead_code)]
mod tablekit;
use tablekit::*;

const KEY_KNOWN: &str = "created_at_rowid_as_address";
const KEY_KNOWN_DELTA: &str = "delta_created_at_rowid_as_address";

struct C17 {
    kit: Kit,
}

#[derive(Clone, Debug)]
enum Pred {
    Lt(i64),
    Ge(i64),
    In(Vec<i64>),
    All,
}

impl Pred {
    fn sql(&self) -> String {
        match self {
            Pred::Lt(x) => format!("c0 < {x}"),
            Pred::Ge(x) => format!("c0 >= {x}"),
            Pred::In(xs) => format!("c0 IN ({})", xs.iter().map(|x| x.to_string()).collect::<Vec<_>>().join(", ")),
            Pred::All => "true".into(),
        }
    }
    fn show(&self) -> String {
        match self {
            Pred::Lt(x) => format!("lt {x}"),
            Pred::Ge(x) => format!("ge {x}"),
            Pred::In(xs) => format!("in {}", xs.iter().map(|x| x.to_string()).collect::<Vec<_>>().join(",")),
            Pred::All => "all".into(),
        }
    }
    fn matches(&self, c0: Cell) -> bool {
        match (self, c0) {
            (Pred::All, _) => true,
            (_, None) => false,
            (Pred::Lt(x), Some(v)) => v < *x,
            (Pred::Ge(x), Some(v)) => v >= *x,
            (Pred::In(xs), Some(v)) => xs.contains(&v),
        }
    }
}

#[derive(Clone, Debug)]
enum Op {
    Create { f: usize, k: usize, rows: Vec<Row> },
    Append { f: usize, rows: Vec<Row> },
    Overwrite { f: usize, rows: Vec<Row> },
    Delete(Pred),
    Update(Pred, i64),
    Upsert(Vec<Row>),
    Compact { t: usize, m: bool },
    Deltas,
    /// remember a handle at the current latest version under a name (`a` / `b`)
    Open(String),
    /// append through a remembered (possibly stale) handle: lance rebases the transaction onto the latest version
    AppendVia { name: String, f: usize, rows: Vec<Row> },
}

fn show_op(op: &Op) -> String {
    match op {
        Op::Create { f, k, rows } => format!("create f={f} k={k} {}", show_rows(rows)),
        Op::Append { f, rows } => format!("append f={f} {}", show_rows(rows)),
        Op::Overwrite { f, rows } => format!("overwrite f={f} {}", show_rows(rows)),
        Op::Delete(p) => format!("delete {}", p.show()),
        Op::Update(p, y) => format!("update {} {y}", p.show()),
        Op::Upsert(rows) => format!("upsert {}", show_rows(rows)),
        Op::Compact { t, m } => format!("compact t={t} m={}", *m as u8),
        Op::Deltas => "deltas".into(),
        Op::Open(n) => format!("open {n}"),
        Op::AppendVia { name, f, rows } => format!("@{name} append f={f} {}", show_rows(rows)),
    }
}

fn op_name(op: &Op) -> &'static str {
    match op {
        Op::Create { .. } => "create",
        Op::Append { .. } => "append",
        Op::Overwrite { .. } => "overwrite",
        Op::Delete(_) => "delete",
        Op::Update(..) => "update",
        Op::Upsert(_) => "upsert",
        Op::Compact { .. } => "compact",
        Op::Deltas => "deltas",
        Op::Open(_) => "open",
        Op::AppendVia { .. } => "append_via",
    }
}

fn parse_nat(s: &str) -> Option<u64> {
    if s.is_empty() || s.len() > 9 || !s.bytes().all(|b| b.is_ascii_digit()) {
        return None;
    }
    s.parse().ok()
}

fn parse_int(s: &str) -> Option<i64> {
    parse_cell(s)?
}

/// rows of one common width (>= 1 row: the width is taken from the first row)
fn rows_same_width(s: &str) -> Option<Vec<Row>> {
    let rows = parse_rows(s)?;
    if let Some(first) = rows.first() {
        if !rows.iter().all(|r| r.len() == first.len()) {
            return None;
        }
    }
    Some(rows)
}

fn parse_pred(t: &[&str]) -> Option<Pred> {
    match t {
        ["all"] => Some(Pred::All),
        ["lt", x] => Some(Pred::Lt(parse_int(x)?)),
        ["ge", x] => Some(Pred::Ge(parse_int(x)?)),
        ["in", xs] => {
            let v: Option<Vec<i64>> = xs.split(',').map(parse_int).collect();
            Some(Pred::In(v?))
        }
        _ => None,
    }
}

fn parse_op(line: &str) -> Option<Op> {
    let t: Vec<&str> = line.split(' ').filter(|s| !s.is_empty()).collect();
    match t.as_slice() {
        ["create", f, k, rows] => {
            let f = parse_nat(f.strip_prefix("f=")?)? as usize;
            let k = parse_nat(k.strip_prefix("k=")?)? as usize;
            if !(2..=3).contains(&k) {
                return None;
            }
            let rows = rows_same_width(rows)?;
            if !rows.iter().all(|r| r.len() == k) {
                return None;
            }
            Some(Op::Create { f, k, rows })
        }
        ["append", f, rows] => Some(Op::Append { f: parse_nat(f.strip_prefix("f=")?)? as usize, rows: rows_same_width(rows)? }),
        ["overwrite", f, rows] => {
            Some(Op::Overwrite { f: parse_nat(f.strip_prefix("f=")?)? as usize, rows: rows_same_width(rows)? })
        }
        ["delete", rest @ ..] => Some(Op::Delete(parse_pred(rest)?)),
        ["update", rest @ .., y] if !rest.is_empty() => Some(Op::Update(parse_pred(rest)?, parse_int(y)?)),
        ["upsert", rows] => {
            let rows = rows_same_width(rows)?;
            if rows.is_empty() {
                return None;
            }
            Some(Op::Upsert(rows))
        }
        ["compact", t, m] => {
            let t = parse_nat(t.strip_prefix("t=")?)? as usize;
            let m = match m.strip_prefix("m=")? {
                "0" => false,
                "1" => true,
                _ => return None,
            };
            Some(Op::Compact { t, m })
        }
        ["deltas"] => Some(Op::Deltas),
        ["open", n] if *n == "a" || *n == "b" => Some(Op::Open(n.to_string())),
        [tag, "append", f, rows] if *tag == "@a" || *tag == "@b" => Some(Op::AppendVia {
            name: tag[1..].to_string(),
            f: parse_nat(f.strip_prefix("f=")?)? as usize,
            rows: rows_same_width(rows)?,
        }),
        _ => None,
    }
}

/// one physical row of a fragment as the manifest describes it
#[derive(Clone, Debug, PartialEq)]
struct PhysRow {
    rid: u64,
    created: u64,
    updated: u64,
    deleted: bool,
}

#[derive(Clone, Debug, PartialEq)]
struct FragDump {
    id: u64,
    rows: Vec<PhysRow>,
}

/// one visible row: cells, `_rowid`, `_row_created_at_version`, `_row_last_updated_at_version`
#[derive(Clone, Debug, PartialEq)]
struct Vis {
    cells: Row,
    rid: u64,
    created: u64,
    updated: u64,
}

#[derive(Clone, Debug)]
struct Obs {
    version: u64,
    k: usize,
    nrid: u64,
    mfid: Option<u32>,
    frags: Vec<FragDump>,
    scan: Vec<Vis>,
}

fn fmt_obs(o: &Obs) -> String {
    let meta = if o.frags.is_empty() {
        "-".to_string()
    } else {
        o.frags
            .iter()
            .map(|f| {
                let rows: Vec<String> = f
                    .rows
                    .iter()
                    .map(|r| format!("{}.{}.{}{}", r.rid, r.created, r.updated, if r.deleted { "x" } else { "" }))
                    .collect();
                format!("{}[{}]", f.id, rows.join(","))
            })
            .collect::<Vec<_>>()
            .join("")
    };
    let scan: Vec<Row> = o
        .scan
        .iter()
        .map(|v| {
            let mut r = v.cells.clone();
            r.push(Some(v.rid as i64));
            r.push(Some(v.created as i64));
            r.push(Some(v.updated as i64));
            r
        })
        .collect();
    format!(
        "ok v={} nrid={} mfid={} meta={} scan={}",
        o.version,
        o.nrid,
        o.mfid.map(|m| m.to_string()).unwrap_or_else(|| "none".into()),
        meta,
        show_rows(&scan)
    )
}

const META: [&str; 3] = ["_rowid", "_row_created_at_version", "_row_last_updated_at_version"];

impl C17 {
    fn fresh_session(&mut self) {
        let reg = self.kit.session.store_registry();
        self.kit.session = Arc::new(Session::new(64 << 20, 64 << 20, reg));
    }

    /// ordered scan with the three meta columns
    fn scan_meta(&self, ds: &Dataset, k: usize) -> Result<Vec<Vis>, KitError> {
        let spec = SchemaSpec::ints(k);
        let mut cols: Vec<String> = spec.column_names();
        cols.extend(META.iter().map(|s| s.to_string()));
        let mut sc = ds.scan();
        sc.scan_in_order(true);
        sc.project(&cols)?;
        let batch = self.kit.block_on(sc.try_into_batch())?;
        let rows = spec.decode(&batch, &META).map_err(|e| KitError::other(format!("decode: {}", e.0)))?;
        rows.into_iter()
            .map(|r| {
                let m = |i: usize| r[k + i].map(|x| x as u64).ok_or_else(|| KitError::other("decode: NULL meta column"));
                Ok(Vis { cells: r[..k].to_vec(), rid: m(0)?, created: m(1)?, updated: m(2)? })
            })
            .collect()
    }

    fn dump(&self, ds: &Dataset) -> Result<Vec<FragDump>, KitError> {
        let mut out = vec![];
        for f in ds.get_fragments() {
            let m = f.metadata().clone();
            let phys = m.physical_rows.unwrap_or(0);
            let rids: Vec<u64> = match &m.row_id_meta {
                Some(RowIdMeta::Inline(data)) => lance_table::rowids::read_row_ids(data).map_err(KitError::from)?.iter().collect(),
                Some(RowIdMeta::External(_)) => return Err(KitError::other("external row id sequence")),
                None => return Err(KitError::other("fragment without row id sequence")),
            };
            let seq = |meta: &Option<lance_table::format::RowDatasetVersionMeta>| -> Result<Option<Vec<u64>>, KitError> {
                match meta {
                    None => Ok(None),
                    Some(mm) => Ok(Some(mm.load_sequence().map_err(KitError::from)?.versions().collect())),
                }
            };
            // a fragment without a sequence reads as version 1 (fragment.rs: "will default to version 1")
            let created = seq(&m.created_at_version_meta)?.unwrap_or_else(|| vec![1; phys]);
            let updated = seq(&m.last_updated_at_version_meta)?.unwrap_or_else(|| vec![1; phys]);
            if rids.len() != phys || created.len() != phys || updated.len() != phys {
                return Err(KitError::other(format!(
                    "fragment {}: physical_rows={phys} but {} row ids, {} created-at, {} last-updated-at entries",
                    m.id,
                    rids.len(),
                    created.len(),
                    updated.len()
                )));
            }
            let dv = self.kit.block_on(f.get_deletion_vector()).map_err(KitError::from)?;
            let rows = (0..phys)
                .map(|i| PhysRow {
                    rid: rids[i],
                    created: created[i],
                    updated: updated[i],
                    deleted: dv.as_ref().map(|d| d.contains(i as u32)).unwrap_or(false),
                })
                .collect();
            out.push(FragDump { id: m.id, rows });
        }
        Ok(out)
    }

    fn observe(&self, ds: &Dataset) -> Result<Obs, KitError> {
        let spec = Kit::spec_of(ds).ok_or_else(|| KitError::other("not a kit schema"))?;
        let k = spec.ints;
        let scan = self.scan_meta(ds, k)?;
        let frags = self.dump(ds)?;
        let m = ds.manifest();
        Ok(Obs { version: m.version, k, nrid: m.next_row_id, mfid: m.max_fragment_id, frags, scan })
    }

    /// row ids of a delta stream
    fn delta_ids(&self, ds: &Dataset, b: u64, e: u64, inserted: bool) -> Result<Vec<u64>, KitError> {
        let delta = ds.delta().with_begin_version(b).with_end_version(e).build().map_err(KitError::from)?;
        let batches: Vec<arrow_array::RecordBatch> = self.kit.block_on(async {
            let s = if inserted { delta.get_inserted_rows().await? } else { delta.get_updated_rows().await? };
            s.try_collect::<Vec<_>>().await
        })?;
        let mut ids = vec![];
        for bt in &batches {
            let a = bt.column_by_name("_rowid").ok_or_else(|| KitError::other("delta stream without _rowid"))?;
            let a = a
                .as_any()
                .downcast_ref::<arrow_array::UInt64Array>()
                .ok_or_else(|| KitError::other("delta _rowid is not UInt64"))?;
            ids.extend(a.values().iter().copied());
        }
        ids.sort();
        Ok(ids)
    }

    // ------------------------------------------------------------------------------------------ generator

    fn gen_f(rng: &mut Rng) -> usize {
        match rng.below(10) {
            0..=5 => 1 + rng.usize(3),
            6..=7 => 4 + rng.usize(3),
            _ => 1000,
        }
    }

    fn gen_pred(rng: &mut Rng, keys: &[i64]) -> Pred {
        let pick = |rng: &mut Rng| -> i64 {
            if !keys.is_empty() && rng.chance(5, 6) {
                *rng.pick(keys)
            } else {
                rng.below(40) as i64
            }
        };
        match rng.below(10) {
            0 => Pred::All,
            1..=2 => Pred::Lt(pick(rng)),
            3..=4 => Pred::Ge(pick(rng)),
            _ => {
                let n = 1 + rng.usize(3);
                Pred::In((0..n).map(|_| pick(rng)).collect())
            }
        }
    }
}

/// generator-side picture of the table: the live keys (assumes ops succeed)
struct GenTable {
    k: usize,
    keys: Vec<i64>,
    next_key: i64,
}

impl GenTable {
    fn fresh_rows(&mut self, rng: &mut Rng, n: usize, dup: bool) -> Vec<Row> {
        (0..n)
            .map(|_| {
                let key = if dup && !self.keys.is_empty() && rng.chance(1, 5) {
                    *rng.pick(&self.keys)
                } else {
                    self.next_key += 1;
                    self.next_key
                };
                self.keys.push(key);
                let c0 = if rng.chance(1, 25) { None } else { Some(key) };
                let mut r = vec![c0];
                for _ in 1..self.k {
                    r.push(if rng.chance(1, 12) { None } else { Some(rng.below(50) as i64) });
                }
                r
            })
            .collect()
    }
    fn n_rows(rng: &mut Rng) -> usize {
        match rng.below(10) {
            0 => 0,
            1..=5 => 1 + rng.usize(3),
            6..=8 => 3 + rng.usize(4),
            _ => 6 + rng.usize(5),
        }
    }
}

impl Prop for C17 {
    fn id(&self) -> &'static str {
        "C17"
    }

    fn budget(&self, tier: Tier) -> usize {
        match tier {
            Tier::Quick => 320,
            Tier::Thorough => 6000,
            Tier::Search => 2500,
        }
    }

    fn gen_case(&mut self, rng: &mut Rng, _tier: Tier, idx: usize) -> Vec<String> {
        let malformed = rng.chance(3, 20);
        let k = if idx % 3 == 2 { 3 } else { 2 };
        let len = 3 + rng.usize(7); // 3..=9 ops
        let mut t = GenTable { k, keys: vec![], next_key: rng.below(5) as i64 };
        let mut ops: Vec<Op> = vec![];
        if malformed && rng.chance(1, 4) {
            ops.push(Op::Delete(Pred::All));
        }
        let n0 = 1 + GenTable::n_rows(rng);
        ops.push(Op::Create { f: Self::gen_f(rng), k, rows: t.fresh_rows(rng, n0, false) });
        // two thirds of the cases keep a handle from early on and append through it later (rebased commits)
        let stale = idx % 3 != 1;
        let mut opened = false;
        while ops.len() < len {
            if stale && !opened && (ops.len() >= 2 || rng.chance(1, 2)) {
                ops.push(Op::Open("a".into()));
                opened = true;
                if rng.chance(1, 4) {
                    ops.push(Op::Open("b".into()));
                }
                continue;
            }
            if opened && rng.chance(1, 4) {
                let n = 1 + rng.usize(3);
                let rows = t.fresh_rows(rng, n, false);
                let name = if rng.chance(1, 6) { "b" } else { "a" };
                ops.push(Op::AppendVia { name: name.into(), f: Self::gen_f(rng), rows });
                if rng.chance(1, 8) {
                    ops.push(Op::Open("a".into()));
                }
                continue;
            }
            let op = match rng.below(100) {
                0..=21 => {
                    let n = GenTable::n_rows(rng);
                    let rows = t.fresh_rows(rng, n, malformed);
                    Op::Append { f: Self::gen_f(rng), rows }
                }
                22..=39 => {
                    let p = Self::gen_pred(rng, &t.keys);
                    Op::Update(p, rng.below(90) as i64 + 100)
                }
                40..=59 => {
                    // upsert: some existing keys, some new ones; full or (K = 3) partial schema
                    let w = if k == 3 && rng.chance(1, 2) { 2 } else { k };
                    let n = 1 + rng.usize(4);
                    let mut keys: Vec<i64> = vec![];
                    let mut fresh_used = false;
                    for _ in 0..n {
                        let key = if !t.keys.is_empty() && (rng.chance(3, 5) || (fresh_used && !malformed)) {
                            *rng.pick(&t.keys)
                        } else {
                            fresh_used = true;
                            t.next_key += 1;
                            t.next_key
                        };
                        if !keys.contains(&key) || (malformed && rng.chance(1, 3)) {
                            keys.push(key);
                        }
                    }
                    for key in &keys {
                        if !t.keys.contains(key) {
                            t.keys.push(*key);
                        }
                    }
                    let rows = keys
                        .iter()
                        .map(|key| {
                            let mut r = vec![Some(*key)];
                            for _ in 1..w {
                                r.push(Some(rng.below(90) as i64 + 200));
                            }
                            r
                        })
                        .collect();
                    Op::Upsert(rows)
                }
                60..=71 => {
                    let p = Self::gen_pred(rng, &t.keys);
                    if matches!(p, Pred::All) && rng.chance(2, 3) {
                        Op::Delete(Pred::Ge(t.next_key / 2))
                    } else {
                        Op::Delete(p)
                    }
                }
                72..=87 => Op::Compact { t: *rng.pick(&[2usize, 3, 4, 5, 8, 1000]), m: rng.chance(3, 4) },
                88..=91 => {
                    t.keys.clear();
                    let n = 1 + GenTable::n_rows(rng);
                    let rows = t.fresh_rows(rng, n, false);
                    Op::Overwrite { f: Self::gen_f(rng), rows }
                }
                92..=95 => Op::Deltas,
                _ if malformed => match rng.below(4) {
                    0 => Op::Append { f: 0, rows: t.fresh_rows(rng, 2, false) },
                    1 => Op::Compact { t: 0, m: true },
                    2 => {
                        t.k = 5 - t.k;
                        let r = t.fresh_rows(rng, 2, false);
                        t.k = k;
                        Op::Append { f: 3, rows: r }
                    }
                    _ => Op::Create { f: 2, k, rows: t.fresh_rows(rng, 1, false) },
                },
                _ => {
                    let n = 1 + rng.usize(3);
                    Op::Append { f: Self::gen_f(rng), rows: t.fresh_rows(rng, n, false) }
                }
            };
            ops.push(op);
        }
        ops.push(Op::Deltas);
        let mut lines: Vec<String> = ops.iter().map(show_op).collect();
        if malformed && rng.chance(1, 3) {
            let i = rng.usize(lines.len());
            lines[i] = match rng.below(4) {
                0 => lines[i].replacen("f=", "f=x", 1),
                1 => format!("{} 7", lines[i]),
                2 => lines[i].replacen(' ', " - ", 1),
                _ => "vacuum".into(),
            };
        }
        lines
    }

    fn exec_case(&mut self, lines: &[String]) -> CaseResult {
        self.kit.reset_session();
        let uri = self.kit.fresh_uri();
        let mut res = CaseResult::default();
        let debug = std::env::var("C17_DEBUG").is_ok();
        let mut have = false;
        // a handle kept open for the whole case: the in-memory object store lives only while some handle does
        let mut anchor: Option<Dataset> = None;
        // handles remembered by `open`, each with its own session; they are never advanced
        let mut handles: BTreeMap<String, Dataset> = BTreeMap::new();
        // ---- oracle state
        // what the harness believes the table holds: rid -> (cells, truth created, truth updated)
        let mut truth: BTreeMap<u64, (Row, u64, u64)> = BTreeMap::new();
        // per version: rid -> (truth created, truth updated as of that version, observed created, observed updated)
        let mut at_version: BTreeMap<u64, BTreeMap<u64, (u64, u64, u64, u64)>> = BTreeMap::new();
        let mut ever_seen: BTreeSet<u64> = BTreeSet::new();
        // rid -> created-at value the known defect explains (truth where the defect does not apply)
        let mut explained: BTreeMap<u64, u64> = BTreeMap::new();
        let mut prev: Option<Obs> = None;
        let mut n_update_arm = 0usize;
        let mut n_compactions = 0usize;
        let mut max_frags = 0usize;
        let mut wrong_created = 0usize;

        for (ln, line) in lines.iter().enumerate() {
            let Some(op) = parse_op(line) else {
                res.outputs.push("err parse".into());
                res.tags.push("err:parse".into());
                continue;
            };
            let opname = op_name(&op);
            res.tags.push(format!("op:{opname}"));
            self.fresh_session();
            if !have && !matches!(op, Op::Create { .. }) {
                res.outputs.push("err no_table".into());
                res.tags.push("err:no_table".into());
                continue;
            }
            let cur: Option<Dataset> = if have {
                match self.kit.open(&uri, None) {
                    Ok(d) => Some(d),
                    Err(e) => {
                        res.failures.push(OracleFailure {
                            what: format!("re-opening the table failed: {}", e.msg),
                            key: Some("reopen_error".into()),
                            line: ln,
                        });
                        res.outputs.push("err reopen".into());
                        continue;
                    }
                }
            } else {
                None
            };
            let k = prev.as_ref().map(|p| p.k).unwrap_or(2);
            // ---- interpreter-level rejections
            let reject: Option<&'static str> = match &op {
                Op::AppendVia { name, .. } if !handles.contains_key(name) => Some("no_handle"),
                Op::Append { rows, .. } | Op::Overwrite { rows, .. } | Op::AppendVia { rows, .. } if rows.iter().any(|r| r.len() != k) => {
                    Some("width")
                }
                Op::Upsert(rows) => {
                    let w = rows[0].len();
                    let keys: Vec<Cell> = rows.iter().map(|r| r[0]).collect();
                    let distinct = keys.iter().collect::<BTreeSet<_>>().len() == keys.len();
                    if !(w == k || (w == 2 && k == 3)) {
                        Some("width")
                    } else if keys.iter().any(|c| c.is_none()) || !distinct {
                        Some("keys")
                    } else if keys.iter().any(|c| truth.values().filter(|t| t.0[0] == *c).count() > 1) {
                        Some("ambiguous")
                    } else if keys.iter().filter(|c| !truth.values().any(|t| t.0[0] == **c)).count() > 1 {
                        // the order in which the join emits two or more unmatched source rows (and with it which fresh
                        // row id each gets) is hash-dependent: not part of the tie
                        Some("multi_insert")
                    } else {
                        None
                    }
                }
                _ => None,
            };
            if let Some(kind) = reject {
                res.outputs.push(format!("err {kind}"));
                res.tags.push(format!("err:{kind}"));
                continue;
            }
            // ---- open: remember a handle at the latest version
            if let Op::Open(name) = &op {
                let d = cur.clone().unwrap();
                res.outputs.push(format!("ok open v={}", d.version().version));
                handles.insert(name.clone(), d);
                continue;
            }
            // ---- deltas
            if matches!(op, Op::Deltas) {
                let latest = prev.as_ref().map(|p| p.version).unwrap_or(0);
                let mut parts: Vec<String> = vec![];
                for e in 1..=latest {
                    self.fresh_session();
                    let at = match self.kit.open(&uri, Some(e)) {
                        Ok(d) => d,
                        Err(err) => {
                            res.failures.push(OracleFailure {
                                what: format!("version {e} cannot be opened: {}", err.msg),
                                key: Some("old_version_unreadable".into()),
                                line: ln,
                            });
                            continue;
                        }
                    };
                    for b in 0..e {
                        let ins = self.delta_ids(&at, b, e, true);
                        let upd = self.delta_ids(&at, b, e, false);
                        let (ins, upd) = match (ins, upd) {
                            (Ok(i), Ok(u)) => (i, u),
                            (Err(err), _) | (_, Err(err)) => {
                                res.failures.push(OracleFailure {
                                    what: format!("delta({b},{e}) failed: {}", err.msg),
                                    key: Some("delta_error".into()),
                                    line: ln,
                                });
                                parts.push(format!("{b}-{e}:err"));
                                continue;
                            }
                        };
                        parts.push(format!(
                            "{b}-{e}:i={}:u={}",
                            show_nat_list(ins.iter().copied()),
                            show_nat_list(upd.iter().copied())
                        ));
                        // (5) the property on the delta streams
                        if let Some(rows) = at_version.get(&e) {
                            let want_ins: Vec<u64> =
                                rows.iter().filter(|(_, t)| t.0 > b && t.0 <= e).map(|(r, _)| *r).collect();
                            let want_upd: Vec<u64> =
                                rows.iter().filter(|(_, t)| t.0 <= b && t.1 > b && t.1 <= e).map(|(r, _)| *r).collect();
                            if want_ins != ins || want_upd != upd {
                                // rows on which the two sides differ
                                let mut diff: BTreeSet<u64> = BTreeSet::new();
                                for (a, w) in [(&ins, &want_ins), (&upd, &want_upd)] {
                                    for r in a.iter().filter(|r| !w.contains(r)) {
                                        diff.insert(*r);
                                    }
                                    for r in w.iter().filter(|r| !a.contains(r)) {
                                        diff.insert(*r);
                                    }
                                }
                                // known iff every differing row carries a created-at value the known defect explains and
                                // the streams are exactly the filters over the observed columns
                                let obs_ins: Vec<u64> =
                                    rows.iter().filter(|(_, t)| t.2 > b && t.2 <= e).map(|(r, _)| *r).collect();
                                let obs_upd: Vec<u64> =
                                    rows.iter().filter(|(_, t)| t.2 <= b && t.3 > b && t.3 <= e).map(|(r, _)| *r).collect();
                                let explained_rows =
                                    diff.iter().all(|r| rows.get(r).map(|t| t.2 != t.0 && t.3 == t.1).unwrap_or(false));
                                let key = if explained_rows && obs_ins == ins && obs_upd == upd {
                                    KEY_KNOWN_DELTA
                                } else {
                                    "delta_wrong"
                                };
                                res.failures.push(OracleFailure {
                                    what: format!(
                                        "delta({b},{e}) at version {e}: inserted={} updated={}, the history says inserted={} updated={}",
                                        show_nat_list(ins.iter().copied()),
                                        show_nat_list(upd.iter().copied()),
                                        show_nat_list(want_ins.iter().copied()),
                                        show_nat_list(want_upd.iter().copied())
                                    ),
                                    key: Some(key.into()),
                                    line: ln,
                                });
                            }
                        }
                    }
                }
                res.tags.push(format!("delta_pairs:{}", parts.len().min(40) / 10 * 10));
                res.outputs.push(if parts.is_empty() { "ok -".into() } else { format!("ok {}", parts.join(" ")) });
                continue;
            }
            // ---- run the operation on the real code
            let kit = &self.kit;
            let knobs = |f: usize| Knobs { max_rows_per_file: Some(f), stable_row_ids: true, ..Default::default() };
            let r: Result<Dataset, KitError> = std::panic::catch_unwind(std::panic::AssertUnwindSafe(|| match &op {
                Op::Create { f, k, rows } => kit.write(Err(&uri), Mode::Create, &SchemaSpec::ints(*k), &[rows.clone()], &knobs(*f)),
                Op::Append { f, rows } => {
                    kit.write(Ok(cur.as_ref().unwrap()), Mode::Append, &SchemaSpec::ints(k), &[rows.clone()], &knobs(*f))
                }
                Op::Overwrite { f, rows } => {
                    kit.write(Ok(cur.as_ref().unwrap()), Mode::Overwrite, &SchemaSpec::ints(k), &[rows.clone()], &knobs(*f))
                }
                Op::Delete(p) => {
                    let mut d = cur.clone().unwrap();
                    kit.block_on(d.delete(&p.sql())).map_err(KitError::from)?;
                    Ok(d)
                }
                Op::Update(p, y) => {
                    let d = cur.clone().unwrap();
                    let r = kit.block_on(async {
                        UpdateBuilder::new(Arc::new(d)).update_where(&p.sql())?.set("c1", &y.to_string())?.build()?.execute().await
                    })?;
                    Ok(r.new_dataset.as_ref().clone())
                }
                Op::Upsert(rows) => {
                    let d = cur.clone().unwrap();
                    let spec = SchemaSpec::ints(rows[0].len());
                    let reader = RecordBatchIterator::new(vec![Ok(spec.batch(rows))].into_iter(), spec.arrow_schema());
                    let r = kit.block_on(async {
                        let mut mb = MergeInsertBuilder::try_new(Arc::new(d), vec!["c0".to_string()])?;
                        mb.when_matched(WhenMatched::UpdateAll).when_not_matched(WhenNotMatched::InsertAll);
                        mb.try_build()?.execute_reader(Box::new(reader)).await
                    })?;
                    Ok(r.0.as_ref().clone())
                }
                Op::Compact { t, m } => {
                    if *t == 0 {
                        return Err(KitError::invalid("harness: target 0"));
                    }
                    let mut d = cur.clone().unwrap();
                    let opts = CompactionOptions {
                        target_rows_per_fragment: *t,
                        materialize_deletions: *m,
                        materialize_deletions_threshold: 0.0,
                        num_threads: Some(1),
                        ..Default::default()
                    };
                    kit.block_on(compact_files(&mut d, opts, None)).map_err(KitError::from)?;
                    Ok(d)
                }
                Op::AppendVia { name, f, rows } => {
                    kit.write(Ok(handles.get(name).unwrap()), Mode::Append, &SchemaSpec::ints(k), &[rows.clone()], &knobs(*f))
                }
                Op::Deltas | Op::Open(_) => unreachable!(),
            }))
            .unwrap_or_else(|e| {
                let msg = e
                    .downcast_ref::<String>()
                    .cloned()
                    .or_else(|| e.downcast_ref::<&str>().map(|s| s.to_string()))
                    .unwrap_or_else(|| "panic".into());
                Err(KitError { kind: ErrKind::Other, msg: format!("PANIC {msg}") })
            });
            let new_ds = match r {
                Err(e) => {
                    if debug {
                        eprintln!("line {ln}: {:?}: {}", e.kind, e.msg);
                    }
                    if e.msg.starts_with("PANIC") {
                        res.failures.push(OracleFailure { what: format!("{opname}: {}", e.msg), key: Some("panic".into()), line: ln });
                        res.outputs.push("err panic".into());
                    } else {
                        res.outputs.push(format!("err {}", e.kind.as_str()));
                    }
                    res.tags.push(format!("err:{}", e.kind.as_str()));
                    continue;
                }
                Ok(d) => d,
            };
            drop(cur);
            anchor = Some(new_ds);
            have = true;
            // ---- observe through fresh caches
            self.fresh_session();
            let obs = self.kit.open(&uri, None).and_then(|d| self.observe(&d));
            let obs = match obs {
                Ok(o) => o,
                Err(e) => {
                    res.failures.push(OracleFailure {
                        what: format!("after {opname} the table cannot be read: {}", e.msg),
                        key: Some(if e.msg.starts_with("decode:") { "typed_value_mismatch".into() } else { "scan_error".into() }),
                        line: ln,
                    });
                    res.outputs.push("ok unreadable".into());
                    continue;
                }
            };
            let v = obs.version;
            let mut fail = |what: String, key: &str| res.failures.push(OracleFailure { what, key: Some(key.into()), line: ln });
            // (0) versions: every op publishes the next version; a compaction publishes none (empty plan) or two (the
            // fragment-id reservation of commit_compaction, then the rewrite)
            if let Some(p) = &prev {
                let ok = if matches!(op, Op::Compact { .. }) { v == p.version || v == p.version + 2 } else { v == p.version + 1 };
                if !ok {
                    fail(format!("{opname} on version {} produced version {v}", p.version), "version_not_dense");
                }
                if matches!(op, Op::Compact { .. }) && v == p.version + 2 {
                    // the reservation version shows the table of the version before
                    if let Some(rows) = at_version.get(&p.version).cloned() {
                        at_version.insert(p.version + 1, rows);
                    }
                }
            }
            let noop = prev.as_ref().map(|p| p.version == v).unwrap_or(false);
            // ---- (1) the flat replay: expected id -> cells, touched ids, number of fresh rows
            let mut want: BTreeMap<u64, (Row, u64, u64)> = BTreeMap::new();
            let mut fresh_cells: Vec<Row> = vec![];
            // ids whose row went through the Update arm's new fragments (the defect's domain)
            let mut moved: BTreeSet<u64> = BTreeSet::new();
            let mut update_arm = false;
            match &op {
                Op::Create { rows, .. } | Op::Overwrite { rows, .. } => fresh_cells = rows.clone(),
                Op::Append { rows, .. } | Op::AppendVia { rows, .. } => {
                    want = truth.clone();
                    fresh_cells = rows.clone();
                }
                Op::Delete(p) => {
                    want = truth.iter().filter(|(_, t)| !p.matches(t.0[0])).map(|(r, t)| (*r, t.clone())).collect();
                }
                Op::Update(p, y) => {
                    update_arm = true;
                    for (r, t) in &truth {
                        if p.matches(t.0[0]) {
                            let mut c = t.0.clone();
                            c[1] = Some(*y);
                            want.insert(*r, (c, t.1, v));
                            moved.insert(*r);
                        } else {
                            want.insert(*r, t.clone());
                        }
                    }
                }
                Op::Upsert(rows) => {
                    update_arm = true;
                    let partial = rows[0].len() < k;
                    want = truth.clone();
                    for src in rows {
                        let hit: Option<u64> = truth.iter().find(|(_, t)| t.0[0] == src[0]).map(|(r, _)| *r);
                        match hit {
                            Some(r) => {
                                let t = want.get_mut(&r).unwrap();
                                if partial {
                                    t.0[1] = src[1];
                                } else {
                                    t.0 = src.clone();
                                    moved.insert(r);
                                }
                                t.2 = v;
                            }
                            None => {
                                let mut c = src.clone();
                                c.resize(k, None);
                                fresh_cells.push(c);
                            }
                        }
                    }
                }
                Op::Compact { .. } => want = truth.clone(),
                Op::Deltas | Op::Open(_) => unreachable!(),
            }
            // split the scan into surviving and fresh ids
            let mut got_fresh: Vec<(u64, Row)> = vec![];
            let mut seen_now: BTreeSet<u64> = BTreeSet::new();
            for row in &obs.scan {
                if !seen_now.insert(row.rid) {
                    fail(format!("{opname}: version {v} lists row id {} twice", row.rid), "rowid_dup");
                }
                match want.get(&row.rid) {
                    Some(t) => {
                        if t.0 != row.cells {
                            fail(
                                format!("{opname}: row id {} reads {} but the history says {}", row.rid, show_row(&row.cells), show_row(&t.0)),
                                "scan_mismatch",
                            );
                        }
                    }
                    None => got_fresh.push((row.rid, row.cells.clone())),
                }
            }
            for r in want.keys() {
                if !seen_now.contains(r) {
                    fail(format!("{opname}: row id {r} disappeared from version {v}"), "scan_mismatch");
                }
            }
            {
                let mut a: Vec<Row> = got_fresh.iter().map(|x| x.1.clone()).collect();
                let mut b = fresh_cells.clone();
                a.sort();
                b.sort();
                if a != b {
                    fail(
                        format!("{opname}: new rows read {} but {} were written", show_rows(&a), show_rows(&b)),
                        "scan_mismatch",
                    );
                }
                for (rid, _) in &got_fresh {
                    if ever_seen.contains(rid) {
                        fail(format!("{opname}: row id {rid} handed out again in version {v}"), "rowid_reused");
                    }
                }
            }
            // the new truth
            let mut new_truth = want.clone();
            for (rid, cells) in &got_fresh {
                new_truth.insert(*rid, (cells.clone(), v, v));
            }
            // ---- (2)(3) version columns against the truth; what the known defect explains
            let fresh_ids: BTreeSet<u64> = got_fresh.iter().map(|x| x.0).collect();
            let prev_frags: &[FragDump] = prev.as_ref().map(|p| p.frags.as_slice()).unwrap_or(&[]);
            let mut new_explained: BTreeMap<u64, u64> = BTreeMap::new();
            let mut vrows: BTreeMap<u64, (u64, u64, u64, u64)> = BTreeMap::new();
            for row in &obs.scan {
                let Some(t) = new_truth.get(&row.rid) else { continue };
                // the value the "row id as address" reading produces for rows written by the Update arm
                let by_defect = |rid: u64| -> u64 {
                    let (fid, off) = (rid >> 32, (rid & 0xFFFF_FFFF) as usize);
                    prev_frags.iter().find(|f| f.id == fid).and_then(|f| f.rows.get(off)).map(|r| r.created).unwrap_or(1)
                };
                let in_new_frag = update_arm && (moved.contains(&row.rid) || fresh_ids.contains(&row.rid));
                let expl = if in_new_frag {
                    by_defect(row.rid)
                } else if fresh_ids.contains(&row.rid) {
                    v
                } else {
                    explained.get(&row.rid).copied().unwrap_or(t.1)
                };
                new_explained.insert(row.rid, expl);
                if row.created != t.1 {
                    wrong_created += 1;
                    let key = if row.created == expl { KEY_KNOWN } else { "created_at_wrong" };
                    fail(
                        format!(
                            "{opname}: row id {} reports _row_created_at_version {} in version {v}; its id was first inserted in version {}",
                            row.rid, row.created, t.1
                        ),
                        key,
                    );
                }
                if row.updated != t.2 {
                    fail(
                        format!(
                            "{opname}: row id {} reports _row_last_updated_at_version {} in version {v}; the history says {}",
                            row.rid, row.updated, t.2
                        ),
                        "updated_at_wrong",
                    );
                }
                vrows.insert(row.rid, (t.1, t.2, row.created, row.updated));
            }
            // ---- (4) manifest sequences agree with the scan
            {
                let live: Vec<(u64, u64, u64)> = obs
                    .frags
                    .iter()
                    .flat_map(|f| f.rows.iter().filter(|r| !r.deleted).map(|r| (r.rid, r.created, r.updated)))
                    .collect();
                let scanned: Vec<(u64, u64, u64)> = obs.scan.iter().map(|r| (r.rid, r.created, r.updated)).collect();
                if live != scanned {
                    fail(format!("{opname}: the scan's meta columns differ from the manifest's sequences in version {v}"), "scan_vs_manifest");
                }
            }
            if update_arm {
                n_update_arm += 1;
            }
            if let (Op::AppendVia { name, .. }, Some(p)) = (&op, &prev) {
                let behind = handles.get(name).map(|h| p.version.saturating_sub(h.version().version)).unwrap_or(0);
                res.tags.push(format!("stale_append:behind_{}", behind.min(3)));
            }
            if matches!(op, Op::Compact { .. }) && !noop {
                n_compactions += 1;
            }
            max_frags = max_frags.max(obs.frags.len());
            res.tags.push(format!("nfrags:{}", obs.frags.len().min(6)));
            if obs.frags.iter().any(|f| f.rows.iter().any(|r| r.deleted)) {
                res.tags.push("has_deletions".into());
            }
            if let Op::Upsert(rows) = &op {
                res.tags.push(if rows[0].len() < k { "upsert:rewrite_columns".into() } else { "upsert:rewrite_rows".into() });
            }
            if noop {
                res.tags.push("compact:noop".into());
            }
            res.outputs.push(fmt_obs(&obs));
            for r in new_truth.keys() {
                ever_seen.insert(*r);
            }
            truth = new_truth;
            explained = new_explained;
            at_version.insert(v, vrows);
            prev = Some(obs);
        }
        if wrong_created > 0 {
            res.tags.push("created_at_wrong_seen".into());
        }
        drop(anchor);
        res.tags.push(format!("update_arm_ops:{}", n_update_arm.min(4)));
        res.nontrivial = n_update_arm >= 1 && max_frags >= 2 && prev.as_ref().map(|p| p.version >= 3).unwrap_or(false);
        if n_compactions > 0 {
            res.tags.push("compacted".into());
        }
        res
    }

    fn rule(&self) -> String {
        "random histories of 3-9 ops (+ a final `deltas`) on one memory:// dataset with stable row ids, 2 Int64 columns (3 for a third \
         of the cases, which also upsert with a partial source schema): create then append 22% / update-where 18% / merge_insert \
         upsert 20% (3 in 5 keys exist, at most one new key) / delete 12% / compact_files 16% (target 2-8 or 1000, materialize deletions 3 in 4) / \
         overwrite 4% / deltas 4%; two thirds of the cases `open` a handle early and append through it later (a quarter of the following ops; the transaction is rebased over the commits made since); max_rows_per_file 1-6 or 1000, 0-10 rows per write, unique keys (duplicates in the malformed \
         stream), 4% NULL keys, 8% NULL values; 15% malformed (ops before create, f=0, t=0, wrong width, create twice, broken \
         syntax, duplicate upsert keys). Every step and every observation runs with fresh session caches. Non-trivial = at least \
         one update / upsert on a table that had >= 2 fragments and >= 3 versions."
            .into()
    }
}

fn main() {
    run_main(C17 { kit: Kit::new() })
}
