//! C20: inexact scalar indices (zone map, bloom filter, n-gram) never drop a matching row.
//!
//! Interpreter of the C20 line protocol against the REAL lance code (public API only: the `ScalarIndexPlugin`s of
//! lance-index on an in-memory `LanceIndexStore`, and real datasets for the end-to-end lines), a seeded generator, and
//! the property oracle (brute-force ground truth on the rows of the case; indexed scan == un-indexed scan).
//!
//! ```text
//! cell    ::= "n" (NULL) | "N" (NaN, float columns only) | ["-"] digit+
//! str     ::= "n" (NULL) | "-" (empty) | codepoint ("." codepoint)*          decimal code points
//! zrows   ::= "-" | frag ":" off ":" cell ("," …)*                           rows of the training stream, in stream order
//! bnd     ::= "u" | "i" cell | "e" cell
//! query   ::= "isnull" | "eq" cell | "range" bnd bnd | "in" cell ("," cell)*
//!
//! ztrain t=<i|f> z=<Z> <zrows>        ZoneMapIndexPlugin::train_index + load_index     -> zones f:s:l:min:max:nulls:nans;…
//! zload  t=<i|f> <zones>              write zonemap.lance from the given statistics, load_index -> zones …
//! zq <query>                          ScalarIndex::search                              -> atmost f.o,f.o,…
//! btrain t=<i|s> n=<N> p=<P> nb=<B> <rows>   BloomFilterIndexPlugin (rows: frag:off:cell|str) -> blocks nb=<B> f:s:l:hasnull:hex;…
//! bq isnull | eq <v> | in <v,…>       ScalarIndex::search                              -> atmost …
//! ntrain <rid:str,…>                  NGramIndexPlugin::train_index + load_index       -> postings tok:rid.rid;… | panic
//! nq <str>                            search(TextQuery::StringContains)                -> exact|atmost|atleast <rids> | panic
//! ewrite <i:f:str,…>                  Dataset::write (Create, then Append: one fragment per line); ids are 0,1,2,…  -> ok n=<live>
//! edelete <ids>                       Dataset::delete("id IN (…)")                     -> ok n=<live>
//! eindex zonemap <i|f> <Z> | bloom <i|s> <N> <P> | ngram s     create_index(replace)   -> ok | err
//! eoptimize                           optimize_indices(default)                        -> ok | err
//! escan <i|f> <query> | escan s contains <str> | escan s eq <str>   scan with the filter, use_scalar_index(false) -> ids … ; oracle: use_scalar_index(true) gives the same rows
//! ```

use std::collections::BTreeSet;
use std::panic::{catch_unwind, AssertUnwindSafe};
use std::sync::Arc;

use arrow_array::{
    Array, ArrayRef, BinaryArray, BooleanArray, Float64Array, Int64Array, RecordBatch, RecordBatchIterator, StringArray,
    UInt32Array, UInt64Array,
};
use arrow_schema::{DataType, Field, Schema};
use datafusion::common::ScalarValue;
use datafusion::execution::SendableRecordBatchStream;
use datafusion::physical_plan::stream::RecordBatchStreamAdapter;
use futures::TryStreamExt;
use hcommon::*;
use lance::dataset::{WriteMode, WriteParams};
use lance::Dataset;
use lance_core::cache::LanceCache;
use lance_index::metrics::NoOpMetricsCollector;
use lance_index::optimize::OptimizeOptions;
use lance_index::scalar::bloomfilter::BloomFilterIndexPlugin;
use lance_index::scalar::lance_format::LanceIndexStore;
use lance_index::scalar::ngram::NGramIndexPlugin;
use lance_index::scalar::registry::ScalarIndexPlugin;
use lance_index::scalar::zonemap::ZoneMapIndexPlugin;
use lance_index::scalar::{
    BloomFilterQuery, BuiltinIndexType, CreatedIndex, IndexStore, SargableQuery, ScalarIndex, ScalarIndexParams,
    SearchResult, TextQuery,
};
use lance_index::{DatasetIndexExt, IndexType};
use lance_io::object_store::ObjectStore;
use object_store::path::Path;
use std::ops::Bound;

// ------------------------------------------------------------------------------------------------
// cells, strings, queries
// ------------------------------------------------------------------------------------------------

#[derive(Clone, Copy, PartialEq, Eq, Debug)]
enum Cell {
    Null,
    Nan,
    Num(i64),
}

fn parse_cell(s: &str) -> Option<Cell> {
    match s {
        "n" => Some(Cell::Null),
        "N" => Some(Cell::Nan),
        _ => {
            let d = s.strip_prefix('-').unwrap_or(s);
            if d.is_empty() || d.len() > 15 || !d.bytes().all(|b| b.is_ascii_digit()) {
                return None;
            }
            s.parse().ok().map(Cell::Num)
        }
    }
}

fn show_cell(c: Cell) -> String {
    match c {
        Cell::Null => "n".into(),
        Cell::Nan => "N".into(),
        Cell::Num(k) => k.to_string(),
    }
}

/// total order on non-null cells: numbers, then NaN
fn le(a: Cell, b: Cell) -> bool {
    match (a, b) {
        (Cell::Null, _) => true,
        (_, Cell::Null) => false,
        (Cell::Num(x), Cell::Num(y)) => x <= y,
        (Cell::Num(_), Cell::Nan) => true,
        (Cell::Nan, Cell::Nan) => true,
        (Cell::Nan, Cell::Num(_)) => false,
    }
}

fn parse_str(s: &str) -> Option<Option<String>> {
    if s == "n" {
        return Some(None);
    }
    if s == "-" {
        return Some(Some(String::new()));
    }
    let mut out = String::new();
    for p in s.split('.') {
        if p.is_empty() || p.len() > 7 || !p.bytes().all(|b| b.is_ascii_digit()) {
            return None;
        }
        let cp: u32 = p.parse().ok()?;
        out.push(char::from_u32(cp)?);
    }
    Some(Some(out))
}

fn show_str(s: &Option<String>) -> String {
    match s {
        None => "n".into(),
        Some(t) if t.is_empty() => "-".into(),
        Some(t) => t.chars().map(|c| (c as u32).to_string()).collect::<Vec<_>>().join("."),
    }
}

#[derive(Clone, Debug)]
enum Bnd {
    Unb,
    Incl(Cell),
    Excl(Cell),
}

#[derive(Clone, Debug)]
enum Query {
    IsNull,
    Eq(Cell),
    Range(Bnd, Bnd),
    In(Vec<Cell>),
}

fn parse_bnd(s: &str) -> Option<Bnd> {
    if s == "u" {
        return Some(Bnd::Unb);
    }
    let (k, v) = s.split_at(1);
    let c = parse_cell(v)?;
    match k {
        "i" => Some(Bnd::Incl(c)),
        "e" => Some(Bnd::Excl(c)),
        _ => None,
    }
}

fn parse_cells(s: &str) -> Option<Vec<Cell>> {
    s.split(',').map(parse_cell).collect()
}

fn parse_query(t: &[&str]) -> Option<Query> {
    match t {
        ["isnull"] => Some(Query::IsNull),
        ["eq", v] => parse_cell(v).map(Query::Eq),
        ["range", a, b] => Some(Query::Range(parse_bnd(a)?, parse_bnd(b)?)),
        ["in", vs] => parse_cells(vs).map(Query::In),
        _ => None,
    }
}

/// reference semantics of a predicate on one cell (SQL on the total order of keys) — the ORACLE's ground truth
fn sat(q: &Query, v: Cell) -> bool {
    if let Query::IsNull = q {
        return v == Cell::Null;
    }
    if v == Cell::Null {
        return false;
    }
    match q {
        Query::IsNull => unreachable!(),
        Query::Eq(t) => *t != Cell::Null && *t == v,
        Query::In(ts) => ts.iter().any(|t| *t != Cell::Null && *t == v),
        Query::Range(lo, hi) => {
            let l = match lo {
                Bnd::Unb => true,
                Bnd::Incl(s) => *s != Cell::Null && le(*s, v),
                Bnd::Excl(s) => *s != Cell::Null && !le(v, *s),
            };
            let h = match hi {
                Bnd::Unb => true,
                Bnd::Incl(s) => *s != Cell::Null && le(v, *s),
                Bnd::Excl(s) => *s != Cell::Null && !le(*s, v),
            };
            l && h
        }
    }
}

fn scalar(float: bool, c: Cell) -> Option<ScalarValue> {
    Some(match (float, c) {
        (false, Cell::Null) => ScalarValue::Int64(None),
        (false, Cell::Num(k)) => ScalarValue::Int64(Some(k)),
        (false, Cell::Nan) => return None,
        (true, Cell::Null) => ScalarValue::Float64(None),
        (true, Cell::Num(k)) => ScalarValue::Float64(Some(k as f64)),
        (true, Cell::Nan) => ScalarValue::Float64(Some(f64::NAN)),
    })
}

fn sargable(float: bool, q: &Query) -> Option<SargableQuery> {
    let b = |b: &Bnd| -> Option<Bound<ScalarValue>> {
        Some(match b {
            Bnd::Unb => Bound::Unbounded,
            Bnd::Incl(c) => Bound::Included(scalar(float, *c)?),
            Bnd::Excl(c) => Bound::Excluded(scalar(float, *c)?),
        })
    };
    Some(match q {
        Query::IsNull => SargableQuery::IsNull(),
        Query::Eq(c) => SargableQuery::Equals(scalar(float, *c)?),
        Query::Range(lo, hi) => SargableQuery::Range(b(lo)?, b(hi)?),
        Query::In(cs) => SargableQuery::IsIn(cs.iter().map(|c| scalar(float, *c)).collect::<Option<Vec<_>>>()?),
    })
}

fn array_of(float: bool, cells: &[Cell]) -> Option<ArrayRef> {
    if float {
        Some(Arc::new(Float64Array::from(
            cells
                .iter()
                .map(|c| match c {
                    Cell::Null => None,
                    Cell::Nan => Some(f64::NAN),
                    Cell::Num(k) => Some(*k as f64),
                })
                .collect::<Vec<_>>(),
        )))
    } else {
        if cells.iter().any(|c| *c == Cell::Nan) {
            return None;
        }
        Some(Arc::new(Int64Array::from(
            cells
                .iter()
                .map(|c| match c {
                    Cell::Num(k) => Some(*k),
                    _ => None,
                })
                .collect::<Vec<_>>(),
        )))
    }
}

fn cell_at(a: &ArrayRef, i: usize) -> Cell {
    if a.is_null(i) {
        return Cell::Null;
    }
    if let Some(x) = a.as_any().downcast_ref::<Int64Array>() {
        return Cell::Num(x.value(i));
    }
    let x = a.as_any().downcast_ref::<Float64Array>().expect("i64 or f64 statistics");
    let v = x.value(i);
    if v.is_nan() {
        Cell::Nan
    } else {
        Cell::Num(v as i64)
    }
}

// ------------------------------------------------------------------------------------------------
// zones
// ------------------------------------------------------------------------------------------------

#[derive(Clone, Debug)]
struct ZoneStat {
    frag: u64,
    start: u64,
    len: u64,
    min: Cell,
    max: Cell,
    nulls: u32,
    nans: u32,
}

/// (frag, off, value)
type TRow<T> = (u64, u64, T);

/// the defect class a training stream falls into (used to tag oracle failures); `z` = rows per zone
fn train_shape<T>(rows: &[TRow<T>], z: u64) -> Option<String> {
    // offsets of each maximal run of one fragment must be 0,1,2,… ; fragments must step by exactly +1
    let mut i = 0;
    let mut prev_frag: Option<u64> = None;
    let mut gap = false;
    let mut jump = false;
    let mut lens: Vec<u64> = vec![];
    while i < rows.len() {
        let f = rows[i].0;
        if let Some(p) = prev_frag {
            if f != p + 1 {
                jump = true;
            }
        }
        let mut j = i;
        while j < rows.len() && rows[j].0 == f {
            if rows[j].1 != (j - i) as u64 {
                gap = true;
            }
            j += 1;
        }
        lens.push((j - i) as u64);
        prev_frag = Some(f);
        i = j;
    }
    if gap {
        Some("train_offset_gap".into())
    } else if jump {
        Some("train_fragment_jump".into())
    } else if boundary_overrun(&lens, z) {
        Some("train_boundary_overrun".into())
    } else {
        None
    }
}

/// dense fragments of the given lengths, zone size z: does some zone fill up inside a batch *before* the next fragment
/// boundary of that batch is reached while the zone was already open at the start of the batch?  (Then the builder has
/// advanced `cur_fragment_id` too early and merges the rest of the fragment into the next fragment's first zone.)
fn boundary_overrun(lens: &[u64], z: u64) -> bool {
    let mut p = 0u64;
    for (k, l) in lens.iter().enumerate() {
        let e = p + l;
        if k + 1 < lens.len() && z > 0 {
            let g = (e / z) * z;
            if e % z != 0 && p < g {
                let c = (g - p) % z;
                if c > 0 && e - g > z - c {
                    return true;
                }
            }
        }
        p = e;
    }
    false
}

fn show_addrs(s: &BTreeSet<(u64, u64)>) -> String {
    if s.is_empty() {
        return "-".into();
    }
    s.iter().map(|(f, o)| format!("{f}.{o}")).collect::<Vec<_>>().join(",")
}

fn addrs_of(r: &SearchResult) -> (&'static str, BTreeSet<(u64, u64)>) {
    let (k, m) = match r {
        SearchResult::Exact(m) => ("exact", m),
        SearchResult::AtMost(m) => ("atmost", m),
        SearchResult::AtLeast(m) => ("atleast", m),
    };
    let mut out = BTreeSet::new();
    if let Some(it) = m.row_ids() {
        for a in it {
            out.insert((a.fragment_id() as u64, a.row_offset() as u64));
        }
    } else {
        out.insert((u64::MAX, u64::MAX)); // a full fragment: never produced by these indices
    }
    (k, out)
}

struct ZState {
    float: bool,
    z: u64,
    index: Arc<dyn ScalarIndex>,
    rows: Option<Vec<TRow<Cell>>>,
}

enum BVal {
    I(Option<i64>),
    S(Option<String>),
}

struct BState {
    strings: bool,
    z: u64,
    index: Arc<dyn ScalarIndex>,
    rows: Vec<TRow<Option<String>>>, // value in its text form (decimal for ints)
}

struct NState {
    index: Arc<dyn ScalarIndex>,
    rows: Vec<(u64, Option<String>)>,
}

struct ERow {
    id: u64,
    s: Option<String>,
    live: bool,
}

struct EState {
    _dir: tempfile::TempDir,
    uri: String,
    ds: Option<Dataset>,
    rows: Vec<ERow>,
    /// defect class of the data some zone-map / bloom index was trained on
    shape: Option<String>,
    /// zone size of the zone-map / bloom index and the first fragment id it has not seen
    zone_index: Option<(u64, usize)>,
}

struct C20 {
    rt: tokio::runtime::Runtime,
    n_store: u64,
    z: Option<ZState>,
    b: Option<BState>,
    n: Option<NState>,
    e: Option<EState>,
    zdetails: Option<CreatedIndex>,
    bloom_nb: Vec<(u64, &'static str, u64)>,
}

fn stream_of(batch: RecordBatch) -> SendableRecordBatchStream {
    let schema = batch.schema();
    Box::pin(RecordBatchStreamAdapter::new(schema, futures::stream::iter(vec![Ok(batch)])))
}

const BAD: &str = "bad-op";

/// characters whose ASCII folding is an upper-case letter (`ngram_to_token` underflows on them)
const FOLD_TO_UPPER: [char; 3] = ['\u{1D00}', '\u{0299}', '\u{01E5}'];

impl C20 {
    fn store(&mut self) -> Arc<LanceIndexStore> {
        self.n_store += 1;
        let _guard = self.rt.enter(); // the store's scan scheduler spawns onto the current runtime
        Arc::new(LanceIndexStore::new(
            Arc::new(ObjectStore::memory()),
            Path::from(format!("idx{}", self.n_store)),
            Arc::new(LanceCache::no_cache()),
        ))
    }

    fn read_file(&self, store: &Arc<LanceIndexStore>, name: &str) -> Option<RecordBatch> {
        self.rt.block_on(async {
            let f = store.open_index_file(name).await.ok()?;
            f.read_range(0..f.num_rows(), None).await.ok()
        })
    }

    // ---------------- zone map ----------------

    fn dump_zones(&self, store: &Arc<LanceIndexStore>) -> Option<Vec<ZoneStat>> {
        let b = self.read_file(store, "zonemap.lance")?;
        let u64c = |n: &str| b.column_by_name(n).unwrap().as_any().downcast_ref::<UInt64Array>().unwrap().clone();
        let u32c = |n: &str| b.column_by_name(n).unwrap().as_any().downcast_ref::<UInt32Array>().unwrap().clone();
        let (fr, st, ln, nu, na) = (u64c("fragment_id"), u64c("zone_start"), u64c("zone_length"), u32c("null_count"), u32c("nan_count"));
        let mn = b.column_by_name("min").unwrap().clone();
        let mx = b.column_by_name("max").unwrap().clone();
        Some(
            (0..b.num_rows())
                .map(|i| ZoneStat {
                    frag: fr.value(i),
                    start: st.value(i),
                    len: ln.value(i),
                    min: cell_at(&mn, i),
                    max: cell_at(&mx, i),
                    nulls: nu.value(i),
                    nans: na.value(i),
                })
                .collect(),
        )
    }

    fn show_zones(zs: &[ZoneStat]) -> String {
        if zs.is_empty() {
            return "zones -".into();
        }
        format!(
            "zones {}",
            zs.iter()
                .map(|z| format!("{}:{}:{}:{}:{}:{}:{}", z.frag, z.start, z.len, show_cell(z.min), show_cell(z.max), z.nulls, z.nans))
                .collect::<Vec<_>>()
                .join(";")
        )
    }

    fn ztrain(&mut self, float: bool, z: u64, rows: Vec<TRow<Cell>>, line: usize, res: &mut CaseResult) -> String {
        let dtype = if float { DataType::Float64 } else { DataType::Int64 };
        let Some(values) = array_of(float, &rows.iter().map(|r| r.2).collect::<Vec<_>>()) else { return BAD.into() };
        let schema = Arc::new(Schema::new(vec![
            Field::new("value", dtype.clone(), true),
            Field::new("_rowaddr", DataType::UInt64, false),
        ]));
        let addrs = UInt64Array::from_iter_values(rows.iter().map(|r| (r.0 << 32) | r.1));
        let batch = RecordBatch::try_new(schema, vec![values, Arc::new(addrs)]).unwrap();
        let store = self.store();
        let plugin = ZoneMapIndexPlugin;
        let field = Field::new("value", dtype, true);
        let params = format!("{{\"rows_per_zone\":{z}}}");
        let r = self.rt.block_on(async {
            let req = plugin.new_training_request(&params, &field)?;
            let created = plugin.train_index(stream_of(batch), store.as_ref(), req, None).await?;
            let idx = plugin.load_index(store.clone(), &created.index_details, None, &LanceCache::no_cache()).await?;
            lance_core::Result::Ok((created, idx))
        });
        let (created, idx) = match r {
            Ok(x) => x,
            Err(_) => return "err".into(),
        };
        self.zdetails = Some(created);
        let zones = self.dump_zones(&store).unwrap_or_default();
        // ORACLE: every row of the stream lies in a zone whose statistics are valid for it
        let shape = train_shape(&rows, z);
        for (f, o, v) in &rows {
            let ok = zones.iter().any(|zn| {
                zn.frag == *f
                    && zn.start <= *o
                    && *o < zn.start + zn.len
                    && match v {
                        Cell::Null => zn.nulls > 0,
                        Cell::Nan => zn.nans > 0 && le(zn.min, *v) && le(*v, zn.max),
                        Cell::Num(_) => zn.min != Cell::Null && le(zn.min, *v) && le(*v, zn.max),
                    }
            });
            if !ok {
                res.failures.push(OracleFailure {
                    what: format!("zone map training: row {f}.{o}={} lies in no zone with valid statistics", show_cell(*v)),
                    key: shape.clone(),
                    line,
                });
                break;
            }
        }
        res.tags.push(format!("ztrain_zones_{}", zones.len().min(6)));
        self.z = Some(ZState { float, z, index: idx, rows: Some(rows) });
        Self::show_zones(&zones)
    }

    fn zload(&mut self, float: bool, zones: Vec<ZoneStat>) -> String {
        if self.zdetails.is_none() {
            // obtain index details from a training run on nothing
            let mut dummy = CaseResult::default();
            self.ztrain(float, 4, vec![], 0, &mut dummy);
        }
        let dtype = if float { DataType::Float64 } else { DataType::Int64 };
        let Some(mins) = array_of(float, &zones.iter().map(|z| z.min).collect::<Vec<_>>()) else { return BAD.into() };
        let Some(maxs) = array_of(float, &zones.iter().map(|z| z.max).collect::<Vec<_>>()) else { return BAD.into() };
        let mut schema = Schema::new(vec![
            Field::new("min", dtype.clone(), true),
            Field::new("max", dtype, true),
            Field::new("null_count", DataType::UInt32, false),
            Field::new("nan_count", DataType::UInt32, false),
            Field::new("fragment_id", DataType::UInt64, false),
            Field::new("zone_start", DataType::UInt64, false),
            Field::new("zone_length", DataType::UInt64, false),
        ]);
        schema.metadata.insert("rows_per_zone".into(), "8".into());
        let schema = Arc::new(schema);
        let batch = RecordBatch::try_new(
            schema.clone(),
            vec![
                mins,
                maxs,
                Arc::new(UInt32Array::from_iter_values(zones.iter().map(|z| z.nulls))),
                Arc::new(UInt32Array::from_iter_values(zones.iter().map(|z| z.nans))),
                Arc::new(UInt64Array::from_iter_values(zones.iter().map(|z| z.frag))),
                Arc::new(UInt64Array::from_iter_values(zones.iter().map(|z| z.start))),
                Arc::new(UInt64Array::from_iter_values(zones.iter().map(|z| z.len))),
            ],
        )
        .unwrap();
        let store = self.store();
        let details = self.zdetails.as_ref().unwrap();
        let r = self.rt.block_on(async {
            let mut w = store.new_index_file("zonemap.lance", schema).await?;
            w.write_record_batch(batch).await?;
            w.finish().await?;
            ZoneMapIndexPlugin.load_index(store.clone(), &details.index_details, None, &LanceCache::no_cache()).await
        });
        match r {
            Ok(idx) => {
                let back = self.dump_zones(&store).unwrap_or_default();
                self.z = Some(ZState { float, z: 8, index: idx, rows: None });
                Self::show_zones(&back)
            }
            Err(_) => "err".into(),
        }
    }

    fn zq(&mut self, q: Query, line: usize, res: &mut CaseResult) -> String {
        let Some(zs) = &self.z else { return BAD.into() };
        let Some(sq) = sargable(zs.float, &q) else { return BAD.into() };
        let r = self.rt.block_on(zs.index.search(&sq, &NoOpMetricsCollector));
        let r = match r {
            Ok(r) => r,
            Err(_) => return "err".into(),
        };
        let (kind, set) = addrs_of(&r);
        if let Some(rows) = &zs.rows {
            // ORACLE: superset of the truly matching rows (an AtMost / Exact answer must contain them)
            let mut n_match = 0;
            for (f, o, v) in rows {
                if sat(&q, *v) {
                    n_match += 1;
                    if kind != "atleast" && !set.contains(&(*f, *o)) {
                        res.failures.push(OracleFailure {
                            what: format!("zone map search dropped matching row {f}.{o}={} for {q:?}", show_cell(*v)),
                            key: train_shape(rows, zs.z),
                            line,
                        });
                        break;
                    }
                }
            }
            if n_match > 0 && set.len() < rows.len() {
                res.nontrivial = true;
            }
            res.tags.push(format!("zq_{}", if n_match == 0 { "nomatch" } else if set.len() < rows.len() { "pruned" } else { "all" }));
        }
        res.tags.push(format!(
            "zq_kind_{}",
            match q {
                Query::IsNull => "isnull",
                Query::Eq(_) => "eq",
                Query::Range(..) => "range",
                Query::In(_) => "in",
            }
        ));
        format!("{kind} {}", show_addrs(&set))
    }

    // ---------------- bloom filter ----------------

    fn btrain(&mut self, strings: bool, n: u64, p: &str, nb: u64, rows: Vec<TRow<Option<String>>>, line: usize, res: &mut CaseResult) -> String {
        let (dtype, values): (DataType, ArrayRef) = if strings {
            (DataType::Utf8, Arc::new(StringArray::from(rows.iter().map(|r| r.2.clone()).collect::<Vec<_>>())))
        } else {
            let mut v = vec![];
            for r in &rows {
                match &r.2 {
                    None => v.push(None),
                    Some(t) => match t.parse::<i64>() {
                        Ok(k) => v.push(Some(k)),
                        Err(_) => return BAD.into(),
                    },
                }
            }
            (DataType::Int64, Arc::new(Int64Array::from(v)))
        };
        if p.parse::<f64>().is_err() || n == 0 {
            return BAD.into();
        }
        let schema = Arc::new(Schema::new(vec![
            Field::new("value", dtype.clone(), true),
            Field::new("_rowaddr", DataType::UInt64, false),
        ]));
        let addrs = UInt64Array::from_iter_values(rows.iter().map(|r| (r.0 << 32) | r.1));
        let batch = RecordBatch::try_new(schema, vec![values, Arc::new(addrs)]).unwrap();
        let store = self.store();
        let plugin = BloomFilterIndexPlugin;
        let field = Field::new("value", dtype, true);
        let params = format!("{{\"number_of_items\":{n},\"probability\":{p}}}");
        let r = self.rt.block_on(async {
            let req = plugin.new_training_request(&params, &field)?;
            let created = plugin.train_index(stream_of(batch), store.as_ref(), req, None).await?;
            plugin.load_index(store.clone(), &created.index_details, None, &LanceCache::no_cache()).await
        });
        let idx = match r {
            Ok(x) => x,
            Err(_) => return "err".into(),
        };
        let Some(b) = self.read_file(&store, "bloomfilter.lance") else { return "err".into() };
        let u64c = |n: &str| b.column_by_name(n).unwrap().as_any().downcast_ref::<UInt64Array>().unwrap().clone();
        let (fr, st, ln) = (u64c("fragment_id"), u64c("zone_start"), u64c("zone_length"));
        let hn = b.column_by_name("has_null").unwrap().as_any().downcast_ref::<BooleanArray>().unwrap().clone();
        let data = b.column_by_name("bloom_filter_data").unwrap().as_any().downcast_ref::<BinaryArray>().unwrap().clone();
        let mut parts = vec![];
        let mut real_nb = nb;
        for i in 0..b.num_rows() {
            let bytes = data.value(i);
            real_nb = (bytes.len() / 32) as u64;
            let hex: String = bytes.iter().map(|x| format!("{x:02x}")).collect();
            parts.push(format!("{}:{}:{}:{}:{}", fr.value(i), st.value(i), ln.value(i), hn.value(i) as u8, hex));
        }
        // ORACLE (coverage part): every row lies in a zone; a NULL row in a zone with has_null
        let shape = train_shape(&rows, n);
        for (f, o, v) in &rows {
            let ok = (0..b.num_rows()).any(|i| fr.value(i) == *f && st.value(i) <= *o && *o < st.value(i) + ln.value(i) && (v.is_some() || hn.value(i)));
            if !ok {
                res.failures.push(OracleFailure {
                    what: format!("bloom filter training: row {f}.{o} lies in no zone (or its NULL is not recorded)"),
                    key: shape.clone(),
                    line,
                });
                break;
            }
        }
        res.tags.push(format!("btrain_zones_{}", b.num_rows().min(6)));
        res.tags.push(format!("btrain_nb_{real_nb}"));
        self.b = Some(BState { strings, z: n, index: idx, rows });
        format!("blocks nb={real_nb} {}", if parts.is_empty() { "-".into() } else { parts.join(";") })
    }

    fn bval(strings: bool, s: &str) -> Option<BVal> {
        if strings {
            parse_str(s).map(BVal::S)
        } else {
            match parse_cell(s)? {
                Cell::Null => Some(BVal::I(None)),
                Cell::Num(k) => Some(BVal::I(Some(k))),
                Cell::Nan => None,
            }
        }
    }

    fn bq(&mut self, t: &[&str], line: usize, res: &mut CaseResult) -> String {
        let Some(bs) = &self.b else { return BAD.into() };
        let to_scalar = |v: &BVal| match v {
            BVal::I(x) => ScalarValue::Int64(*x),
            BVal::S(x) => ScalarValue::Utf8(x.clone()),
        };
        let text = |v: &BVal| -> Option<String> {
            match v {
                BVal::I(x) => x.map(|k| k.to_string()),
                BVal::S(x) => x.clone(),
            }
        };
        // (query, ground truth on a row's text value)
        let (q, truth): (BloomFilterQuery, Box<dyn Fn(&Option<String>) -> bool>) = match t {
            ["isnull"] => (BloomFilterQuery::IsNull(), Box::new(|v| v.is_none())),
            ["eq", v] => {
                let Some(v) = Self::bval(bs.strings, v) else { return BAD.into() };
                let tv = text(&v);
                (BloomFilterQuery::Equals(to_scalar(&v)), Box::new(move |x| x.is_some() && *x == tv))
            }
            ["in", vs] => {
                let Some(vs) = vs.split(',').map(|v| Self::bval(bs.strings, v)).collect::<Option<Vec<_>>>() else { return BAD.into() };
                let tvs: Vec<Option<String>> = vs.iter().map(text).collect();
                (BloomFilterQuery::IsIn(vs.iter().map(to_scalar).collect()), Box::new(move |x| x.is_some() && tvs.contains(x)))
            }
            _ => return BAD.into(),
        };
        let r = match self.rt.block_on(bs.index.search(&q, &NoOpMetricsCollector)) {
            Ok(r) => r,
            Err(_) => return "err".into(),
        };
        let (kind, set) = addrs_of(&r);
        let mut n_match = 0;
        for (f, o, v) in &bs.rows {
            if truth(v) {
                n_match += 1;
                if kind != "atleast" && !set.contains(&(*f, *o)) {
                    res.failures.push(OracleFailure {
                        what: format!("bloom filter search dropped matching row {f}.{o} for {t:?}"),
                        key: train_shape(&bs.rows, bs.z),
                        line,
                    });
                    break;
                }
            }
        }
        if n_match > 0 && set.len() < bs.rows.len() {
            res.nontrivial = true;
        }
        res.tags.push(format!("bq_{}", if n_match == 0 { "nomatch" } else if set.len() < bs.rows.len() { "pruned" } else { "all" }));
        format!("{kind} {}", show_addrs(&set))
    }

    // ---------------- n-gram ----------------

    fn ntrain(&mut self, rows: Vec<(u64, Option<String>)>, line: usize, res: &mut CaseResult) -> String {
        let schema = Arc::new(Schema::new(vec![
            Field::new("value", DataType::Utf8, true),
            Field::new("_rowid", DataType::UInt64, false),
        ]));
        let batch = RecordBatch::try_new(
            schema,
            vec![
                Arc::new(StringArray::from(rows.iter().map(|r| r.1.clone()).collect::<Vec<_>>())),
                Arc::new(UInt64Array::from_iter_values(rows.iter().map(|r| r.0))),
            ],
        )
        .unwrap();
        let store = self.store();
        let plugin = NGramIndexPlugin;
        let field = Field::new("value", DataType::Utf8, true);
        let rt = &self.rt;
        let st2 = store.clone();
        let r = catch_unwind(AssertUnwindSafe(|| {
            rt.block_on(async {
                let req = plugin.new_training_request("{}", &field)?;
                let created = plugin.train_index(stream_of(batch), st2.as_ref(), req, None).await?;
                plugin.load_index(st2.clone(), &created.index_details, None, &LanceCache::no_cache()).await
            })
        }));
        let idx = match r {
            Ok(Ok(i)) => i,
            Ok(Err(_)) => return "err".into(),
            Err(_) => {
                let upper = rows.iter().any(|r| r.1.as_ref().map(|s| s.chars().any(|c| FOLD_TO_UPPER.contains(&c))).unwrap_or(false));
                res.failures.push(OracleFailure {
                    what: "n-gram index training panicked".into(),
                    key: if upper { Some("ngram_token_overflow".into()) } else { None },
                    line,
                });
                res.tags.push("ntrain_panic".into());
                return "panic".into();
            }
        };
        let Some(b) = self.read_file(&store, "ngram_postings.lance") else { return "err".into() };
        let toks = b.column_by_name("tokens").unwrap().as_any().downcast_ref::<UInt32Array>().unwrap().clone();
        let lists = b.column_by_name("posting_list").unwrap().as_any().downcast_ref::<BinaryArray>().unwrap().clone();
        let mut parts: Vec<(u32, String)> = vec![];
        for i in 0..b.num_rows() {
            let tm = roaring::RoaringTreemap::deserialize_from(lists.value(i)).unwrap();
            parts.push((toks.value(i), tm.iter().map(|x| x.to_string()).collect::<Vec<_>>().join(".")));
        }
        parts.sort();
        res.tags.push(format!("ntrain_tokens_{}", if parts.len() > 20 { ">20" } else if parts.is_empty() { "0" } else { "1-20" }));
        self.n = Some(NState { index: idx, rows });
        format!(
            "postings {}",
            if parts.is_empty() { "-".into() } else { parts.iter().map(|(t, l)| format!("{t}:{l}")).collect::<Vec<_>>().join(";") }
        )
    }

    fn nq(&mut self, needle: String, line: usize, res: &mut CaseResult) -> String {
        let Some(ns) = &self.n else { return BAD.into() };
        let q = TextQuery::StringContains(needle.clone());
        let rt = &self.rt;
        let idx = ns.index.clone();
        let r = catch_unwind(AssertUnwindSafe(|| rt.block_on(idx.search(&q, &NoOpMetricsCollector))));
        let r = match r {
            Ok(Ok(r)) => r,
            Ok(Err(_)) => return "err".into(),
            Err(_) => {
                res.failures.push(OracleFailure {
                    what: "n-gram search panicked".into(),
                    key: if needle.chars().any(|c| FOLD_TO_UPPER.contains(&c)) { Some("ngram_token_overflow".into()) } else { None },
                    line,
                });
                return "panic".into();
            }
        };
        let (kind, m) = match &r {
            SearchResult::Exact(m) => ("exact", m),
            SearchResult::AtMost(m) => ("atmost", m),
            SearchResult::AtLeast(m) => ("atleast", m),
        };
        let set: BTreeSet<u64> = m.row_ids().map(|it| it.map(u64::from).collect()).unwrap_or_default();
        // ORACLE: ground truth by brute force (`str::contains` = byte sub-string = DataFusion's contains)
        let truth: BTreeSet<u64> = ns.rows.iter().filter(|r| r.1.as_ref().map(|s| s.contains(&needle)).unwrap_or(false)).map(|r| r.0).collect();
        let sound = match kind {
            "exact" => set == truth,
            "atmost" => truth.is_subset(&set),
            _ => set.is_subset(&truth),
        };
        if !sound {
            // defect class: a pure-ASCII needle of >= 3 bytes without three consecutive alphanumerics
            let cs: Vec<char> = needle.chars().collect();
            let no_tri = needle.is_ascii() && !cs.windows(3).any(|w| w.iter().all(|c| c.is_ascii_alphanumeric()));
            res.failures.push(OracleFailure {
                what: format!("n-gram search for {:?} answered {kind} {:?} but the matching rows are {:?}", needle, set, truth),
                key: if no_tri { Some("ngram_no_trigram".into()) } else { None },
                line,
            });
        }
        if !truth.is_empty() {
            res.nontrivial = true;
        }
        res.tags.push(format!("nq_{kind}_{}", if truth.is_empty() { "nomatch" } else { "match" }));
        format!("{kind} {}", show_nat_list(set.iter().copied()))
    }

    // ---------------- end to end ----------------

    fn live(&self) -> usize {
        self.e.as_ref().map(|e| e.rows.iter().filter(|r| r.live).count()).unwrap_or(0)
    }

    fn ewrite(&mut self, rows: Vec<(Cell, Cell, Option<String>)>) -> String {
        if rows.is_empty() || rows.iter().any(|r| r.0 == Cell::Nan) {
            return BAD.into();
        }
        if self.e.is_none() {
            let dir = tempfile::tempdir().unwrap();
            let uri = dir.path().join("t.lance").to_string_lossy().to_string();
            self.e = Some(EState { _dir: dir, uri, ds: None, rows: vec![], shape: None, zone_index: None });
        }
        let e = self.e.as_mut().unwrap();
        let start = e.rows.len() as u64;
        let schema = Arc::new(Schema::new(vec![
            Field::new("id", DataType::Int64, false),
            Field::new("i", DataType::Int64, true),
            Field::new("f", DataType::Float64, true),
            Field::new("s", DataType::Utf8, true),
        ]));
        let batch = RecordBatch::try_new(
            schema.clone(),
            vec![
                Arc::new(Int64Array::from_iter_values((0..rows.len() as i64).map(|k| start as i64 + k))),
                array_of(false, &rows.iter().map(|r| r.0).collect::<Vec<_>>()).unwrap(),
                array_of(true, &rows.iter().map(|r| r.1).collect::<Vec<_>>()).unwrap(),
                Arc::new(StringArray::from(rows.iter().map(|r| r.2.clone()).collect::<Vec<_>>())),
            ],
        )
        .unwrap();
        let rd = RecordBatchIterator::new(vec![Ok(batch)], schema);
        let mut wp = WriteParams::default();
        wp.mode = if e.ds.is_none() { WriteMode::Create } else { WriteMode::Append };
        match self.rt.block_on(Dataset::write(rd, &e.uri, Some(wp))) {
            Ok(ds) => {
                e.ds = Some(ds);
                for (k, r) in rows.into_iter().enumerate() {
                    e.rows.push(ERow { id: start + k as u64, s: r.2, live: true });
                }
                format!("ok n={}", self.live())
            }
            Err(_) => "err".into(),
        }
    }

    fn edelete(&mut self, ids: Vec<u64>) -> String {
        let Some(e) = self.e.as_mut() else { return BAD.into() };
        let Some(ds) = e.ds.as_mut() else { return BAD.into() };
        if ids.is_empty() {
            return BAD.into();
        }
        let pred = format!("id IN ({})", ids.iter().map(|x| x.to_string()).collect::<Vec<_>>().join(","));
        match self.rt.block_on(ds.delete(&pred)) {
            Ok(()) => {
                for r in e.rows.iter_mut() {
                    if ids.contains(&r.id) {
                        r.live = false;
                    }
                }
                format!("ok n={}", self.live())
            }
            Err(_) => "err".into(),
        }
    }

    /// defect class of the fragments with id >= `from` as a training stream with zone size `z`: deletions inside a
    /// fragment / missing fragment ids / a zone overrunning a fragment boundary
    fn table_shape(ds: &Dataset, from: usize, z: u64) -> Option<String> {
        let frags: Vec<_> = ds.get_fragments().into_iter().filter(|f| f.id() >= from).collect();
        let gap = frags.iter().any(|f| f.metadata().deletion_file.is_some());
        let ids: Vec<usize> = frags.iter().map(|f| f.id()).collect();
        let jump = ids.windows(2).any(|w| w[1] != w[0] + 1);
        let lens: Vec<u64> = frags.iter().map(|f| f.metadata().physical_rows.unwrap_or(0) as u64).collect();
        if gap {
            Some("train_offset_gap".into())
        } else if jump {
            Some("train_fragment_jump".into())
        } else if boundary_overrun(&lens, z) {
            Some("train_boundary_overrun".into())
        } else {
            None
        }
    }

    fn eindex(&mut self, t: &[&str], res: &mut CaseResult) -> String {
        let Some(e) = self.e.as_mut() else { return BAD.into() };
        let Some(ds) = e.ds.as_mut() else { return BAD.into() };
        let (col, ty, params, zone_size) = match t {
            ["zonemap", c @ ("i" | "f"), z] => {
                let Ok(z) = z.parse::<u64>() else { return BAD.into() };
                if z == 0 {
                    return BAD.into();
                }
                (*c, IndexType::ZoneMap, ScalarIndexParams::for_builtin(BuiltinIndexType::ZoneMap).with_params(&serde_json::json!({"rows_per_zone": z})), Some(z))
            }
            ["bloom", c @ ("i" | "s"), n, p] => {
                let (Ok(n), Ok(p)) = (n.parse::<u64>(), p.parse::<f64>()) else { return BAD.into() };
                if n == 0 {
                    return BAD.into();
                }
                (
                    *c,
                    IndexType::BloomFilter,
                    ScalarIndexParams::for_builtin(BuiltinIndexType::BloomFilter).with_params(&serde_json::json!({"number_of_items": n, "probability": p})),
                    Some(n),
                )
            }
            ["ngram", "s"] => ("s", IndexType::NGram, ScalarIndexParams::for_builtin(BuiltinIndexType::NGram), None),
            _ => return BAD.into(),
        };
        e.shape = None;
        e.zone_index = None;
        if let Some(z) = zone_size {
            e.shape = Self::table_shape(ds, 0, z);
            let next = ds.get_fragments().iter().map(|f| f.id() + 1).max().unwrap_or(0);
            e.zone_index = Some((z, next));
        }
        let rt = &self.rt;
        let r = catch_unwind(AssertUnwindSafe(|| rt.block_on(ds.create_index(&[col], ty, Some(format!("ix_{col}")), &params, true))));
        match r {
            Ok(Ok(())) => {
                res.tags.push(format!("eindex_{}", t[0]));
                "ok".into()
            }
            Ok(Err(_)) => "err".into(),
            Err(_) => {
                let upper = e.rows.iter().any(|r| r.s.as_ref().map(|s| s.chars().any(|c| FOLD_TO_UPPER.contains(&c))).unwrap_or(false));
                res.failures.push(OracleFailure {
                    what: "create_index panicked".into(),
                    key: if upper { Some("ngram_token_overflow".into()) } else { None },
                    line: 0,
                });
                "panic".into()
            }
        }
    }

    fn eoptimize(&mut self) -> String {
        let Some(e) = self.e.as_mut() else { return BAD.into() };
        let Some(ds) = e.ds.as_mut() else { return BAD.into() };
        if let Some((z, from)) = e.zone_index {
            if let Some(s) = Self::table_shape(ds, from, z) {
                e.shape = Some(s);
            }
            let next = ds.get_fragments().iter().map(|f| f.id() + 1).max().unwrap_or(0);
            e.zone_index = Some((z, next));
        }
        match self.rt.block_on(ds.optimize_indices(&OptimizeOptions::default())) {
            Ok(()) => "ok".into(),
            Err(_) => "err".into(),
        }
    }

    fn sql_lit(float: bool, c: Cell) -> Option<String> {
        match c {
            Cell::Num(k) => Some(if float { format!("{k}.0") } else { k.to_string() }),
            _ => None,
        }
    }

    fn sql_of(col: &str, q: &Query) -> Option<String> {
        let float = col == "f";
        Some(match q {
            Query::IsNull => format!("{col} IS NULL"),
            Query::Eq(c) => format!("{col} = {}", Self::sql_lit(float, *c)?),
            Query::In(cs) => format!("{col} IN ({})", cs.iter().map(|c| Self::sql_lit(float, *c)).collect::<Option<Vec<_>>>()?.join(",")),
            Query::Range(Bnd::Incl(a), Bnd::Incl(b)) => format!("{col} BETWEEN {} AND {}", Self::sql_lit(float, *a)?, Self::sql_lit(float, *b)?),
            Query::Range(lo, hi) => {
                let mut parts = vec![];
                match lo {
                    Bnd::Unb => {}
                    Bnd::Incl(a) => parts.push(format!("{col} >= {}", Self::sql_lit(float, *a)?)),
                    Bnd::Excl(a) => parts.push(format!("{col} > {}", Self::sql_lit(float, *a)?)),
                }
                match hi {
                    Bnd::Unb => {}
                    Bnd::Incl(a) => parts.push(format!("{col} <= {}", Self::sql_lit(float, *a)?)),
                    Bnd::Excl(a) => parts.push(format!("{col} < {}", Self::sql_lit(float, *a)?)),
                }
                if parts.is_empty() {
                    return None;
                }
                parts.join(" AND ")
            }
        })
    }

    fn escan(&mut self, t: &[&str], line: usize, res: &mut CaseResult) -> String {
        let Some(e) = self.e.as_ref() else { return BAD.into() };
        let Some(ds) = e.ds.as_ref() else { return BAD.into() };
        let (filter, needle_no_tri) = match t {
            ["s", "contains", n] => {
                let Some(Some(n)) = parse_str(n) else { return BAD.into() };
                if n.contains('\'') || n.contains('\\') {
                    return BAD.into();
                }
                let cs: Vec<char> = n.chars().collect();
                let no_tri = n.is_ascii() && n.len() >= 3 && !cs.windows(3).any(|w| w.iter().all(|c| c.is_ascii_alphanumeric()));
                (format!("contains(s, '{n}')"), no_tri)
            }
            ["s", "eq", n] => {
                let Some(Some(n)) = parse_str(n) else { return BAD.into() };
                if n.contains('\'') || n.contains('\\') {
                    return BAD.into();
                }
                (format!("s = '{n}'"), false)
            }
            [c @ ("i" | "f"), rest @ ..] => {
                let Some(q) = parse_query(rest) else { return BAD.into() };
                let Some(sql) = Self::sql_of(c, &q) else { return BAD.into() };
                (sql, false)
            }
            _ => return BAD.into(),
        };
        let rt = &self.rt;
        let run = |idx: bool| -> Result<(Vec<u64>, bool), String> {
            let r = catch_unwind(AssertUnwindSafe(|| {
                rt.block_on(async {
                    let mut sc = ds.scan();
                    sc.filter(&filter)?;
                    sc.use_scalar_index(idx);
                    sc.project(&["id"])?;
                    let plan = if idx { sc.explain_plan(false).await? } else { String::new() };
                    let bs: Vec<RecordBatch> = sc.try_into_stream().await?.try_collect().await?;
                    let mut out = vec![];
                    for b in bs {
                        let a = b.column(0).as_any().downcast_ref::<Int64Array>().unwrap();
                        out.extend(a.values().iter().map(|x| *x as u64));
                    }
                    out.sort();
                    lance::Result::Ok((out, plan.contains("ScalarIndexQuery")))
                })
            }));
            match r {
                Ok(Ok(x)) => Ok(x),
                Ok(Err(e)) => Err(format!("err {e}")),
                Err(_) => Err("panic".into()),
            }
        };
        let with = run(true);
        let without = run(false);
        match (&with, &without) {
            (Ok((a, used)), Ok((b, _))) => {
                if *used {
                    res.tags.push("escan_index_used".into());
                    if !b.is_empty() {
                        res.nontrivial = true;
                    }
                } else {
                    res.tags.push("escan_index_unused".into());
                }
                if a != b {
                    // ORACLE: the final filtered result equals the result without the index
                    res.failures.push(OracleFailure {
                        what: format!("scan with filter {filter:?}: with the scalar index {:?}, without {:?}", a, b),
                        key: if needle_no_tri { Some("ngram_no_trigram".into()) } else { e.shape.clone() },
                        line,
                    });
                }
                // the output line is the PLAIN scan (the reference the model predicts); the indexed scan is judged by the oracle
                format!("ids {}", show_nat_list(b.iter().copied()))
            }
            (Err(x), Ok(_)) => {
                res.failures.push(OracleFailure { what: format!("indexed scan with filter {filter:?} failed ({x}) but the plain scan works"), key: None, line });
                if x == "panic" { "panic".into() } else { "err".into() }
            }
            _ => "err".into(),
        }
    }

    // ---------------- dispatcher ----------------

    fn parse_trows_cell(s: &str) -> Option<Vec<TRow<Cell>>> {
        if s == "-" {
            return Some(vec![]);
        }
        s.split(',')
            .map(|r| {
                let p: Vec<&str> = r.split(':').collect();
                if p.len() != 3 {
                    return None;
                }
                Some((p[0].parse::<u32>().ok()? as u64, p[1].parse::<u32>().ok()? as u64, parse_cell(p[2])?))
            })
            .collect()
    }

    fn parse_zones(s: &str) -> Option<Vec<ZoneStat>> {
        if s == "-" {
            return Some(vec![]);
        }
        s.split(';')
            .map(|r| {
                let p: Vec<&str> = r.split(':').collect();
                if p.len() != 7 {
                    return None;
                }
                let len: u64 = p[2].parse().ok()?;
                if len > 64 {
                    return None;
                }
                Some(ZoneStat {
                    frag: p[0].parse::<u32>().ok()? as u64,
                    start: p[1].parse::<u32>().ok()? as u64,
                    len,
                    min: parse_cell(p[3])?,
                    max: parse_cell(p[4])?,
                    nulls: p[5].parse().ok()?,
                    nans: p[6].parse().ok()?,
                })
            })
            .collect()
    }

    fn step(&mut self, line: &str, ln: usize, res: &mut CaseResult) -> String {
        let t: Vec<&str> = line.split(' ').filter(|x| !x.is_empty()).collect();
        let kv = |s: &str, k: &str| -> Option<String> { s.strip_prefix(k).map(|x| x.to_string()) };
        match t.as_slice() {
            ["ztrain", ty, z, rows] => {
                let (Some(ty), Some(z)) = (kv(ty, "t="), kv(z, "z=")) else { return BAD.into() };
                let Ok(z) = z.parse::<u64>() else { return BAD.into() };
                if z == 0 || z > 1000 || !(ty == "i" || ty == "f") {
                    return BAD.into();
                }
                let Some(rows) = Self::parse_trows_cell(rows) else { return BAD.into() };
                self.ztrain(ty == "f", z, rows, ln, res)
            }
            ["zload", ty, zones] => {
                let Some(ty) = kv(ty, "t=") else { return BAD.into() };
                if !(ty == "i" || ty == "f") {
                    return BAD.into();
                }
                let Some(zones) = Self::parse_zones(zones) else { return BAD.into() };
                self.zload(ty == "f", zones)
            }
            ["zq", rest @ ..] => match parse_query(rest) {
                Some(q) => self.zq(q, ln, res),
                None => BAD.into(),
            },
            ["btrain", ty, n, p, nb, rows] => {
                let (Some(ty), Some(n), Some(p), Some(nb)) = (kv(ty, "t="), kv(n, "n="), kv(p, "p="), kv(nb, "nb=")) else { return BAD.into() };
                let (Ok(n), Ok(nb)) = (n.parse::<u64>(), nb.parse::<u64>()) else { return BAD.into() };
                if !(ty == "i" || ty == "s") || n > 1000 {
                    return BAD.into();
                }
                let strings = ty == "s";
                let mut out = vec![];
                if *rows != "-" {
                    for r in rows.split(',') {
                        let p: Vec<&str> = r.split(':').collect();
                        if p.len() != 3 {
                            return BAD.into();
                        }
                        let (Ok(f), Ok(o)) = (p[0].parse::<u32>(), p[1].parse::<u32>()) else { return BAD.into() };
                        let v = if strings {
                            match parse_str(p[2]) {
                                Some(v) => v,
                                None => return BAD.into(),
                            }
                        } else {
                            match parse_cell(p[2]) {
                                Some(Cell::Null) => None,
                                Some(Cell::Num(k)) => Some(k.to_string()),
                                _ => return BAD.into(),
                            }
                        };
                        out.push((f as u64, o as u64, v));
                    }
                }
                self.btrain(strings, n, &p, nb, out, ln, res)
            }
            ["bq", rest @ ..] => self.bq(rest, ln, res),
            ["ntrain", rows] => {
                let mut out = vec![];
                if *rows != "-" {
                    for r in rows.split(',') {
                        let Some((id, s)) = r.split_once(':') else { return BAD.into() };
                        let (Ok(id), Some(s)) = (id.parse::<u64>(), parse_str(s)) else { return BAD.into() };
                        if id >= 1 << 40 {
                            return BAD.into();
                        }
                        out.push((id, s));
                    }
                }
                self.ntrain(out, ln, res)
            }
            ["nq", s] => match parse_str(s) {
                Some(Some(n)) => self.nq(n, ln, res),
                _ => BAD.into(),
            },
            ["ewrite", rows] => {
                let mut out = vec![];
                for r in rows.split(',') {
                    let p: Vec<&str> = r.split(':').collect();
                    if p.len() != 3 {
                        return BAD.into();
                    }
                    let (Some(i), Some(f), Some(s)) = (parse_cell(p[0]), parse_cell(p[1]), parse_str(p[2])) else { return BAD.into() };
                    out.push((i, f, s));
                }
                self.ewrite(out)
            }
            ["edelete", ids] => match parse_nat_list(ids) {
                Some(ids) => self.edelete(ids),
                None => BAD.into(),
            },
            ["eindex", rest @ ..] => self.eindex(rest, res),
            ["eoptimize"] => self.eoptimize(),
            ["escan", rest @ ..] => self.escan(rest, ln, res),
            _ => BAD.into(),
        }
    }
}

// ------------------------------------------------------------------------------------------------
// generator
// ------------------------------------------------------------------------------------------------

/// (number_of_items, probability) configurations of the bloom filter.  The number of 32-byte blocks `Sbbf::with_ndv_fpp`
/// allocates for them (float sizing maths, not modelled) is measured once at start-up on the real code and written into
/// the `nb=` field of the generated `btrain` lines; corpus / replay lines carry their own `nb=`.
const BLOOM_CONFIGS: [(u64, &str); 6] = [(4, "0.01"), (4, "0.00001"), (8, "0.001"), (16, "0.0001"), (64, "0.0001"), (256, "0.001")];

const ALPHABET: [char; 40] = [
    'a', 'b', 'c', 'a', 'b', 'l', 'o', 'w', 'A', 'B', 'Z', '0', '1', '9', ' ', ' ', '-', '_', '.', 'é', 'É', 'ß', 'æ', 'Æ', 'ﬁ', '①', 'ø',
    'ı', 'ǆ', '中', 'σ', 'Σ', 'İ', 'x', 'y', 'z', 'h', 'e', ' ', 'a',
];

fn gen_cell(rng: &mut Rng, float: bool, span: i64) -> Cell {
    let r = rng.below(20);
    if r == 0 {
        Cell::Null
    } else if r == 1 && float {
        Cell::Nan
    } else {
        Cell::Num(rng.below(span as u64) as i64 - span / 4)
    }
}

fn gen_query(rng: &mut Rng, float: bool, span: i64, special: bool) -> String {
    let cell = |rng: &mut Rng| -> String {
        let r = rng.below(24);
        if special && r == 0 {
            "n".into()
        } else if special && float && r == 1 {
            "N".into()
        } else {
            show_cell(Cell::Num(rng.below(span as u64 + 4) as i64 - span / 4 - 2))
        }
    };
    match rng.below(10) {
        0 => "isnull".into(),
        1..=3 => format!("eq {}", cell(rng)),
        4..=7 => {
            let b = |rng: &mut Rng| -> String {
                match rng.below(5) {
                    0 => "u".into(),
                    1 | 2 => format!("i{}", cell(rng)),
                    _ => format!("e{}", cell(rng)),
                }
            };
            let (mut lo, hi) = (b(rng), b(rng));
            if lo == "u" && hi == "u" {
                lo = format!("i{}", cell(rng));
            }
            format!("range {lo} {hi}")
        }
        _ => {
            let n = rng.range(1, 4);
            format!("in {}", (0..n).map(|_| cell(rng)).collect::<Vec<_>>().join(","))
        }
    }
}

/// mostly letters and digits (so that trigrams survive the alphanumeric filter)
const WORDY: [char; 24] = ['a', 'b', 'c', 'a', 'b', 'c', 'd', 'e', 'l', 'o', 'w', 'r', 'h', '0', '1', '7', 'A', 'B', 'Z', ' ', '-', 'é', 'ß', 'ø'];

fn gen_string(rng: &mut Rng) -> Option<String> {
    match rng.below(16) {
        0 => None,
        1 => Some(String::new()),
        2..=9 => {
            let n = rng.range(2, 14);
            Some((0..n).map(|_| *rng.pick(&WORDY)).collect())
        }
        _ => {
            let n = rng.range(1, 12);
            Some((0..n).map(|_| *rng.pick(&ALPHABET)).collect())
        }
    }
}

fn gen_needle(rng: &mut Rng, texts: &[Option<String>]) -> String {
    // mostly a sub-string of some text (so that rows match), sometimes a fresh string
    let some: Vec<&String> = texts.iter().flatten().filter(|s| !s.is_empty()).collect();
    if !some.is_empty() && rng.chance(3, 4) {
        let s: Vec<char> = rng.pick(&some).chars().collect();
        let a = rng.usize(s.len());
        let l = if rng.chance(1, 2) { rng.range(3, 6) } else { rng.range(1, 4) } as usize;
        s[a..(a + l).min(s.len())].iter().collect()
    } else {
        let n = rng.range(0, 5);
        (0..n).map(|_| *rng.pick(&ALPHABET)).collect()
    }
}

/// a training stream: fragments f0, f0+1, … with dense offsets; `defect` = allow offset gaps / fragment jumps
fn gen_stream(rng: &mut Rng, defect: bool) -> Vec<(u64, u64)> {
    let nfrag = rng.range(1, 4);
    let mut frag = rng.below(3);
    let mut out = vec![];
    for _ in 0..nfrag {
        let n = rng.range(1, 11);
        let mut off = 0;
        for _ in 0..n {
            if defect && rng.chance(1, 6) {
                off += 1 + rng.below(2);
            }
            out.push((frag, off));
            off += 1;
        }
        frag += if defect && rng.chance(1, 4) { 2 } else { 1 };
    }
    out
}

impl C20 {
    fn gen_zone_case(rng: &mut Rng) -> Vec<String> {
        let float = rng.chance(1, 2);
        let ty = if float { "f" } else { "i" };
        let span = *rng.pick(&[6i64, 20, 60]);
        let mut lines = vec![];
        if rng.chance(1, 6) {
            // hand-made statistics (any layout, also nonsensical ones): tie only
            let n = rng.range(1, 4);
            let zs: Vec<String> = (0..n)
                .map(|k| {
                    let c = |rng: &mut Rng| show_cell(gen_cell(rng, float, span));
                    format!("{}:{}:{}:{}:{}:{}:{}", rng.below(3), k * 4, rng.range(1, 4), c(rng), c(rng), rng.below(3), if float { rng.below(3) } else { 0 })
                })
                .collect();
            lines.push(format!("zload t={ty} {}", zs.join(";")));
        } else {
            let defect = rng.chance(1, 8);
            let z = rng.range(1, 6);
            let sorted = rng.chance(1, 3);
            let mut k = 0i64;
            let rows: Vec<String> = gen_stream(rng, defect)
                .into_iter()
                .map(|(f, o)| {
                    let c = if sorted && rng.chance(9, 10) {
                        k += rng.below(3) as i64;
                        Cell::Num(k)
                    } else {
                        gen_cell(rng, float, span)
                    };
                    format!("{f}:{o}:{}", show_cell(c))
                })
                .collect();
            lines.push(format!("ztrain t={ty} z={z} {}", rows.join(",")));
        }
        for _ in 0..rng.range(3, 8) {
            lines.push(format!("zq {}", gen_query(rng, float, span, true)));
        }
        lines
    }

    fn gen_bloom_case(rng: &mut Rng, sizes: &[(u64, &'static str, u64)]) -> Vec<String> {
        let strings = rng.chance(1, 3);
        let (n, p, nb) = *rng.pick(sizes);
        let defect = rng.chance(1, 8);
        let mut vals: Vec<String> = vec![];
        let rows: Vec<String> = gen_stream(rng, defect)
            .into_iter()
            .map(|(f, o)| {
                let v = if strings {
                    show_str(&gen_string(rng))
                } else {
                    show_cell(gen_cell(rng, false, 40))
                };
                vals.push(v.clone());
                format!("{f}:{o}:{v}")
            })
            .collect();
        let mut lines = vec![format!("btrain t={} n={n} p={p} nb={nb} {}", if strings { "s" } else { "i" }, rows.join(","))];
        let val = |rng: &mut Rng| -> String {
            if rng.chance(2, 3) {
                rng.pick(&vals).clone()
            } else if strings {
                show_str(&gen_string(rng))
            } else {
                show_cell(gen_cell(rng, false, 60))
            }
        };
        for _ in 0..rng.range(3, 8) {
            lines.push(match rng.below(8) {
                0 => "bq isnull".into(),
                1..=5 => format!("bq eq {}", val(rng)),
                _ => {
                    let k = rng.range(1, 3);
                    format!("bq in {}", (0..k).map(|_| val(rng)).collect::<Vec<_>>().join(","))
                }
            });
        }
        lines
    }

    fn gen_ngram_case(rng: &mut Rng) -> Vec<String> {
        let n = rng.range(1, 8);
        let texts: Vec<Option<String>> = (0..n).map(|_| gen_string(rng)).collect();
        let mut rid = rng.below(3);
        let rows: Vec<String> = texts
            .iter()
            .map(|t| {
                rid += 1 + rng.below(3) * (1 << (8 * rng.below(5)));
                format!("{rid}:{}", show_str(t))
            })
            .collect();
        let mut lines = vec![format!("ntrain {}", rows.join(","))];
        for _ in 0..rng.range(3, 8) {
            lines.push(format!("nq {}", show_str(&Some(gen_needle(rng, &texts)))));
        }
        lines
    }

    fn gen_e2e_case(rng: &mut Rng) -> Vec<String> {
        let kind = rng.below(5); // 0,1 zonemap; 2 bloom i; 3 bloom s; 4 ngram
        let mut lines = vec![];
        let mut texts: Vec<Option<String>> = vec![];
        let mut next_id = 0u64;
        let write = |rng: &mut Rng, lines: &mut Vec<String>, texts: &mut Vec<Option<String>>, next_id: &mut u64| {
            let n = rng.range(1, 9);
            let rows: Vec<String> = (0..n)
                .map(|_| {
                    let s: Option<String> = gen_string(rng).map(|s| s.replace('\'', "x"));
                    texts.push(s.clone());
                    format!("{}:{}:{}", show_cell(gen_cell(rng, false, 30)), show_cell(gen_cell(rng, true, 30)), show_str(&s))
                })
                .collect();
            *next_id += n;
            lines.push(format!("ewrite {}", rows.join(",")));
        };
        for _ in 0..rng.range(1, 3) {
            write(rng, &mut lines, &mut texts, &mut next_id);
        }
        if rng.chance(1, 6) {
            // deletions before the index is built (the zone-map / bloom training defect classes)
            let k = rng.range(1, 3);
            lines.push(format!("edelete {}", show_nat_list((0..k).map(|_| rng.below(next_id)))));
        }
        let col = match kind {
            0 | 1 => {
                let c = if rng.chance(1, 2) { "i" } else { "f" };
                lines.push(format!("eindex zonemap {c} {}", rng.range(1, 6)));
                c
            }
            2 | 3 => {
                let c = if kind == 2 { "i" } else { "s" };
                let (n, p) = *rng.pick(&BLOOM_CONFIGS);
                lines.push(format!("eindex bloom {c} {n} {p}"));
                c
            }
            _ => {
                lines.push("eindex ngram s".into());
                "s"
            }
        };
        let scans = |rng: &mut Rng, lines: &mut Vec<String>, texts: &[Option<String>]| {
            for _ in 0..rng.range(2, 5) {
                if col == "s" && kind == 4 {
                    let n: String = gen_needle(rng, texts).replace('\'', "x");
                    lines.push(format!("escan s contains {}", show_str(&Some(n))));
                } else if col == "s" {
                    let some: Vec<&String> = texts.iter().flatten().collect();
                    let n: String = if !some.is_empty() && rng.chance(3, 4) { (*rng.pick(&some)).clone() } else { gen_needle(rng, texts).replace('\'', "x") };
                    lines.push(format!("escan s eq {}", show_str(&Some(n))));
                } else {
                    lines.push(format!("escan {col} {}", gen_query(rng, col == "f", 30, false)));
                }
            }
        };
        scans(rng, &mut lines, &texts);
        if rng.chance(1, 2) {
            write(rng, &mut lines, &mut texts, &mut next_id);
            if rng.chance(1, 2) {
                lines.push("eoptimize".into());
            }
            if rng.chance(1, 3) {
                lines.push(format!("edelete {}", rng.below(next_id)));
            }
            scans(rng, &mut lines, &texts);
        }
        lines
    }
}

impl Prop for C20 {
    fn id(&self) -> &'static str {
        "C20"
    }
    fn budget(&self, tier: Tier) -> usize {
        match tier {
            Tier::Quick => 900,
            Tier::Thorough => 12000,
            Tier::Search => 6000,
        }
    }
    fn gen_case(&mut self, rng: &mut Rng, _tier: Tier, _idx: usize) -> Vec<String> {
        let mut lines = match rng.below(20) {
            0..=6 => Self::gen_zone_case(rng),
            7..=10 => Self::gen_bloom_case(rng, &self.bloom_nb),
            11..=16 => Self::gen_ngram_case(rng),
            _ => Self::gen_e2e_case(rng),
        };
        // malformed stream (<= 15 % of the cases): a broken token, a query before training, an unknown op
        if rng.chance(1, 8) {
            let k = rng.usize(lines.len() + 1);
            let bad = match rng.below(6) {
                0 => "zq eq x".to_string(),
                1 => "bq eq N".to_string(),
                2 => "nq 1114112".to_string(),
                3 => "ztrain t=i z=0 0:0:1".to_string(),
                4 => "frobnicate 1".to_string(),
                _ => "escan i range u u".to_string(),
            };
            lines.insert(k, bad);
            if rng.chance(1, 3) {
                lines.rotate_left(1); // queries before the training line
            }
        }
        lines
    }
    fn exec_case(&mut self, lines: &[String]) -> CaseResult {
        self.z = None;
        self.b = None;
        self.n = None;
        self.e = None;
        let mut res = CaseResult::default();
        for (ln, l) in lines.iter().enumerate() {
            let o = self.step(l, ln, &mut res);
            if o == BAD {
                res.tags.push("bad_op".into());
            }
            res.tags.push(format!("op_{}", l.split(' ').next().unwrap_or("")));
            res.outputs.push(o);
        }
        res
    }
    fn rule(&self) -> String {
        "each case is one index family: (zone map) a training stream of 1-3 fragments x 1-10 rows (Int64 or Float64 keys incl. NULL / NaN, sorted or random, zone size 1-5; 1/8 of the streams with offset gaps / fragment-id jumps = the known training defect classes) or hand-made zone statistics, then 3-7 queries (=, ranges with every bound kind incl. NULL / NaN literals, IN, IS NULL); (bloom) the same streams over Int64 or Utf8 values with 4 (items, fpp) configurations, = / IN / IS NULL probes mostly for present values; (n-gram) 1-7 texts over an alphabet with upper case, digits, blanks, punctuation and non-ASCII letters that fold to one / two / no ASCII characters, needles mostly cut out of the texts; (end to end) a real dataset of 1-3 fragments, optional deletes, create_index (ZoneMap / BloomFilter / NGram), scans, optional append + optimize_indices + delete, scans — indexed scan compared with the plain scan. 1/8 of the cases get a malformed line. A case is non-trivial if a query matched rows while the index pruned others (pure lines) / the plan used the scalar index and rows matched (end to end).".into()
    }
}

fn main() {
    std::env::set_var("LANCE_NGRAM_NUM_PARTITIONS", "4");
    let rt = tokio::runtime::Builder::new_current_thread().enable_all().build().unwrap();
    let mut c = C20 { rt, n_store: 0, z: None, b: None, n: None, e: None, zdetails: None, bloom_nb: vec![] };
    for (n, p) in BLOOM_CONFIGS {
        let mut res = CaseResult::default();
        let out = c.btrain(false, n, p, 0, vec![(0, 0, Some("1".into()))], 0, &mut res);
        let nb = out.strip_prefix("blocks nb=").and_then(|s| s.split(' ').next()).and_then(|x| x.parse().ok()).expect("bloom size probe");
        c.bloom_nb.push((n, p, nb));
    }
    run_main(c)
}
