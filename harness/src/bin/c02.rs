//! C02: at most one writer wins each version slot and published manifests never change
//! (rust/lance-table/src/io/commit.rs: ConditionalPutCommitHandler, RenameCommitHandler, the CommitLock based
//! handler, UnsafeCommitHandler as the excluded contrast, default_resolve_version, current_manifest_path).
//!
//! The REAL `CommitHandler::{commit, resolve_version_location, resolve_latest_location}` run as tasks under the
//! gate controller (`gatekit.rs`): every object-store call (gated wrapper around an in-memory `object_store`)
//! and every `CommitLock::lock` / `CommitLease::release` call (gated lock of `c02_kit.rs`) is a yield point that
//! the schedule of the case releases one at a time, with a fault decision.
//!
//! Line protocol (one output line per op line; the Lean driver `drv_c02` prints the same):
//!   cfg <condput|rename|lock|lockc|naive> <w<v>|r<v>|l>…   task i = writer of version v / reader of version v / latest reader
//!                             (lockc: the CommitLock refuses `lock(v)` with CommitConflict when version v is committed)
//!   s <task> <ok|fb|lr|dup>   release the parked call of <task>: execute | fail before | lost response | executed twice
//!   c <task>                  crash <task> where it stands
//!   end                       crash every task that is still running
//!   pv <v> / pl               a fresh reader (resolve_version_location / resolve_latest_location) run alone, fault free
//! Output: `<what> | fin=<v:c,…> | tmp=<i,…> | lock=<-|i> | t0=<next call or =result> t1=…`
//! `fin` = published manifests (version:content id = writer id), `tmp` = staging objects by the writer that put them.

#[path = "../gatekit.rs"]
#[allow(dead_code)]
mod gatekit;
#[path = "../c02_kit.rs"]
mod c02_kit;

use std::collections::{BTreeMap, HashMap};
use std::sync::atomic::Ordering;
use std::sync::{Arc, Mutex};

use c02_kit::{DupStore, GatedLock, LockCell};
use gatekit::{Controller, Fault, GatedObjectStore, Stepped};
use hcommon::*;
use lance_core::datatypes::Schema;
use lance_core::Error;
use lance_io::object_store::ObjectStore;
use lance_table::format::{DataStorageFormat, Manifest};
use lance_table::io::commit::{
    write_manifest_file_to_path, CommitError, CommitHandler, ConditionalPutCommitHandler, ManifestLocation,
    ManifestNamingScheme, RenameCommitHandler, UnsafeCommitHandler,
};
use lance_table::io::manifest::read_manifest;
use object_store::memory::InMemory;
use object_store::path::Path;

const BASE: &str = "t";
const MAX_V: u64 = 9;
const MAX_TASKS: usize = 16;

#[derive(Clone, Copy, PartialEq, Eq, Debug)]
enum Hk {
    CondPut,
    Rename,
    Lock,
    LockC,
    Naive,
}

#[derive(Clone, Copy, PartialEq, Eq, Debug)]
enum Role {
    Writer(u64),
    Reader(u64),
    Latest,
}

fn lance_store(inner: Arc<dyn object_store::ObjectStore>) -> ObjectStore {
    ObjectStore::new(inner, url::Url::parse("memory:///").unwrap(), None, None, false, true, 8, 0, None)
}

fn final_path(v: u64) -> Path {
    ManifestNamingScheme::V2.manifest_path(&Path::from(BASE), v)
}

/// the world of one case
struct World {
    raw: Arc<InMemory>,
    raw_os: ObjectStore,
    dup: Arc<DupStore>,
    lock: LockCell,
    ctl: Controller<String>,
    hk: Hk,
    roles: Vec<Role>,
    /// some call of the task was released with a fault
    faulted: Vec<bool>,
    /// staging path -> writer id
    names: HashMap<String, usize>,
    schema: Schema,
}

/// content id of the manifest stored at `p` (the writer id in its tag), read through the ungated store
async fn content_at(raw_os: &ObjectStore, p: &Path) -> Option<String> {
    match read_manifest(raw_os, p, None).await {
        Ok(m) => Some(m.tag.unwrap_or_else(|| "?".into()).trim_start_matches('w').to_string()),
        Err(_) => None,
    }
}

async fn found_result(raw_os: &ObjectStore, loc: &ManifestLocation) -> String {
    if loc.naming_scheme == ManifestNamingScheme::V1 {
        return "=fallback".to_string();
    }
    let std_path = loc.version >= 1 && loc.version <= MAX_V && loc.path == final_path(loc.version);
    match content_at(raw_os, &loc.path).await {
        Some(c) if std_path => format!("=found:{}:{c}", loc.version),
        Some(c) => format!("=found:{}:{c}@{}", loc.version, loc.path),
        None => format!("=dangling:{}", loc.version),
    }
}

impl World {
    fn new(schema: Schema) -> Self {
        let raw = Arc::new(InMemory::new());
        let dup = Arc::new(DupStore::new(raw.clone()));
        Self {
            raw_os: lance_store(raw.clone()),
            raw,
            dup,
            lock: Arc::new(Mutex::new(None)),
            ctl: Controller::new(),
            hk: Hk::CondPut,
            roles: vec![],
            faulted: vec![],
            names: HashMap::new(),
            schema,
        }
    }

    fn spawn(&mut self, role: Role) -> usize {
        let t = self.roles.len();
        self.roles.push(role);
        self.faulted.push(false);
        let h = self.ctl.handle(t);
        let os = lance_store(Arc::new(GatedObjectStore::new(self.dup.clone(), h.clone())));
        let handler: Arc<dyn CommitHandler> = match self.hk {
            Hk::CondPut => Arc::new(ConditionalPutCommitHandler),
            Hk::Rename => Arc::new(RenameCommitHandler),
            Hk::Lock => Arc::new(GatedLock { cell: self.lock.clone(), h, checks: None }),
            Hk::LockC => Arc::new(GatedLock {
                cell: self.lock.clone(),
                h,
                checks: Some((self.raw.clone() as Arc<dyn object_store::ObjectStore>, Path::from(BASE))),
            }),
            Hk::Naive => Arc::new(UnsafeCommitHandler),
        };
        let raw_os = self.raw_os.clone();
        let base = Path::from(BASE);
        match role {
            Role::Writer(v) => {
                let mut manifest =
                    Manifest::new(self.schema.clone(), Arc::new(vec![]), DataStorageFormat::default(), HashMap::new());
                manifest.version = v;
                manifest.tag = Some(format!("w{t}"));
                self.ctl.spawn(t, async move {
                    let r = handler
                        .commit(&mut manifest, None, &base, &os, write_manifest_file_to_path, ManifestNamingScheme::V2, None)
                        .await;
                    match r {
                        Ok(loc) => {
                            if loc.version == v && loc.path == final_path(v) && loc.naming_scheme == ManifestNamingScheme::V2 {
                                "=ok".to_string()
                            } else {
                                format!("=ok:bad:{}:{}", loc.version, loc.path)
                            }
                        }
                        Err(CommitError::CommitConflict) => "=conflict".to_string(),
                        Err(CommitError::OtherError(_)) => "=err".to_string(),
                    }
                });
            }
            Role::Reader(v) => {
                self.ctl.spawn(t, async move {
                    match handler.resolve_version_location(&base, v, os.inner.as_ref()).await {
                        Ok(loc) => found_result(&raw_os, &loc).await,
                        Err(Error::NotFound { .. }) => "=notfound".to_string(),
                        Err(_) => "=err".to_string(),
                    }
                });
            }
            Role::Latest => {
                self.ctl.spawn(t, async move {
                    match handler.resolve_latest_location(&base, &os).await {
                        Ok(loc) => found_result(&raw_os, &loc).await,
                        Err(Error::NotFound { .. }) => "=notfound".to_string(),
                        Err(_) => "=err".to_string(),
                    }
                });
            }
        }
        t
    }

    fn canon_path(&mut self, p: &str, seen_by: Option<usize>) -> String {
        for v in 1..=MAX_V {
            let f = final_path(v).to_string();
            if p == f {
                return format!("F{v}");
            }
            if let Some(rest) = p.strip_prefix(&f) {
                if rest.starts_with('-') {
                    if let Some(w) = self.names.get(p) {
                        return format!("T{w}");
                    }
                    if let Some(t) = seen_by {
                        self.names.insert(p.to_string(), t);
                        return format!("T{t}");
                    }
                    return "T?".into();
                }
            }
        }
        p.to_string()
    }

    /// canonical form of a gate descriptor
    fn canon_desc(&mut self, d: &str, task: usize) -> String {
        let toks: Vec<&str> = d.split(' ').collect();
        let op = toks[0];
        if op.starts_with("lk.") {
            return d.to_string();
        }
        let owner = if op == "os.put" { Some(task) } else { None };
        let mut out = vec![op.to_string()];
        for t in toks.iter().skip(1) {
            if op == "os.list" {
                continue;
            }
            out.push(self.canon_path(t, owner));
        }
        out.join(" ")
    }

    /// (published manifests version -> content id, staging objects by owner (sorted), anything else, raw bytes of every object)
    async fn objs(&mut self) -> (BTreeMap<u64, String>, Vec<String>, Vec<String>, BTreeMap<String, bytes::Bytes>) {
        let paths = gatekit::list_all(self.raw.as_ref()).await;
        let mut fin = BTreeMap::new();
        let mut tmp: Vec<(usize, String)> = vec![];
        let mut other = vec![];
        let mut bytes = BTreeMap::new();
        for p in paths {
            if let Some(b) = gatekit::read_all(self.raw.as_ref(), &p).await {
                bytes.insert(p.to_string(), b);
            }
            let c = self.canon_path(p.as_ref(), None);
            if let Some(v) = c.strip_prefix('F').and_then(|x| x.parse::<u64>().ok()) {
                fin.insert(v, content_at(&self.raw_os, &p).await.unwrap_or_else(|| "unreadable".into()));
            } else if let Some(w) = c.strip_prefix('T').and_then(|x| x.parse::<usize>().ok()) {
                tmp.push((w, c));
            } else {
                other.push(c);
            }
        }
        tmp.sort();
        (fin, tmp.into_iter().map(|(w, _)| w.to_string()).collect(), other, bytes)
    }

    fn task_state(&mut self, t: usize) -> String {
        if self.ctl.is_crashed(t) {
            return "crashed".into();
        }
        if let Some(r) = self.ctl.result(t) {
            return r;
        }
        match self.ctl.parked(t) {
            Some(d) => self.canon_desc(&d, t).replace(' ', "_"),
            None => "running".into(),
        }
    }

    async fn dump(&mut self) -> String {
        let (fin, tmp, other, _) = self.objs().await;
        let mut f: Vec<String> = fin.iter().map(|(v, c)| format!("{v}:{c}")).collect();
        f.extend(other);
        let lock = match *self.lock.lock().unwrap() {
            Some(i) => i.to_string(),
            None => "-".into(),
        };
        let n = self.roles.len();
        let ts: Vec<String> = (0..n).map(|t| format!("t{t}={}", self.task_state(t))).collect();
        format!(
            "fin={} | tmp={} | lock={lock} | {}",
            if f.is_empty() { "-".to_string() } else { f.join(",") },
            if tmp.is_empty() { "-".to_string() } else { tmp.join(",") },
            if ts.is_empty() { "-".to_string() } else { ts.join(" ") }
        )
    }
}

// ---------------------------------------------------------------------------------------------
// property oracle (independent of the Lean model); not evaluated for the naive handler, which the property excludes

#[derive(Default)]
struct Oracle {
    /// bytes of `_versions/<v>.manifest` when first observed
    first_bytes: BTreeMap<String, bytes::Bytes>,
    first_content: BTreeMap<u64, String>,
    failures: Vec<OracleFailure>,
    two_ok_seen: bool,
    overwritten_seen: bool,
}

impl Oracle {
    fn fail(&mut self, line: usize, key: &str, what: String) {
        if self.failures.len() < 8 {
            self.failures.push(OracleFailure { what, key: Some(key.into()), line });
        }
    }

    /// checks evaluated on the implementation state after every op line
    async fn check(&mut self, w: &mut World, line: usize) {
        let naive = w.hk == Hk::Naive;
        let (fin, _, _, bytes) = w.objs().await;
        // published manifests never change (bytes), never disappear
        for v in 1..=MAX_V {
            let p = final_path(v).to_string();
            match (self.first_bytes.get(&p), bytes.get(&p)) {
                (Some(a), Some(b)) if a != b => {
                    self.overwritten_seen = true;
                    if !naive {
                        self.fail(line, "final_mutated", format!("bytes of the manifest of version {v} changed after it was published"));
                    }
                }
                (Some(_), None) => {
                    if !naive {
                        self.fail(line, "final_mutated", format!("the published manifest of version {v} disappeared"));
                    }
                }
                (None, Some(b)) => {
                    self.first_bytes.insert(p, b.clone());
                    if let Some(c) = fin.get(&v) {
                        self.first_content.insert(v, c.clone());
                    }
                }
                _ => {}
            }
        }
        // per version: at most one Ok; Ok ⇒ own manifest published; Conflict ⇒ slot taken; no fault ⇒ Ok or Conflict by another
        let mut oks: BTreeMap<u64, Vec<usize>> = BTreeMap::new();
        for t in 0..w.roles.len() {
            let Some(r) = w.ctl.result(t) else { continue };
            match w.roles[t] {
                Role::Writer(v) => {
                    let cur = fin.get(&v).cloned();
                    if r.starts_with("=ok") {
                        oks.entry(v).or_default().push(t);
                        if r != "=ok" {
                            self.fail(line, "bad_location", format!("writer {t} got {r}"));
                        }
                        if !naive && cur.as_deref() != Some(t.to_string().as_str()) {
                            self.fail(line, "ok_not_published", format!("writer {t} of version {v} returned Ok but the manifest path holds {cur:?}"));
                        }
                    } else if r == "=conflict" {
                        if cur.is_none() {
                            self.fail(line, "conflict_without_manifest", format!("writer {t} got CommitConflict but version {v} has no manifest"));
                        }
                        if !w.faulted[t] && cur.as_deref() == Some(t.to_string().as_str()) {
                            self.fail(line, "winner_told_conflict", format!("writer {t} (no fault injected) got CommitConflict but its own manifest is the published one"));
                        }
                    } else if r == "=err" {
                        if !w.faulted[t] {
                            self.fail(line, "error_without_fault", format!("writer {t} (no fault injected) failed with an error that is not CommitConflict"));
                        }
                    } else {
                        self.fail(line, "bad_result", format!("writer {t} returned {r}"));
                    }
                }
                Role::Reader(_) | Role::Latest => {
                    if let Some(rest) = r.strip_prefix("=found:") {
                        let mut it = rest.splitn(2, ':');
                        let v: u64 = it.next().and_then(|x| x.parse().ok()).unwrap_or(0);
                        let c = it.next().unwrap_or("");
                        if let Role::Reader(want) = w.roles[t] {
                            if want != v {
                                self.fail(line, "reader_wrong_version", format!("reader {t} asked for version {want}, got {r}"));
                            }
                        }
                        if !naive && self.first_content.get(&v).map(|x| x.as_str()) != Some(c) {
                            self.fail(line, "reader_mismatch", format!("reader {t} resolved {r} but version {v} was published with content {:?}", self.first_content.get(&v)));
                        }
                    } else if r.starts_with("=dangling") {
                        self.fail(line, "reader_dangling", format!("reader {t} returned a V2 location without an object: {r}"));
                    } else if r == "=err" && !w.faulted[t] {
                        self.fail(line, "error_without_fault", format!("reader {t} (no fault injected) failed"));
                    }
                }
            }
        }
        for (v, ts) in oks {
            if ts.len() > 1 {
                self.two_ok_seen = true;
                if !naive {
                    self.fail(line, "two_winners", format!("commit returned Ok for version {v} to writers {ts:?}"));
                }
            }
        }
    }
}

// ---------------------------------------------------------------------------------------------

struct C02 {
    rt: tokio::runtime::Runtime,
    schema: Schema,
}

impl C02 {
    fn new() -> Self {
        let arrow = arrow_schema::Schema::new(vec![arrow_schema::Field::new("x", arrow_schema::DataType::Int32, true)]);
        Self { rt: gatekit::runtime(), schema: Schema::try_from(&arrow).unwrap() }
    }
}

fn parse_spec(s: &str) -> Option<Role> {
    if s == "l" {
        return Some(Role::Latest);
    }
    if !s.is_ascii() || s.is_empty() {
        return None;
    }
    let (k, v) = s.split_at(1);
    if v.is_empty() || !v.bytes().all(|b| b.is_ascii_digit()) || v.len() > 3 {
        return None;
    }
    let v: u64 = v.parse().ok()?;
    if !(1..=MAX_V).contains(&v) {
        return None;
    }
    match k {
        "w" => Some(Role::Writer(v)),
        "r" => Some(Role::Reader(v)),
        _ => None,
    }
}

/// `ok|fb|lr|dup` -> (gate decision, duplicate the executed call, token)
fn parse_fault(s: &str) -> Option<(Fault, bool)> {
    match s {
        "ok" => Some((Fault::None, false)),
        "fb" => Some((Fault::FailBefore, false)),
        "lr" => Some((Fault::LostResponse, false)),
        "dup" => Some((Fault::None, true)),
        _ => None,
    }
}

fn is_nat(s: &str) -> bool {
    !s.is_empty() && s.len() <= 6 && s.bytes().all(|b| b.is_ascii_digit())
}

async fn exec(schema: Schema, lines: &[String]) -> CaseResult {
    let mut res = CaseResult::default();
    let mut w = World::new(schema);
    let mut or = Oracle::default();
    let mut configured = false;
    let mut tags: BTreeMap<String, ()> = BTreeMap::new();
    for (ln, line) in lines.iter().enumerate() {
        let toks: Vec<&str> = line.split_whitespace().collect();
        let out: String = match toks.as_slice() {
            ["cfg", hn, specs @ ..] if !configured => {
                let hk = match *hn {
                    "condput" => Some(Hk::CondPut),
                    "rename" => Some(Hk::Rename),
                    "lock" => Some(Hk::Lock),
                    "lockc" => Some(Hk::LockC),
                    "naive" => Some(Hk::Naive),
                    _ => None,
                };
                let roles: Option<Vec<Role>> = specs.iter().map(|s| parse_spec(s)).collect();
                match (hk, roles) {
                    (Some(hk), Some(roles)) if !roles.is_empty() && roles.len() <= 6 => {
                        configured = true;
                        w.hk = hk;
                        tags.insert(format!("handler:{hn}"), ());
                        for r in roles {
                            w.spawn(r);
                        }
                        if !w.ctl.quiesce().await {
                            "stuck".to_string()
                        } else {
                            format!("init | {}", w.dump().await)
                        }
                    }
                    _ => "bad".to_string(),
                }
            }
            ["s", t, f] if configured && is_nat(t) => match (t.parse::<usize>(), parse_fault(f)) {
                (Ok(t), Some((fault, dup))) => {
                    let is_reader = t < w.roles.len() && !matches!(w.roles[t], Role::Writer(_));
                    let before = if is_reader { Some(w.objs().await.3) } else { None };
                    w.dup.dup_next.store(dup, Ordering::SeqCst);
                    let stepped = if t < w.roles.len() { w.ctl.step(t, fault).await } else { Stepped::Noop };
                    w.dup.dup_next.store(false, Ordering::SeqCst);
                    match stepped {
                        Stepped::Noop => format!("noop | {}", w.dump().await),
                        Stepped::Released(d) => {
                            if *f != "ok" {
                                w.faulted[t] = true;
                            }
                            if let Some(b) = before {
                                if b != w.objs().await.3 {
                                    or.fail(ln, "reader_wrote", format!("a call of reader {t} ({d}) changed the object store"));
                                }
                            }
                            let d = w.canon_desc(&d, t);
                            tags.insert(format!("call:{}", d.split(' ').next().unwrap()), ());
                            tags.insert(format!("fault:{f}"), ());
                            format!("{t} {f} {d} | {}", w.dump().await)
                        }
                    }
                }
                _ => "bad".to_string(),
            },
            ["c", t] if configured && is_nat(t) => match t.parse::<usize>() {
                Ok(t) => {
                    let r = if t < w.roles.len() { w.ctl.crash(t) } else { Stepped::Noop };
                    w.ctl.quiesce().await;
                    match r {
                        Stepped::Noop => format!("noop | {}", w.dump().await),
                        Stepped::Released(_) => {
                            tags.insert("fault:crash".into(), ());
                            format!("crash {t} | {}", w.dump().await)
                        }
                    }
                }
                _ => "bad".to_string(),
            },
            ["end"] if configured => {
                w.ctl.abort_all();
                w.ctl.quiesce().await;
                format!("end | {}", w.dump().await)
            }
            [p @ ("pv" | "pl"), rest @ ..] if configured && w.roles.len() < MAX_TASKS => {
                let role = match (*p, rest) {
                    ("pv", [v]) if is_nat(v) => match v.parse::<u64>() {
                        Ok(v) if (1..=MAX_V).contains(&v) => Some(Role::Reader(v)),
                        _ => None,
                    },
                    ("pl", []) => Some(Role::Latest),
                    _ => None,
                };
                match role {
                    None => "bad".to_string(),
                    Some(role) => {
                        let (fin_before, _, _, bytes_before) = w.objs().await;
                        let t = w.spawn(role);
                        w.ctl.quiesce().await;
                        let mut n = 0;
                        while !w.ctl.is_finished(t) && n < 8 {
                            w.ctl.step(t, Fault::None).await;
                            n += 1;
                        }
                        let r = w.task_state(t);
                        tags.insert(format!("probe:{}", r.split(':').next().unwrap()), ());
                        // probe oracle: a fault-free reader alone sees exactly what is published and writes nothing
                        if w.hk != Hk::Naive {
                            let want = match role {
                                Role::Reader(v) => match fin_before.get(&v) {
                                    Some(c) => format!("=found:{v}:{c}"),
                                    None => "=fallback".to_string(),
                                },
                                _ => match fin_before.iter().next_back() {
                                    Some((v, c)) => format!("=found:{v}:{c}"),
                                    None => "=notfound".to_string(),
                                },
                            };
                            if r != want {
                                or.fail(ln, "probe_mismatch", format!("a fault-free reader alone returned {r}, the store publishes {want}"));
                            }
                        }
                        if bytes_before != w.objs().await.3 {
                            or.fail(ln, "reader_wrote", "a probe reader changed the object store".to_string());
                        }
                        format!("probe {r} | {}", w.dump().await)
                    }
                }
            }
            _ => "bad".to_string(),
        };
        if configured {
            or.check(&mut w, ln).await;
        }
        res.outputs.push(out);
    }
    let mut nontrivial = false;
    if configured {
        let mut n_ok = 0;
        let mut n_conf = 0;
        for t in 0..w.roles.len() {
            if let Some(r) = w.ctl.result(t) {
                let k = r.split(':').next().unwrap().trim_start_matches('=').to_string();
                if k == "ok" {
                    n_ok += 1;
                }
                if k == "conflict" {
                    n_conf += 1;
                }
                tags.insert(format!("result:{k}"), ());
            }
        }
        if n_ok >= 1 && n_conf >= 1 {
            tags.insert("race:winner+conflict".into(), ());
        }
        tags.insert(format!("tasks:{}", w.roles.len().min(8)), ());
        if *w.dup.dups_done.lock().unwrap() > 0 {
            tags.insert("dup:executed_twice".into(), ());
        }
        if w.hk == Hk::Naive {
            // the hypothesis of the property is necessary: record what the excluded handler does
            if or.two_ok_seen {
                tags.insert("naive:two_ok".into(), ());
            }
            if or.overwritten_seen {
                tags.insert("naive:overwritten".into(), ());
            }
        }
        let nw = w.roles.iter().filter(|r| matches!(r, Role::Writer(_))).count();
        nontrivial = !or.first_bytes.is_empty() && nw >= 2;
    } else {
        tags.insert("malformed".into(), ());
    }
    w.ctl.abort_all();
    res.failures = or.failures;
    res.tags = tags.into_keys().collect();
    res.nontrivial = nontrivial;
    res
}

// ---- exhaustive part: 2 writers of version 1 per handler, all binary schedules of a handler specific length,
// fault free and with one fault (fb / lr / dup / crash) at every position

/// (handler, schedule length)
const EXH: [(&str, usize); 5] = [("condput", 3), ("rename", 7), ("lock", 10), ("lockc", 9), ("naive", 3)];
const KINDS: usize = 4;

fn exh_free_total() -> usize {
    EXH.iter().map(|(_, l)| 1usize << l).sum()
}
fn exh_fault_total() -> usize {
    EXH.iter().take(4).map(|(_, l)| (1usize << l) * l * KINDS).sum()
}

fn exh_case(h: &str, len: usize, sched: usize, fault: Option<(usize, usize)>) -> Vec<String> {
    let mut lines = vec![format!("cfg {h} w1 w1")];
    for p in 0..len {
        let t = (sched >> p) & 1;
        match fault {
            Some((fp, k)) if fp == p => match k {
                0 => lines.push(format!("s {t} fb")),
                1 => lines.push(format!("s {t} lr")),
                2 => lines.push(format!("s {t} dup")),
                _ => lines.push(format!("c {t}")),
            },
            _ => lines.push(format!("s {t} ok")),
        }
    }
    lines.push("end".into());
    lines.push("pv 1".into());
    lines.push("pl".into());
    lines
}

fn gen_free(mut idx: usize) -> Vec<String> {
    for (h, l) in EXH {
        let n = 1usize << l;
        if idx < n {
            return exh_case(h, l, idx, None);
        }
        idx -= n;
    }
    unreachable!()
}

/// idx-th single-fault case in a fixed order (handler, schedule, position, kind)
fn gen_faulted(mut idx: usize) -> Vec<String> {
    for (h, l) in EXH.iter().take(4) {
        let n = (1usize << l) * l * KINDS;
        if idx < n {
            let pk = idx % (l * KINDS);
            let s = idx / (l * KINDS);
            return exh_case(h, *l, s, Some((pk / KINDS, pk % KINDS)));
        }
        idx -= n;
    }
    unreachable!()
}

fn gen_random(rng: &mut Rng) -> Vec<String> {
    let h = *rng.pick(&["condput", "rename", "rename", "lock", "lock", "lockc", "condput", "naive"]);
    let n = rng.range(2, 5) as usize;
    let nv = rng.range(1, 3);
    let mut specs = vec![];
    let mut n_w = 0;
    for i in 0..n {
        let k = if i < 2 { 0 } else { rng.below(10) };
        if k < 6 {
            n_w += 1;
            specs.push(format!("w{}", rng.range(1, nv)));
        } else if k < 8 {
            specs.push(format!("r{}", rng.range(1, nv)));
        } else {
            specs.push("l".to_string());
        }
    }
    let _ = n_w;
    let malformed = rng.chance(1, 10);
    let mut lines = vec![format!("cfg {h} {}", specs.join(" "))];
    let mut steps = vec![0usize; n];
    let per = match h {
        "lock" | "lockc" => 6,
        "rename" => 4,
        _ => 2,
    };
    let len = rng.range(3, (per * n) as u64 + 2) as usize;
    let fault_pct = *rng.pick(&[0u64, 0, 10, 25, 50]);
    for _ in 0..len {
        if malformed && rng.chance(1, 5) {
            let junk = ["s 9 ok", "s 0 zz", "c 12", "cfg rename w1", "x", "s 0", "s 1 alt7", "s -1 ok", "pv 0", "pv", "pl 1", "cfg lock w0"];
            lines.push(rng.pick(&junk).to_string());
            continue;
        }
        if rng.chance(1, 25) {
            lines.push(if rng.chance(1, 2) { format!("pv {}", rng.range(1, nv)) } else { "pl".to_string() });
            continue;
        }
        let mut t = rng.usize(n);
        for _ in 0..3 {
            if steps[t] < per {
                break;
            }
            t = rng.usize(n);
        }
        steps[t] += 1;
        if rng.below(100) < fault_pct {
            match rng.below(4) {
                0 => lines.push(format!("s {t} fb")),
                1 => lines.push(format!("s {t} lr")),
                2 => lines.push(format!("s {t} dup")),
                _ => lines.push(format!("c {t}")),
            }
        } else {
            lines.push(format!("s {t} ok"));
        }
    }
    // often: let everybody that can still run finish, in a random order
    if rng.chance(2, 3) {
        for _ in 0..(per * n) {
            lines.push(format!("s {} ok", rng.usize(n)));
        }
    }
    lines.push("end".into());
    for v in 1..=nv {
        lines.push(format!("pv {v}"));
    }
    lines.push("pl".into());
    lines
}

const QUICK_FAULTED: usize = 3000;
const QUICK_RANDOM: usize = 3000;

impl Prop for C02 {
    fn id(&self) -> &'static str {
        "C02"
    }

    fn budget(&self, tier: Tier) -> usize {
        match tier {
            Tier::Quick => exh_free_total() + QUICK_FAULTED + QUICK_RANDOM,
            Tier::Thorough => exh_free_total() + exh_fault_total() + 30000,
            Tier::Search => exh_free_total() + exh_fault_total() + 10000,
        }
    }

    fn gen_case(&mut self, rng: &mut Rng, tier: Tier, idx: usize) -> Vec<String> {
        let free = exh_free_total();
        if idx < free {
            return gen_free(idx);
        }
        let idx = idx - free;
        let all = exh_fault_total();
        if tier == Tier::Quick {
            if idx < QUICK_FAULTED {
                // a seed dependent, evenly spread sample of the single-fault space
                let stride = all / QUICK_FAULTED;
                let off = (rng.0 as usize) % stride.max(1);
                return gen_faulted((idx * stride + off) % all);
            }
        } else if idx < all {
            return gen_faulted(idx);
        }
        gen_random(rng)
    }

    fn exec_case(&mut self, lines: &[String]) -> CaseResult {
        let schema = self.schema.clone();
        self.rt.block_on(exec(schema, lines))
    }

    fn rule(&self) -> String {
        "two writers of the same version under EVERY binary schedule of length 3 (conditional put), 7 (rename), 10 (lock handler), 9 (lock handler with a CommitLock that refuses committed versions), 3 (UnsafeCommitHandler, contrast only), fault free; the same schedules with one fault (fail-before / lost response / duplicated request / crash) at every position (quick: an evenly spread seed-dependent sample of 3000, thorough: all); then seeded random cases: 2-5 tasks (writers of 1-3 versions, version readers, latest readers), random schedules with 0-50% faulty releases, fault-free probes of fresh readers in the middle and at the end; <= 10% malformed lines. Non-trivial = at least two writers and some manifest got published.".into()
    }
}

fn main() {
    run_main(C02::new())
}
