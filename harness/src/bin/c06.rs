//! C06: time travel is immutable.
//!
//! Random histories (<= 12 operations) on a REAL lance table in a temporary directory.  Every version is SNAPSHOTTED
//! right after its commit (schema field names + ids, ordered rows with all columns plus `_rowid` / `_rowaddr`,
//! per-fragment id / physical rows / deletion count / deletion-file identity / data-file paths, the config map, the
//! index list).  After EVERY later step every version that is still listed is re-read twice and compared with its
//! snapshot: through a FRESH session (`checkout_version(v)` on a newly opened dataset) and through ONE session shared by
//! all re-reads of the case (stale-cache class).  Detached versions are re-read by their version number, tagged
//! versions also through the tag name.
//!
//! Op lines (rows: canonical forms of `tablekit.rs`; Int64 columns `c0, c1, …`; `<ver>` is `<n>` or `~<j>` = latest - j):
//!
//! ```text
//! cfg v2=<0|1> s=<0|1>            v2 manifest names, stable row ids; new empty table directory
//! create    f=<n> <rows>          Dataset::write(Create), max_rows_per_file = n
//! append    f=<n> <rows>          Dataset::write(Append)          overwrite f=<n> <rows>   Dataset::write(Overwrite)
//! dappend   f=<n> <rows>          execute_uncommitted + CommitBuilder::with_detached(true)
//! orphan    f=<n> <rows>          execute_uncommitted, never committed (a write that crashed before its commit)
//! delete <x>                      Dataset::delete("c0 >= x")
//! sdelete <x> <y>                 x < y: delete("c0 >= y"), then through a handle opened BEFORE it delete("c0 >= x AND c0 < y")
//!                                 (the second commit is rebased: deletion vectors merged, a new deletion file written)
//! update <x> <y>                  UpdateBuilder: set c1 = y where c0 >= x
//! upsert <rows>                   MergeInsertBuilder on c0 (matched: update all, not matched: insert)
//! compact | index | dropindex | addcol | dropcol | config <n> | restore <ver>
//! tag <name> <ver> | untag <name>                Tags::create / Tags::delete
//! cleanup <ver> <unv 0|1> <errtag 0|1>           cleanup_with_policy(before_version, delete_unverified, error_if_tagged_old_versions)
//! branch <name> <ver> | bdelete <name> <x> | delbranch <name>      create_branch from main@ver, delete on the branch, delete_branch
//! ```
//!
//! Output (the Lean driver `drv_c06` prints the same line from the model):
//! `<ok v | ok D | ok | ok removed=<n> | err kind> | L=<latest> V=<versions> | <v:K:sorted rows:#indices:cfg>… |
//!  D=<views of detached versions> | T=<tag:version,…>`
//!
//! Oracle (independent of the Lean model): see `exec_case`.

#[path = "../tablekit.rs"]
#[allow(dead_code)]
mod tablekit;

use std::collections::{BTreeMap, BTreeSet};
use std::sync::Arc;

use arrow_array::{RecordBatch, RecordBatchIterator};
use hcommon::*;
use lance::dataset::builder::DatasetBuilder;
use lance::dataset::cleanup::CleanupPolicy;
use lance::dataset::optimize::{compact_files, CompactionOptions};
use lance::dataset::{
    CommitBuilder, InsertBuilder, MergeInsertBuilder, NewColumnTransform, ReadParams, UpdateBuilder, WhenMatched,
    WhenNotMatched, WriteDestination, WriteMode, WriteParams,
};
use lance::session::Session;
use lance::Dataset;
use lance_index::scalar::ScalarIndexParams;
use lance_index::{DatasetIndexExt, IndexType};
use tablekit::{canon_err, Kit, Row, ScanOpts, SchemaSpec};

// ------------------------------------------------------------------------------------------------
// grammar

#[derive(Clone, Copy, Debug, PartialEq, Eq)]
struct Cfg {
    v2: bool,
    stable: bool,
}

impl Cfg {
    fn show(&self) -> String {
        format!("cfg v2={} s={}", self.v2 as u8, self.stable as u8)
    }
    fn parse(toks: &[&str]) -> Option<Self> {
        if toks.len() != 3 || toks[0] != "cfg" {
            return None;
        }
        let b = |s: &str, p: &str| match s.strip_prefix(p)? {
            "0" => Some(false),
            "1" => Some(true),
            _ => None,
        };
        Some(Self { v2: b(toks[1], "v2=")?, stable: b(toks[2], "s=")? })
    }
}

/// `<n>` or `~<j>` (latest - j; 0 when j > latest)
#[derive(Clone, Copy, Debug, PartialEq, Eq)]
enum VRef {
    Abs(u64),
    Rel(u64),
}

impl VRef {
    fn parse(s: &str) -> Option<Self> {
        match s.strip_prefix('~') {
            Some(r) => parse_nat(r).map(VRef::Rel),
            None => parse_nat(s).map(VRef::Abs),
        }
    }
    fn resolve(&self, latest: u64) -> u64 {
        match self {
            VRef::Abs(n) => *n,
            VRef::Rel(j) => latest.saturating_sub(*j),
        }
    }
}

#[derive(Clone, Debug, PartialEq)]
enum Op {
    Create { f: usize, rows: Vec<Row> },
    Append { f: usize, rows: Vec<Row> },
    Overwrite { f: usize, rows: Vec<Row> },
    DAppend { f: usize, rows: Vec<Row> },
    Orphan { f: usize, rows: Vec<Row> },
    Delete(i64),
    /// two concurrent deletes through handles on the same version: `c0 >= y`, then (stale) `c0 >= x AND c0 < y`
    SDelete(i64, i64),
    Update(i64, i64),
    Upsert { rows: Vec<Row> },
    Compact,
    Index,
    DropIndex,
    AddCol,
    DropCol,
    Config(u64),
    Restore(VRef),
    Tag(String, VRef),
    Untag(String),
    Cleanup { before: VRef, unv: bool, errtag: bool },
    Branch(String, VRef),
    BDelete(String, i64),
    DelBranch(String),
}

fn parse_nat(s: &str) -> Option<u64> {
    if s.is_empty() || s.len() > 18 || !s.bytes().all(|b| b.is_ascii_digit()) {
        return None;
    }
    s.parse().ok()
}
fn parse_int(s: &str) -> Option<i64> {
    tablekit::parse_cell(s)?
}
fn parse_name(s: &str) -> Option<String> {
    if s.is_empty() || s.len() > 8 || !s.bytes().all(|b| b.is_ascii_lowercase() || b.is_ascii_digit()) {
        return None;
    }
    Some(s.to_string())
}
fn parse_bit(s: &str) -> Option<bool> {
    match s {
        "0" => Some(false),
        "1" => Some(true),
        _ => None,
    }
}

impl Op {
    fn kind(&self) -> &'static str {
        match self {
            Op::Create { .. } => "create",
            Op::Append { .. } => "append",
            Op::Overwrite { .. } => "overwrite",
            Op::DAppend { .. } => "dappend",
            Op::Orphan { .. } => "orphan",
            Op::Delete(_) => "delete",
            Op::SDelete(..) => "sdelete",
            Op::Update(..) => "update",
            Op::Upsert { .. } => "upsert",
            Op::Compact => "compact",
            Op::Index => "index",
            Op::DropIndex => "dropindex",
            Op::AddCol => "addcol",
            Op::DropCol => "dropcol",
            Op::Config(_) => "config",
            Op::Restore(_) => "restore",
            Op::Tag(..) => "tag",
            Op::Untag(_) => "untag",
            Op::Cleanup { .. } => "cleanup",
            Op::Branch(..) => "branch",
            Op::BDelete(..) => "bdelete",
            Op::DelBranch(_) => "delbranch",
        }
    }
    fn parse(toks: &[&str]) -> Option<Self> {
        let rows_f = |toks: &[&str]| -> Option<(usize, Vec<Row>)> {
            if toks.len() != 3 {
                return None;
            }
            let f = parse_nat(toks[1].strip_prefix("f=")?)? as usize;
            if f == 0 || f > 1000 {
                return None;
            }
            Some((f, tablekit::parse_rows(toks[2])?))
        };
        Some(match *toks.first()? {
            "create" => {
                let (f, rows) = rows_f(toks)?;
                Op::Create { f, rows }
            }
            "append" => {
                let (f, rows) = rows_f(toks)?;
                Op::Append { f, rows }
            }
            "overwrite" => {
                let (f, rows) = rows_f(toks)?;
                Op::Overwrite { f, rows }
            }
            "dappend" => {
                let (f, rows) = rows_f(toks)?;
                Op::DAppend { f, rows }
            }
            "orphan" => {
                let (f, rows) = rows_f(toks)?;
                Op::Orphan { f, rows }
            }
            "delete" if toks.len() == 2 => Op::Delete(parse_int(toks[1])?),
            "sdelete" if toks.len() == 3 => {
                let (x, y) = (parse_int(toks[1])?, parse_int(toks[2])?);
                if x >= y {
                    return None;
                }
                Op::SDelete(x, y)
            }
            "update" if toks.len() == 3 => Op::Update(parse_int(toks[1])?, parse_int(toks[2])?),
            "upsert" if toks.len() == 2 => Op::Upsert { rows: tablekit::parse_rows(toks[1])? },
            "compact" if toks.len() == 1 => Op::Compact,
            "index" if toks.len() == 1 => Op::Index,
            "dropindex" if toks.len() == 1 => Op::DropIndex,
            "addcol" if toks.len() == 1 => Op::AddCol,
            "dropcol" if toks.len() == 1 => Op::DropCol,
            "config" if toks.len() == 2 => Op::Config(parse_nat(toks[1])?),
            "restore" if toks.len() == 2 => Op::Restore(VRef::parse(toks[1])?),
            "tag" if toks.len() == 3 => Op::Tag(parse_name(toks[1])?, VRef::parse(toks[2])?),
            "untag" if toks.len() == 2 => Op::Untag(parse_name(toks[1])?),
            "cleanup" if toks.len() == 4 => {
                Op::Cleanup { before: VRef::parse(toks[1])?, unv: parse_bit(toks[2])?, errtag: parse_bit(toks[3])? }
            }
            "branch" if toks.len() == 3 => Op::Branch(parse_name(toks[1])?, VRef::parse(toks[2])?),
            "bdelete" if toks.len() == 3 => Op::BDelete(parse_name(toks[1])?, parse_int(toks[2])?),
            "delbranch" if toks.len() == 2 => Op::DelBranch(parse_name(toks[1])?),
            _ => return None,
        })
    }
}

// ------------------------------------------------------------------------------------------------
// running one operation on the real code

#[derive(Debug)]
enum OpErr {
    Lance(lance::Error),
    /// interpreter-level rejection (same rule in the Lean driver)
    Rule(&'static str),
}
impl From<lance::Error> for OpErr {
    fn from(e: lance::Error) -> Self {
        Self::Lance(e)
    }
}

enum Done {
    Version(u64),
    Plain,
    Removed(u64),
}

fn width_ok(k: usize, rows: &[Row]) -> bool {
    k > 0 && rows.iter().all(|r| r.len() == k)
}

fn reader(k: usize, rows: &[Row]) -> RecordBatchIterator<std::vec::IntoIter<std::result::Result<RecordBatch, arrow_schema::ArrowError>>> {
    let spec = SchemaSpec::ints(k);
    let bs = if rows.is_empty() { vec![] } else { vec![Ok(spec.batch(rows))] };
    RecordBatchIterator::new(bs.into_iter(), spec.arrow_schema())
}

async fn open(uri: &str, version: Option<u64>, session: Arc<Session>) -> lance::Result<Dataset> {
    let mut b = DatasetBuilder::from_uri(uri).with_read_params(ReadParams { session: Some(session), ..Default::default() });
    if let Some(v) = version {
        b = b.with_version(v);
    }
    b.load().await
}

fn write_params(cfg: &Cfg, mode: WriteMode, f: usize) -> WriteParams {
    WriteParams {
        mode,
        max_rows_per_file: f,
        enable_stable_row_ids: cfg.stable,
        enable_v2_manifest_paths: cfg.v2,
        session: Some(Arc::new(Session::default())),
        auto_cleanup: None,
        skip_auto_cleanup: true,
        ..Default::default()
    }
}

async fn do_op(cfg: Cfg, op: &Op, uri: &str, branches: &BTreeSet<String>) -> Result<Done, OpErr> {
    let fresh = || Arc::new(Session::default());
    if let Op::Create { f, rows } = op {
        let k = rows.first().map(|r| r.len()).unwrap_or(2);
        if !width_ok(k, rows) {
            return match open(uri, None, fresh()).await {
                Ok(_) => Err(OpErr::Rule("already_exists")),
                Err(_) => Err(OpErr::Rule("width")),
            };
        }
        let p = write_params(&cfg, WriteMode::Create, *f);
        let ds = Dataset::write(reader(k, rows), uri, Some(p)).await?;
        return Ok(Done::Version(ds.manifest().version));
    }
    let mut ds = open(uri, None, fresh()).await?;
    let k = ds.schema().fields.len();
    let latest = ds.manifest().version;
    match op {
        Op::Append { rows, .. } | Op::DAppend { rows, .. } | Op::Orphan { rows, .. } | Op::Upsert { rows } => {
            if !width_ok(k, rows) {
                return Err(OpErr::Rule("width"));
            }
        }
        Op::Overwrite { rows, .. } => {
            if !width_ok(rows.first().map(|r| r.len()).unwrap_or(k), rows) {
                return Err(OpErr::Rule("width"));
            }
        }
        _ => {}
    }
    match op {
        Op::Create { .. } => unreachable!(),
        Op::Append { f, rows } => {
            let p = write_params(&cfg, WriteMode::Append, *f);
            let ds = Dataset::write(reader(k, rows), WriteDestination::Dataset(Arc::new(ds)), Some(p)).await?;
            Ok(Done::Version(ds.manifest().version))
        }
        Op::Overwrite { f, rows } => {
            let k = rows.first().map(|r| r.len()).unwrap_or(k);
            let p = write_params(&cfg, WriteMode::Overwrite, *f);
            let ds = Dataset::write(reader(k, rows), WriteDestination::Dataset(Arc::new(ds)), Some(p)).await?;
            Ok(Done::Version(ds.manifest().version))
        }
        Op::DAppend { f, rows } | Op::Orphan { f, rows } => {
            let p = write_params(&cfg, WriteMode::Append, *f);
            let dsa = Arc::new(ds);
            let spec = SchemaSpec::ints(k);
            let batches = if rows.is_empty() { vec![] } else { vec![spec.batch(rows)] };
            let txn = InsertBuilder::new(WriteDestination::Dataset(dsa.clone())).with_params(&p).execute_uncommitted(batches).await?;
            if matches!(op, Op::Orphan { .. }) {
                // the data files are written, the transaction is dropped: a write that stopped before its commit
                drop(txn);
                return Ok(Done::Plain);
            }
            let out = CommitBuilder::new(WriteDestination::Dataset(dsa)).with_detached(true).execute(txn).await?;
            Ok(Done::Version(out.manifest().version))
        }
        Op::Delete(x) => {
            ds.delete(&format!("c0 >= {x}")).await?;
            Ok(Done::Version(ds.manifest().version))
        }
        Op::SDelete(x, y) => {
            // the second delete plans on the version the first one also read: its commit is rebased over the first
            // (conflict_resolver.rs merges the deletion vectors and writes a NEW deletion file)
            let mut stale = open(uri, Some(latest), fresh()).await?;
            ds.delete(&format!("c0 >= {y}")).await?;
            stale.delete(&format!("c0 >= {x} AND c0 < {y}")).await?;
            Ok(Done::Version(stale.manifest().version))
        }
        Op::Update(x, y) => {
            let r = UpdateBuilder::new(Arc::new(ds))
                .update_where(&format!("c0 >= {x}"))?
                .set("c1", &y.to_string())?
                .build()?
                .execute()
                .await?;
            Ok(Done::Version(r.new_dataset.manifest().version))
        }
        Op::Upsert { rows } => {
            let mut b = MergeInsertBuilder::try_new(Arc::new(ds), vec!["c0".to_string()])?;
            b.when_matched(WhenMatched::UpdateAll).when_not_matched(WhenNotMatched::InsertAll);
            let job = b.try_build()?;
            let (nd, _stats) = job.execute_reader(Box::new(reader(k, rows))).await?;
            Ok(Done::Version(nd.manifest().version))
        }
        Op::Compact => {
            let opts = CompactionOptions { target_rows_per_fragment: 1000, ..Default::default() };
            let plan = lance::dataset::optimize::plan_compaction(&ds, &opts).await?;
            if plan.num_tasks() > 1 {
                return Err(OpErr::Rule("multi_bin"));
            }
            compact_files(&mut ds, opts, None).await?;
            Ok(Done::Version(ds.manifest().version))
        }
        Op::Index => {
            ds.create_index(&["c0"], IndexType::BTree, Some("i0".into()), &ScalarIndexParams::default(), true).await?;
            Ok(Done::Version(ds.manifest().version))
        }
        Op::DropIndex => {
            ds.drop_index("i0").await?;
            Ok(Done::Version(ds.manifest().version))
        }
        Op::AddCol => {
            ds.add_columns(NewColumnTransform::SqlExpressions(vec![(format!("c{k}"), "c0 + 1".to_string())]), None, None).await?;
            Ok(Done::Version(ds.manifest().version))
        }
        Op::DropCol => {
            let name = format!("c{}", k - 1);
            ds.drop_columns(&[name.as_str()]).await?;
            Ok(Done::Version(ds.manifest().version))
        }
        Op::Config(n) => {
            ds.update_config([("k".to_string(), n.to_string())]).await?;
            Ok(Done::Version(ds.manifest().version))
        }
        Op::Restore(v) => {
            let mut old = ds.checkout_version(v.resolve(latest)).await?;
            old.restore().await?;
            Ok(Done::Version(old.manifest().version))
        }
        Op::Tag(name, v) => {
            ds.tags().create(name, v.resolve(latest)).await?;
            Ok(Done::Plain)
        }
        Op::Untag(name) => {
            ds.tags().delete(name).await?;
            Ok(Done::Plain)
        }
        Op::Cleanup { before, unv, errtag } => {
            let policy = CleanupPolicy {
                before_timestamp: None,
                before_version: Some(before.resolve(latest)),
                delete_unverified: *unv,
                error_if_tagged_old_versions: *errtag,
            };
            let stats = ds.cleanup_with_policy(policy).await?;
            Ok(Done::Removed(stats.old_versions))
        }
        Op::Branch(name, v) => {
            if branches.contains(name) {
                return Err(OpErr::Rule("branch_exists"));
            }
            let v = v.resolve(latest);
            let listed: Vec<u64> = ds.versions().await?.iter().map(|x| x.version).collect();
            if !listed.contains(&v) {
                return Err(OpErr::Rule("not_found"));
            }
            ds.create_branch(name, v, None).await?;
            Ok(Done::Plain)
        }
        Op::BDelete(name, x) => {
            if !branches.contains(name) {
                return Err(OpErr::Rule("no_branch"));
            }
            let mut b = ds.checkout_branch(name).await?;
            b.delete(&format!("c0 >= {x}")).await?;
            Ok(Done::Plain)
        }
        Op::DelBranch(name) => {
            if !branches.contains(name) {
                return Err(OpErr::Rule("no_branch"));
            }
            ds.delete_branch(name).await?;
            Ok(Done::Plain)
        }
    }
}

// ------------------------------------------------------------------------------------------------
// reading one version: the view of the tie line and the full snapshot of the oracle

struct Reading {
    /// `K:sorted rows:#indices:cfg`
    view: String,
    /// everything C06 talks about, in a canonical text form
    snapshot: String,
}

fn read_version(kit: &Kit, ds: &Dataset) -> Result<Reading, String> {
    let k = ds.schema().fields.len();
    let spec = Kit::spec_of(ds).ok_or_else(|| "schema is not a kit schema".to_string())?;
    let schema: Vec<String> = ds.schema().fields_pre_order().map(|f| format!("{}:{}", f.name, f.id)).collect();
    let opts = ScanOpts { ordered: true, with_row_id: true, with_row_addr: true, ..Default::default() };
    let full = kit.scan(ds, &spec, &opts).map_err(|e| format!("scan: {}", e.msg))?;
    let mut plain: Vec<Row> = full.iter().map(|r| r[..k].to_vec()).collect();
    let n = kit.count_rows(ds, None).map_err(|e| format!("count_rows: {}", e.msg))?;
    if n != plain.len() {
        return Err(format!("count_rows {n} != scanned {}", plain.len()));
    }
    let frags: Vec<String> = ds
        .get_fragments()
        .iter()
        .map(|f| {
            let m = f.metadata();
            let del = match &m.deletion_file {
                Some(d) => format!("{}-{}-{:?}", d.read_version, d.id, d.num_deleted_rows),
                None => "-".into(),
            };
            let files: Vec<String> = m.files.iter().map(|d| format!("{}{:?}", d.path, d.fields)).collect();
            format!("{}:{:?}:{}:{}", m.id, m.physical_rows, del, files.join("+"))
        })
        .collect();
    let mut ndel = vec![];
    for f in ds.get_fragments() {
        ndel.push(kit.block_on(f.count_deletions()).map_err(|e| format!("count_deletions: {e}"))?);
    }
    let idx = kit.block_on(ds.load_indices()).map_err(|e| format!("load_indices: {e}"))?;
    let mut idxs: Vec<String> = idx
        .iter()
        .map(|i| {
            let bm: Vec<u32> = i.fragment_bitmap.as_ref().map(|b| b.iter().collect()).unwrap_or_default();
            format!("{}:{}:{:?}:{}:{:?}", i.name, i.uuid, i.fields, i.dataset_version, bm)
        })
        .collect();
    idxs.sort();
    let cfg: BTreeMap<&String, &String> = ds.config().iter().collect();
    let snapshot = format!(
        "version={} schema={:?} rows={} frags={:?} deleted={:?} cfg={:?} idx={:?}",
        ds.manifest().version,
        schema,
        tablekit::show_rows(&full),
        frags,
        ndel,
        cfg,
        idxs
    );
    plain.sort();
    let view = format!(
        "{}:{}:{}:{}",
        k,
        tablekit::show_rows(&plain),
        idx.len(),
        ds.manifest().config.get("k").cloned().unwrap_or_else(|| "n".into())
    );
    Ok(Reading { view, snapshot })
}

/// `checkout_version(v)` on a newly opened dataset
fn read_at(kit: &Kit, uri: &str, v: u64, session: Arc<Session>) -> Result<Reading, String> {
    let latest = kit.block_on(open(uri, None, session)).map_err(|e| format!("open: {e}"))?;
    let ds = kit.block_on(latest.checkout_version(v)).map_err(|e| format!("checkout_version({v}): {e}"))?;
    if ds.manifest().version != v {
        return Err(format!("version {v} opened as {}", ds.manifest().version));
    }
    read_version(kit, &ds)
}

// ------------------------------------------------------------------------------------------------

struct C06 {
    kit: Kit,
}

fn short(s: &str) -> String {
    let mut t: String = s.chars().take(600).collect();
    if t.len() < s.len() {
        t.push('…');
    }
    t
}

impl C06 {
    fn random_case(rng: &mut Rng, tier: Tier) -> Vec<String> {
        let malformed = rng.chance(3, 20);
        let cfg = Cfg { v2: rng.chance(1, 2), stable: rng.chance(1, 2) };
        let mut lines = vec![cfg.show()];
        let mut k = 2usize;
        let mut next_key = 1i64;
        // the generator's own approximate idea of the table (only used to keep most lines valid)
        let mut kver: Vec<usize> = vec![0];
        let mut tags: Vec<String> = vec![];
        let mut branches: Vec<String> = vec![];
        let mut has_index = false;
        let mut rows = |rng: &mut Rng, k: usize, n: usize, next_key: &mut i64| -> String {
            let rs: Vec<Row> = (0..n)
                .map(|_| {
                    let key = *next_key;
                    *next_key += 1;
                    (0..k).map(|c| if c == 0 { Some(key) } else if rng.chance(1, 8) { None } else { Some(key * 10 + c as i64) }).collect()
                })
                .collect();
            tablekit::show_rows(&rs)
        };
        if malformed && rng.chance(1, 3) {
            lines.push(rng.pick(&["append f=2 1,10", "delete 1", "cleanup 1 1 0", "tag t0 1", "restore 1"]).to_string());
        }
        k = if rng.chance(1, 6) { 1 + rng.usize(3) } else { 2 };
        let n = 2 + rng.usize(5);
        let n = n + rng.usize(3);
        // a quarter of the cases start with: two deletes on the one fragment (two deletion files over the same data
        // file), restores of both, and a cleanup with delete_unverified that retains exactly the two restored versions
        let scripted = n >= 3 && rng.chance(1, 4);
        let f_create = if scripted { n } else { 1 + rng.usize(5) };
        let created = rows(rng, k, n, &mut next_key);
        lines.push(format!("create f={f_create} {created}"));
        kver.push(k);
        if scripted {
            lines.push(format!("delete {n}"));
            lines.push(format!("delete {}", n - 1));
            lines.push("restore ~1".to_string());
            lines.push("restore ~1".to_string());
            lines.push("cleanup ~1 1 0".to_string());
            for _ in 0..4 {
                kver.push(k);
            }
        }
        let len = match tier {
            Tier::Quick => 5 + rng.usize(7),
            _ => 6 + rng.usize(6),
        };
        let vref = |rng: &mut Rng, nver: usize| -> String {
            if rng.chance(1, 2) {
                format!("~{}", rng.usize(nver.min(5)))
            } else {
                format!("{}", 1 + rng.usize(nver))
            }
        };
        for _ in 0..len {
            let nver = kver.len() - 1;
            let mut line = match rng.below(34) {
                0..=3 => {
                    let n = 1 + rng.usize(3);
                    format!("append f={} {}", 1 + rng.usize(4), rows(rng, k, n, &mut next_key))
                }
                4 => {
                    has_index = false;
                    if rng.chance(1, 4) {
                        k = 1 + rng.usize(3);
                    }
                    let n = rng.usize(5);
                    format!("overwrite f={} {}", 1 + rng.usize(3), rows(rng, k, n, &mut next_key))
                }
                5 | 6 => format!("delete {}", rng.range(1, next_key as u64 + 1)),
                7 => {
                    let x = rng.range(1, next_key as u64) as i64;
                    format!("sdelete {} {}", x, x + 1 + rng.below(3) as i64)
                }
                8 | 9 if k >= 2 => format!("update {} {}", rng.range(0, next_key as u64), rng.below(100)),
                10 | 11 => {
                    let old = rng.range(1, next_key as u64) as i64;
                    let fresh = next_key;
                    next_key += 1;
                    let mk = |key: i64| -> Row { (0..k).map(|c| if c == 0 { Some(key) } else { Some(key * 100 + c as i64) }).collect() };
                    format!("upsert {}", tablekit::show_rows(&[mk(old), mk(fresh)]))
                }
                12 | 13 => "compact".to_string(),
                14 => {
                    has_index = true;
                    "index".to_string()
                }
                15 if has_index || malformed => {
                    has_index = false;
                    "dropindex".to_string()
                }
                16 if k < 3 => {
                    k += 1;
                    "addcol".to_string()
                }
                17 if k >= 2 => {
                    k -= 1;
                    "dropcol".to_string()
                }
                18 => format!("config {}", rng.below(50)),
                19..=21 if nver >= 2 => {
                    let j = 1 + rng.usize((nver - 1).min(4));
                    k = kver[nver - j];
                    has_index = false;
                    format!("restore ~{j}")
                }
                22 => {
                    let n = 1 + rng.usize(2);
                    format!("dappend f=2 {}", rows(rng, k, n, &mut next_key))
                }
                23 => {
                    let n = 1 + rng.usize(2);
                    format!("orphan f=2 {}", rows(rng, k, n, &mut next_key))
                }
                24..=26 => {
                    let t = format!("t{}", rng.usize(3));
                    if !tags.contains(&t) {
                        tags.push(t.clone());
                    }
                    format!("tag {t} {}", vref(rng, nver))
                }
                27 if !tags.is_empty() || malformed => {
                    let t = if tags.is_empty() { "t9".to_string() } else { tags.remove(rng.usize(tags.len())) };
                    format!("untag {t}")
                }
                28..=30 => format!("cleanup ~{} {} {}", rng.usize(3), rng.chance(2, 3) as u8, rng.chance(1, 5) as u8),
                31 => {
                    let b = format!("b{}", rng.usize(2));
                    if !branches.contains(&b) {
                        branches.push(b.clone());
                    }
                    format!("branch {b} {}", vref(rng, nver))
                }
                32 if !branches.is_empty() => format!("bdelete {} {}", rng.pick(&branches), rng.range(1, next_key as u64)),
                33 if !branches.is_empty() => {
                    let b = branches.remove(rng.usize(branches.len()));
                    format!("delbranch {b}")
                }
                _ => format!("config {}", rng.below(50)),
            };
            if malformed && rng.chance(1, 8) {
                line = match rng.below(5) {
                    0 => line.replacen("f=", "f=x", 1),
                    1 => format!("{line} 7"),
                    2 => "create f=2 1,10;2,20".to_string(),
                    3 => "append f=2 1,2,3,4".to_string(),
                    _ => format!("restore {}", nver + 5),
                };
            }
            let kind = line.split(' ').next().unwrap_or("").to_string();
            match kind.as_str() {
                "sdelete" => {
                    kver.push(k);
                    kver.push(k);
                }
                "append" | "overwrite" | "delete" | "update" | "upsert" | "index" | "dropindex" | "addcol" | "dropcol" | "config" | "restore" => kver.push(k),
                "compact" => {
                    kver.push(k);
                    kver.push(k);
                }
                _ => {}
            }
            lines.push(line);
        }
        lines
    }
}

impl Prop for C06 {
    fn id(&self) -> &'static str {
        "C06"
    }

    fn budget(&self, tier: Tier) -> usize {
        match tier {
            Tier::Quick => 40,
            Tier::Thorough => 450,
            Tier::Search => 150,
        }
    }

    fn gen_case(&mut self, rng: &mut Rng, tier: Tier, _idx: usize) -> Vec<String> {
        Self::random_case(rng, tier)
    }

    fn exec_case(&mut self, lines: &[String]) -> CaseResult {
        let mut res = CaseResult::default();
        let mut cfg: Option<Cfg> = None;
        let mut uri = String::new();
        // the harness's own record of the history (independent of lance's answers)
        let mut snaps: BTreeMap<u64, String> = BTreeMap::new();
        let mut dsnaps: BTreeMap<u64, String> = BTreeMap::new();
        let mut removed: BTreeSet<u64> = BTreeSet::new();
        let mut tags: BTreeMap<String, u64> = BTreeMap::new();
        let mut branches: BTreeSet<String> = BTreeSet::new();
        let mut prev_latest: u64 = 0;
        let mut cleaned = false;
        let mut shared = Arc::new(Session::default());
        self.kit.reset_session();
        for (li, line) in lines.iter().enumerate() {
            let toks: Vec<&str> = line.split(' ').filter(|t| !t.is_empty()).collect();
            if toks.first() == Some(&"cfg") {
                match Cfg::parse(&toks) {
                    Some(c) => {
                        cfg = Some(c);
                        uri = self.kit.tempdir_uri();
                        snaps.clear();
                        dsnaps.clear();
                        removed.clear();
                        tags.clear();
                        branches.clear();
                        prev_latest = 0;
                        cleaned = false;
                        shared = Arc::new(Session::default());
                        res.tags.push(format!("cfg:v2={}:s={}", c.v2 as u8, c.stable as u8));
                        res.outputs.push("cfg ok".into());
                    }
                    None => res.outputs.push("err parse".into()),
                }
                continue;
            }
            let Some(op) = Op::parse(&toks) else {
                res.tags.push("err:parse".into());
                res.outputs.push("err parse".into());
                continue;
            };
            let Some(cfg) = cfg else {
                res.outputs.push("err no_cfg".into());
                continue;
            };
            // file modification times are compared with manifest timestamps by cleanup (`unmodified_since`); the kernel
            // stamps files with a coarse clock, so operations are kept more than one tick apart
            std::thread::sleep(std::time::Duration::from_millis(12));
            let mut fails: Vec<(String, String)> = vec![];
            let outcome = match &op {
                // the two commits of `sdelete` are run one after the other so that the version the first one publishes
                // is snapshotted BEFORE the rebased second commit (which rewrites a deletion file of the same fragment)
                Op::SDelete(x, y) => {
                    let first = self.kit.block_on(async {
                        let ds = open(&uri, None, Arc::new(Session::default())).await?;
                        let latest = ds.manifest().version;
                        let stale = open(&uri, Some(latest), Arc::new(Session::default())).await?;
                        let mut ds = ds;
                        ds.delete(&format!("c0 >= {y}")).await?;
                        Ok::<_, lance::Error>((stale, ds.manifest().version))
                    });
                    match first {
                        Err(e) => Err(OpErr::Lance(e)),
                        Ok((mut stale, v1)) => {
                            match read_at(&self.kit, &uri, v1, Arc::new(Session::default())) {
                                Ok(r) => {
                                    snaps.insert(v1, r.snapshot);
                                }
                                Err(e) => fails.push(("unreadable".into(), format!("version {v1} cannot be read right after its commit: {e}"))),
                            }
                            let filter = format!("c0 >= {x} AND c0 < {y}");
                            match self.kit.block_on(stale.delete(&filter)) {
                                Ok(_) => Ok(Done::Version(stale.manifest().version)),
                                Err(e) => Err(OpErr::Lance(e)),
                            }
                        }
                    }
                }
                _ => self.kit.block_on(do_op(cfg, &op, &uri, &branches)),
            };
            res.tags.push(format!("op:{}", op.kind()));
            let shown = match &outcome {
                // what a write on a branch answers is C09's business (cleanup on main may have broken the branch: known
                // finding cleanup_main_breaks_branch); here it only has to leave main alone
                Ok(_) | Err(OpErr::Lance(_)) if matches!(op, Op::BDelete(..)) => "done".to_string(),
                Ok(Done::Version(v)) => {
                    if lance_table::format::is_detached_version(*v) {
                        "ok D".to_string()
                    } else {
                        format!("ok {v}")
                    }
                }
                Ok(Done::Plain) => "ok".to_string(),
                Ok(Done::Removed(n)) => format!("ok removed={n}"),
                Err(OpErr::Rule(k)) => {
                    res.tags.push(format!("err:{k}"));
                    format!("err {k}")
                }
                Err(OpErr::Lance(e)) => {
                    let k = canon_err(e).as_str();
                    res.tags.push(format!("err:{k}:{}", op.kind()));
                    if std::env::var("C06_DEBUG").is_ok() {
                        eprintln!("{line}: {e}");
                    }
                    format!("err {k}")
                }
            };
            // the harness's own bookkeeping
            match (&op, &outcome) {
                (Op::Tag(name, _), Ok(_)) => {
                    // the version is read back below from the tag file; remember what the op asked for
                    let v = match &op {
                        Op::Tag(_, r) => r.resolve(prev_latest),
                        _ => 0,
                    };
                    tags.insert(name.clone(), v);
                }
                (Op::Untag(name), Ok(_)) => {
                    tags.remove(name);
                }
                (Op::Branch(name, _), Ok(_)) => {
                    branches.insert(name.clone());
                }
                (Op::DelBranch(name), Ok(_)) => {
                    branches.remove(name);
                }
                (Op::DAppend { .. }, Ok(Done::Version(v))) => {
                    match read_at(&self.kit, &uri, *v, Arc::new(Session::default())) {
                        Ok(r) => {
                            dsnaps.insert(*v, r.snapshot);
                        }
                        Err(e) => fails.push(("unreadable".into(), format!("detached version {v} cannot be read right after its commit: {e}"))),
                    }
                }
                _ => {}
            }
            let cleanup_before: Option<u64> = match (&op, &outcome) {
                (Op::Cleanup { before, .. }, Ok(_)) => Some(before.resolve(prev_latest)),
                _ => None,
            };
            if cleanup_before.is_some() {
                cleaned = true;
                res.nontrivial = true;
            }

            // ---- observation through fresh sessions ----
            let mut obs_latest = "none".to_string();
            let mut listed: Vec<u64> = vec![];
            let mut real_tags: Vec<String> = vec![];
            let mut views: Vec<String> = vec![];
            match self.kit.block_on(open(&uri, None, Arc::new(Session::default()))) {
                Ok(ds) => {
                    obs_latest = ds.manifest().version.to_string();
                    match self.kit.block_on(ds.versions()) {
                        Ok(vs) => listed = vs.iter().map(|v| v.version).collect(),
                        Err(e) => fails.push(("unreadable".into(), format!("versions(): {e}"))),
                    }
                    match self.kit.block_on(ds.tags().list()) {
                        Ok(t) => {
                            let m: BTreeMap<String, u64> = t.into_iter().map(|(k, v)| (k, v.version)).collect();
                            real_tags = m.iter().map(|(k, v)| format!("{k}:{v}")).collect();
                            if m != tags {
                                fails.push(("tags".into(), format!("tags().list() = {m:?}, the history created {tags:?}")));
                            }
                        }
                        Err(e) => fails.push(("tags".into(), format!("tags().list(): {e}"))),
                    }
                    if listed.last().copied() != Some(ds.manifest().version) {
                        fails.push(("latest".into(), format!("latest {} but versions {:?}", ds.manifest().version, listed)));
                    }
                }
                Err(e) => {
                    if !matches!(canon_err(&e), tablekit::ErrKind::NotFound) {
                        fails.push(("unreadable".into(), format!("open: {e}")));
                    }
                }
            }
            let latest_now = listed.last().copied().unwrap_or(0);
            // pass 1: every listed version through a fresh session, compared with its snapshot
            let mut pass1_ok: BTreeSet<u64> = BTreeSet::new();
            for v in &listed {
                match read_at(&self.kit, &uri, *v, Arc::new(Session::default())) {
                    Ok(r) => {
                        views.push(format!("{v}:{}", r.view));
                        match snaps.get(v) {
                            Some(s) if *s == r.snapshot => {
                                pass1_ok.insert(*v);
                            }
                            Some(s) => fails.push((
                                "snapshot_changed".into(),
                                format!("version {v} no longer reads as when it was committed: then {} now {}", short(s), short(&r.snapshot)),
                            )),
                            None => {
                                if *v <= prev_latest || removed.contains(v) {
                                    fails.push(("version_reappeared".into(), format!("version {v} is listed but was not there before (latest was {prev_latest})")));
                                }
                                snaps.insert(*v, r.snapshot);
                                pass1_ok.insert(*v);
                            }
                        }
                    }
                    Err(e) => {
                        views.push(format!("{v}:UNREADABLE"));
                        fails.push(("unreadable".into(), format!("listed version {v} cannot be read: {e}")));
                    }
                }
            }
            // versions that disappeared: only through a successful cleanup, only below its bound, never tagged / latest
            let gone: Vec<u64> = snaps.keys().copied().filter(|v| !listed.contains(v) && !removed.contains(v)).collect();
            for v in gone {
                let tagged = tags.values().any(|t| *t == v);
                match cleanup_before {
                    Some(b) if v < b && !tagged && v < latest_now => {}
                    _ => fails.push((
                        if tagged { "tag_unpinned".into() } else { "version_lost".into() },
                        format!("version {v} disappeared (cleanup bound {cleanup_before:?}, tagged {tagged}, latest {latest_now})"),
                    )),
                }
                removed.insert(v);
            }
            if latest_now < prev_latest {
                fails.push(("version_lost".into(), format!("latest went back from {prev_latest} to {latest_now}")));
            }
            // tagged versions: pinned, and the tag name checks out the same snapshot
            for (t, v) in &tags {
                if !listed.contains(v) {
                    fails.push(("tag_unpinned".into(), format!("tag {t} -> {v} but the version is not listed")));
                    continue;
                }
                let r = self
                    .kit
                    .block_on(open(&uri, None, Arc::new(Session::default())))
                    .map_err(|e| e.to_string())
                    .and_then(|ds| self.kit.block_on(ds.checkout_version(t.as_str())).map_err(|e| e.to_string()))
                    .and_then(|ds| read_version(&self.kit, &ds));
                match (r, snaps.get(v)) {
                    (Ok(r), Some(s)) if r.snapshot == *s => {}
                    (Ok(r), Some(s)) => fails.push(("snapshot_changed".into(), format!("tag {t} -> {v}: then {} now {}", short(s), short(&r.snapshot)))),
                    (Ok(_), None) => {}
                    (Err(e), _) => fails.push(("unreadable".into(), format!("checkout of tag {t} -> {v}: {e}"))),
                }
            }
            // detached versions
            let mut dviews: Vec<String> = vec![];
            for (dv, s) in &dsnaps {
                match read_at(&self.kit, &uri, *dv, Arc::new(Session::default())) {
                    Ok(r) => {
                        dviews.push(r.view.clone());
                        if r.snapshot != *s {
                            fails.push(("snapshot_changed".into(), format!("detached version {dv}: then {} now {}", short(s), short(&r.snapshot))));
                        }
                    }
                    Err(e) => {
                        dviews.push("UNREADABLE".into());
                        let key = if cleaned { "detached_broken_by_cleanup" } else { "unreadable" };
                        fails.push((key.into(), format!("detached version {dv} (manifest still there) cannot be read: {e}")));
                    }
                }
            }
            dviews.sort();
            // pass 2: the same re-reads through ONE session shared by the whole case
            for v in &listed {
                if !pass1_ok.contains(v) {
                    continue;
                }
                let s = &snaps[v];
                match read_at(&self.kit, &uri, *v, shared.clone()) {
                    Ok(r) if r.snapshot == *s => {}
                    Ok(r) => fails.push((
                        "same_session_stale".into(),
                        format!("version {v} through the shared session differs from its snapshot: then {} now {}", short(s), short(&r.snapshot)),
                    )),
                    Err(e) => fails.push(("same_session_stale".into(), format!("version {v} through the shared session: {e}"))),
                }
            }
            prev_latest = latest_now;
            res.evaluations_hint(listed.len());
            let show = |v: &[String]| if v.is_empty() { "-".to_string() } else { v.join(" ") };
            res.outputs.push(format!(
                "{shown} | L={obs_latest} V={} | {} | D={} | T={}",
                show_nat_list(listed.iter().copied()),
                show(&views),
                show(&dviews),
                if real_tags.is_empty() { "-".to_string() } else { real_tags.join(",") }
            ));
            for (key, what) in fails {
                res.failures.push(OracleFailure { what: format!("{line}: {what}"), key: Some(key), line: li });
            }
        }
        if snaps.len() >= 3 {
            res.nontrivial = true;
        }
        res
    }

    fn rule(&self) -> String {
        "seeded random histories: cfg (v2 names, stable row ids) + create + 5-12 operations drawn from append, overwrite, delete, update, merge_insert, compaction, create/drop scalar index, add/drop column, update_config, restore (relative version), detached append, uncommitted write (orphan files), tag create/delete, cleanup_with_policy(before_version = latest - j, delete_unverified, error_if_tagged_old_versions), create_branch / delete on a branch / delete_branch; 15 % of the cases carry malformed lines (syntax errors, operations before create, width mismatches, missing versions / tags / branches, second create). After every line: every listed version, every detached version and every tag is re-read through a fresh session and every listed version again through one shared session, and compared with the snapshot taken when the version was committed. A case is non-trivial if it published at least 3 versions or ran a cleanup.".into()
    }
}

trait Hint {
    fn evaluations_hint(&mut self, n: usize);
}
impl Hint for CaseResult {
    fn evaluations_hint(&mut self, n: usize) {
        if n >= 4 {
            self.tags.push("reread:4+".into());
        } else {
            self.tags.push(format!("reread:{n}"));
        }
    }
}

fn main() {
    run_main(C06 { kit: Kit::new() })
}
