//! C34: row id sequences (`U64Segment`, `RowIdSequence`, `rechunk_sequences`, `select_row_ids`) and `RowIdIndex`.
//! Interpreter of the C34 line protocol against the real lance-table code, a generator of cases and the
//! property oracle: every register carries, next to the real value, the plain `Vec<u64>` it must stand for;
//! after every operation `iter()` of the real value is compared with the same operation done on the plain list.
//!
//! Segment syntax (also the dump format): `R:s:e` `H:s:e:holes` `B:s:e:0110…` `S:ids` `A:ids`; lists are
//! `1,2,3` / `-`; a sequence is its segments joined by `|` (`empty` for none).

use std::collections::{BTreeMap, BTreeSet, HashMap, HashSet};
use std::panic::{catch_unwind, AssertUnwindSafe};
use std::sync::Arc;

use hcommon::*;
use lance_core::utils::address::RowAddress;
use lance_core::utils::deletion::DeletionVector;
use lance_core::utils::mask::{RowIdMask, RowIdTreeMap};
use lance_io::ReadBatchParams;
use lance_table::format::pb;
use lance_table::rowids::segment::U64Segment;
use lance_table::rowids::{
    read_row_ids, rechunk_sequences, select_row_ids, write_row_ids, FragmentRowIdIndex, RowIdIndex,
    RowIdSequence,
};
use prost::Message;

// ---------- plain description of a segment (what the dump prints) ----------

#[derive(Clone, Debug, PartialEq)]
enum SegD {
    R(u64, u64),
    H(u64, u64, Vec<u64>),
    B(u64, u64, Vec<bool>),
    S(Vec<u64>),
    A(Vec<u64>),
}

fn show_segd(s: &SegD) -> String {
    match s {
        SegD::R(a, b) => format!("R:{a}:{b}"),
        SegD::H(a, b, h) => format!("H:{a}:{b}:{}", show_nat_list(h.iter().copied())),
        SegD::B(a, b, bits) => format!(
            "B:{a}:{b}:{}",
            if bits.is_empty() { "-".to_string() } else { bits.iter().map(|x| if *x { '1' } else { '0' }).collect() }
        ),
        SegD::S(v) => format!("S:{}", show_nat_list(v.iter().copied())),
        SegD::A(v) => format!("A:{}", show_nat_list(v.iter().copied())),
    }
}

fn parse_segd(s: &str) -> Option<SegD> {
    let p: Vec<&str> = s.split(':').collect();
    match p.as_slice() {
        ["R", a, b] => Some(SegD::R(a.parse().ok()?, b.parse().ok()?)),
        ["H", a, b, h] => Some(SegD::H(a.parse().ok()?, b.parse().ok()?, parse_nat_list(h)?)),
        ["B", a, b, bits] => {
            let a: u64 = a.parse().ok()?;
            let b: u64 = b.parse().ok()?;
            let bits: Vec<bool> = if *bits == "-" {
                vec![]
            } else {
                bits.chars().map(|c| match c { '1' => Some(true), '0' => Some(false), _ => None }).collect::<Option<_>>()?
            };
            // the wire format stores only the bytes; the length is end - start
            if b < a || (b - a) as usize != bits.len() {
                return None;
            }
            Some(SegD::B(a, b, bits))
        }
        ["S", v] => Some(SegD::S(parse_nat_list(v)?)),
        ["A", v] => Some(SegD::A(parse_nat_list(v)?)),
        _ => None,
    }
}

/// deterministic choice of the physical array encoding for `sraw`/`qraw` (not part of the model: the model
/// abstracts `EncodedU64Array` to the list of its values)
fn enc_array(vals: &[u64]) -> pb::EncodedU64Array {
    use pb::encoded_u64_array as a;
    let min = vals.iter().copied().min().unwrap_or(0);
    let max = vals.iter().copied().max().unwrap_or(0);
    let span = max - min;
    let pick = vals.iter().fold(0u64, |x, y| x.wrapping_add(*y)) % 3;
    let arr = if !vals.is_empty() && pick == 2 && span <= u16::MAX as u64 {
        a::Array::U16Array(a::U16Array {
            base: min,
            offsets: vals.iter().flat_map(|v| ((v - min) as u16).to_le_bytes()).collect(),
        })
    } else if !vals.is_empty() && pick >= 1 && span <= u32::MAX as u64 {
        a::Array::U32Array(a::U32Array {
            base: min,
            offsets: vals.iter().flat_map(|v| ((v - min) as u32).to_le_bytes()).collect(),
        })
    } else {
        a::Array::U64Array(a::U64Array { values: vals.iter().flat_map(|v| v.to_le_bytes()).collect() })
    };
    pb::EncodedU64Array { array: Some(arr) }
}

/// an array with an explicitly chosen offset width (16 / 32 / 64); `None` if the values do not fit that width
fn enc_array_w(vals: &[u64], w: u64) -> Option<pb::EncodedU64Array> {
    use pb::encoded_u64_array as a;
    let min = vals.iter().copied().min().unwrap_or(0);
    let max = vals.iter().copied().max().unwrap_or(0);
    let span = max - min;
    let arr = match w {
        16 if span <= u16::MAX as u64 => a::Array::U16Array(a::U16Array {
            base: min,
            offsets: vals.iter().flat_map(|v| ((v - min) as u16).to_le_bytes()).collect(),
        }),
        32 if span <= u32::MAX as u64 => a::Array::U32Array(a::U32Array {
            base: min,
            offsets: vals.iter().flat_map(|v| ((v - min) as u32).to_le_bytes()).collect(),
        }),
        64 => a::Array::U64Array(a::U64Array { values: vals.iter().flat_map(|v| v.to_le_bytes()).collect() }),
        _ => return None,
    };
    Some(pb::EncodedU64Array { array: Some(arr) })
}

fn big_ids(a: u64, b: u64, holes: &[u64]) -> Vec<u64> {
    let hs: HashSet<u64> = holes.iter().copied().collect();
    (a..b).filter(|x| !hs.contains(x)).collect()
}

fn dec_array(p: &pb::EncodedU64Array) -> Vec<u64> {
    use pb::encoded_u64_array::Array::*;
    match p.array.as_ref().expect("array") {
        U16Array(x) => x.offsets.chunks_exact(2).map(|c| x.base + u16::from_le_bytes([c[0], c[1]]) as u64).collect(),
        U32Array(x) => x.offsets.chunks_exact(4).map(|c| x.base + u32::from_le_bytes(c.try_into().unwrap()) as u64).collect(),
        U64Array(x) => x.values.chunks_exact(8).map(|c| u64::from_le_bytes(c.try_into().unwrap())).collect(),
    }
}

fn segd_to_pb(s: &SegD) -> pb::U64Segment {
    use pb::u64_segment as g;
    let seg = match s {
        SegD::R(a, b) => g::Segment::Range(g::Range { start: *a, end: *b }),
        SegD::H(a, b, h) => g::Segment::RangeWithHoles(g::RangeWithHoles { start: *a, end: *b, holes: Some(enc_array(h)) }),
        SegD::B(a, b, bits) => {
            let mut data = vec![0u8; bits.len().div_ceil(8)];
            for (i, x) in bits.iter().enumerate() {
                if *x {
                    data[i / 8] |= 1 << (i % 8);
                }
            }
            g::Segment::RangeWithBitmap(g::RangeWithBitmap { start: *a, end: *b, bitmap: data })
        }
        SegD::S(v) => g::Segment::SortedArray(enc_array(v)),
        SegD::A(v) => g::Segment::Array(enc_array(v)),
    };
    pb::U64Segment { segment: Some(seg) }
}

fn pb_to_segd(p: &pb::U64Segment) -> SegD {
    use pb::u64_segment::Segment::*;
    match p.segment.as_ref().expect("segment") {
        Range(r) => SegD::R(r.start, r.end),
        RangeWithHoles(r) => SegD::H(r.start, r.end, dec_array(r.holes.as_ref().expect("holes"))),
        RangeWithBitmap(r) => {
            let n = (r.end - r.start) as usize;
            SegD::B(r.start, r.end, (0..n).map(|i| r.bitmap[i / 8] & (1 << (i % 8)) != 0).collect())
        }
        SortedArray(a) => SegD::S(dec_array(a)),
        Array(a) => SegD::A(dec_array(a)),
    }
}

fn seg_of(d: &SegD) -> U64Segment {
    U64Segment::try_from(segd_to_pb(d)).expect("segment from pb")
}
fn dump_seg(s: &U64Segment) -> String {
    show_segd(&pb_to_segd(&pb::U64Segment::from(s.clone())))
}
fn seq_of(ds: &[SegD]) -> RowIdSequence {
    let p = pb::RowIdSequence { segments: ds.iter().map(segd_to_pb).collect() };
    read_row_ids(&p.encode_to_vec()).expect("sequence from pb")
}
fn segds_of_seq(q: &RowIdSequence) -> Vec<SegD> {
    let p = pb::RowIdSequence::decode(write_row_ids(q).as_slice()).expect("decode");
    p.segments.iter().map(pb_to_segd).collect()
}
fn dump_seq(q: &RowIdSequence) -> String {
    let d = segds_of_seq(q);
    if d.is_empty() {
        "empty".into()
    } else {
        d.iter().map(show_segd).collect::<Vec<_>>().join("|")
    }
}
fn parse_seq(s: &str) -> Option<Vec<SegD>> {
    if s == "empty" {
        return Some(vec![]);
    }
    s.split('|').map(parse_segd).collect()
}

fn show_opt(x: Option<u64>) -> String {
    match x {
        Some(v) => format!("some {v}"),
        None => "none".into(),
    }
}

fn show_ranges(rs: &[std::ops::Range<u64>]) -> String {
    if rs.is_empty() {
        "-".into()
    } else {
        rs.iter().map(|r| format!("{}..{}", r.start, r.end)).collect::<Vec<_>>().join(",")
    }
}
fn parse_ranges(s: &str) -> Option<Vec<(u64, u64)>> {
    if s == "-" {
        return Some(vec![]);
    }
    s.split(',')
        .map(|x| {
            let (a, b) = x.split_once("..")?;
            Some((a.parse().ok()?, b.parse().ok()?))
        })
        .collect()
}

/// group ascending offsets into maximal runs (the reference for mask_to_offset_ranges)
fn group(offs: &[u64]) -> Vec<std::ops::Range<u64>> {
    let mut out: Vec<std::ops::Range<u64>> = vec![];
    for &o in offs {
        match out.last_mut() {
            Some(r) if r.end == o => r.end = o + 1,
            _ => out.push(o..o + 1),
        }
    }
    out
}

#[derive(Clone)]
enum Val {
    Seg(U64Segment),
    Seq(RowIdSequence),
}

struct C34 {}

struct Ctx {
    regs: HashMap<String, (Val, Vec<u64>)>,
    fails: Vec<OracleFailure>,
    tags: BTreeSet<String>,
    line: usize,
}

fn pcatch<T>(f: impl FnOnce() -> T) -> Option<T> {
    catch_unwind(AssertUnwindSafe(f)).ok()
}

fn kind_of(d: &SegD) -> &'static str {
    match d {
        SegD::R(..) => "Range",
        SegD::H(..) => "Holes",
        SegD::B(..) => "Bitmap",
        SegD::S(..) => "Sorted",
        SegD::A(..) => "Array",
    }
}

impl Ctx {
    fn fail(&mut self, key: &str, what: String) {
        self.fails.push(OracleFailure { what, key: Some(key.into()), line: self.line });
    }
    fn seg(&self, r: &str) -> Option<(U64Segment, Vec<u64>)> {
        match self.regs.get(r) {
            Some((Val::Seg(s), l)) => Some((s.clone(), l.clone())),
            _ => None,
        }
    }
    fn seq(&self, r: &str) -> Option<(RowIdSequence, Vec<u64>)> {
        match self.regs.get(r) {
            Some((Val::Seq(s), l)) => Some((s.clone(), l.clone())),
            _ => None,
        }
    }
    /// store a segment with the list it must stand for; oracle: iter()/len() agree with the list
    fn put_seg(&mut self, r: &str, s: U64Segment, want: Vec<u64>, op: &str) -> String {
        let got: Vec<u64> = s.iter().collect();
        if got != want {
            self.fail(&format!("{op}_not_faithful"), format!("{op}: segment iterates {:?}, plain list gives {:?}", got, want));
        } else if s.len() != want.len() {
            self.fail(&format!("{op}_len"), format!("{op}: len() = {} for {} ids", s.len(), want.len()));
        }
        let d = dump_seg(&s);
        self.tags.insert(format!("enc:{}", kind_of(&pb_to_segd(&pb::U64Segment::from(s.clone())))));
        self.regs.insert(r.to_string(), (Val::Seg(s), want));
        d
    }
    fn put_seq(&mut self, r: &str, q: RowIdSequence, want: Vec<u64>, op: &str) -> String {
        let got: Vec<u64> = q.iter().collect();
        if got != want {
            self.fail(&format!("{op}_not_faithful"), format!("{op}: sequence iterates {:?}, plain list gives {:?}", got, want));
        } else if q.len() != want.len() as u64 {
            self.fail(&format!("{op}_len"), format!("{op}: len() = {} for {} ids", q.len(), want.len()));
        }
        let d = dump_seq(&q);
        for s in segds_of_seq(&q) {
            self.tags.insert(format!("enc:{}", kind_of(&s)));
        }
        self.tags.insert(format!("nseg:{}", segds_of_seq(&q).len().min(4)));
        self.regs.insert(r.to_string(), (Val::Seq(q), want));
        d
    }
}

/// no empty SortedArray / Array segment (the library never builds one; `range()` unwraps on them)
fn empty_arrays_free(q: &RowIdSequence) -> bool {
    segds_of_seq(q).iter().all(|d| !matches!(d, SegD::S(v) | SegD::A(v) if v.is_empty()))
}

fn nodup(v: &[u64]) -> bool {
    let s: HashSet<u64> = v.iter().copied().collect();
    s.len() == v.len()
}
fn is_sorted_strict<T: PartialOrd>(v: &[T]) -> bool {
    v.windows(2).all(|w| w[0] < w[1])
}

const BAD: &str = "bad-op";
const PANIC: &str = "panic";

fn exec_line(cx: &mut Ctx, line: &str) -> String {
    let t: Vec<&str> = line.split(' ').filter(|x| !x.is_empty()).collect();
    if t.is_empty() {
        return BAD.into();
    }
    cx.tags.insert(format!("op:{}", t[0]));
    match t.as_slice() {
        // ---------------- segments ----------------
        ["seg", r, ids] => {
            let Some(ids) = parse_nat_list(ids) else { return BAD.into() };
            match pcatch(|| U64Segment::from_slice(&ids)) {
                Some(s) => cx.put_seg(r, s, ids, "from_slice"),
                None => {
                    cx.fail("from_slice_panic", format!("from_slice({:?}) panicked", ids));
                    PANIC.into()
                }
            }
        }
        // ---- width-boundary families: short op lines for long dense ranges
        ["bseg", r, a, b, holes] => {
            let (Ok(a), Ok(b), Some(holes)) = (a.parse::<u64>(), b.parse::<u64>(), parse_nat_list(holes)) else { return BAD.into() };
            if a > b || b - a > 200_000 {
                return BAD.into();
            }
            let ids = big_ids(a, b, &holes);
            cx.tags.insert("big:bseg".into());
            match pcatch(|| U64Segment::from_slice(&ids)) {
                Some(s) => cx.put_seg(r, s, ids, "from_slice"),
                None => {
                    cx.fail("from_slice_panic", format!("from_slice({a}..{b} minus {:?}) panicked", holes));
                    PANIC.into()
                }
            }
        }
        ["qbig", r, a, b, holes] => {
            let (Ok(a), Ok(b), Some(holes)) = (a.parse::<u64>(), b.parse::<u64>(), parse_nat_list(holes)) else { return BAD.into() };
            if a > b || b - a > 200_000 {
                return BAD.into();
            }
            let ids = big_ids(a, b, &holes);
            cx.tags.insert("big:qbig".into());
            match pcatch(|| RowIdSequence::from(ids.as_slice())) {
                Some(q) => cx.put_seq(r, q, ids, "from_slice"),
                None => {
                    cx.fail("from_slice_panic", format!("from_slice({a}..{b} minus {:?}) panicked", holes));
                    PANIC.into()
                }
            }
        }
        ["scheck", a, ids] => {
            // membership / iteration consistency on chosen probes: len() == iter().count(), every written id found at its
            // place, no unwritten id found
            let (Some((s, l)), Some(ids)) = (cx.seg(a), parse_nat_list(ids)) else { return BAD.into() };
            let Some((len, cnt)) = pcatch(|| (s.len(), s.iter().count())) else { return PANIC.into() };
            if len != cnt || cnt != l.len() {
                cx.fail("len_vs_iter", format!("len() = {len}, iter().count() = {cnt}, built from {} ids", l.len()));
            }
            let mut out = format!("len={len} cnt={cnt}");
            for v in ids {
                match pcatch(|| (s.position(v), s.contains(v))) {
                    Some((p, c)) => {
                        let want = l.iter().position(|x| *x == v);
                        if p != want || c != want.is_some() {
                            cx.fail("seg_position", format!("position({v}) = {:?} contains = {c}, the id is at {:?}", p, want));
                        }
                        if let Some(i) = want {
                            if pcatch(|| s.get(i)).flatten() != Some(v) {
                                cx.fail("seg_get", format!("get({i}) does not return the id {v} stored there"));
                            }
                        }
                        out.push_str(&format!(" {v}:{}:{c}", p.map(|x| x.to_string()).unwrap_or("-".into())));
                    }
                    None => out.push_str(&format!(" {v}:panic")),
                }
            }
            out
        }
        ["hpos", w, a, b, holes, probes] => {
            // a raw RangeWithHoles over a range too long to iterate; the holes array has the requested offset width
            let (Ok(w), Ok(a), Ok(b), Some(holes), Some(probes)) =
                (w.parse::<u64>(), a.parse::<u64>(), b.parse::<u64>(), parse_nat_list(holes), parse_nat_list(probes))
            else {
                return BAD.into();
            };
            if a >= b || !is_sorted_strict(&holes) || holes.iter().any(|h| *h < a || *h >= b) {
                return BAD.into();
            }
            let Some(arr) = enc_array_w(&holes, w) else { return BAD.into() };
            use pb::u64_segment as g;
            let p = pb::U64Segment { segment: Some(g::Segment::RangeWithHoles(g::RangeWithHoles { start: a, end: b, holes: Some(arr) })) };
            let s = U64Segment::try_from(p).expect("segment from pb");
            cx.tags.insert(format!("hpos:w{w}"));
            let Some(len) = pcatch(|| s.len()) else { return PANIC.into() };
            if len as u64 != b - a - holes.len() as u64 {
                cx.fail("seg_len", format!("len() = {len} for {} slots and {} holes", b - a, holes.len()));
            }
            let mut out = format!("len={len}");
            for v in probes {
                match pcatch(|| (s.position(v), s.contains(v))) {
                    Some((pp, c)) => {
                        let present = v >= a && v < b && !holes.contains(&v);
                        let want = if present { Some((v - a) as usize - holes.iter().filter(|h| **h < v).count()) } else { None };
                        if pp != want || c != present {
                            cx.fail("seg_position", format!("position({v}) = {:?} contains = {c}, expected {:?}", pp, want));
                        }
                        out.push_str(&format!(" {v}:{}:{c}", pp.map(|x| x.to_string()).unwrap_or("-".into())));
                    }
                    None => out.push_str(&format!(" {v}:panic")),
                }
            }
            out
        }
        ["ebs", w, vals, probes] => {
            // EncodedU64Array::binary_search / get at an explicit offset width, reached through SortedArray::position / get
            let (Ok(w), Some(vals), Some(probes)) = (w.parse::<u64>(), parse_nat_list(vals), parse_nat_list(probes)) else { return BAD.into() };
            if vals.is_empty() || !is_sorted_strict(&vals) {
                return BAD.into();
            }
            let Some(arr) = enc_array_w(&vals, w) else { return BAD.into() };
            let p = pb::U64Segment { segment: Some(pb::u64_segment::Segment::SortedArray(arr)) };
            let s = U64Segment::try_from(p).expect("segment from pb");
            cx.tags.insert(format!("ebs:w{w}"));
            let got: Vec<u64> = s.iter().collect();
            if got != vals {
                cx.fail("encoded_array_roundtrip", format!("array iterates {:?}, built from {:?}", got, vals));
            }
            let mut out = String::new();
            for v in probes {
                match pcatch(|| (s.position(v), s.contains(v))) {
                    Some((pp, c)) => {
                        let want = vals.iter().position(|x| *x == v);
                        if pp != want || c != want.is_some() {
                            cx.fail("encoded_array_search", format!("binary_search({v}) = {:?} (contains {c}), the value is at {:?}", pp, want));
                        }
                        out.push_str(&format!("{v}:{} ", pp.map(|x| x.to_string()).unwrap_or("-".into())));
                    }
                    None => out.push_str(&format!("{v}:panic ")),
                }
            }
            for i in 0..=vals.len() {
                let g = pcatch(|| s.get(i)).flatten();
                if g != vals.get(i).copied() {
                    cx.fail("encoded_array_get", format!("get({i}) = {:?}", g));
                }
                out.push_str(&format!("g{i}={} ", g.map(|x| x.to_string()).unwrap_or("-".into())));
            }
            out.trim_end().to_string()
        }
        ["enc", ids] => {
            // the physical EncodedU64Array that from_slice builds for array-like encodings (read off the protobuf form)
            let Some(ids) = parse_nat_list(ids) else { return BAD.into() };
            let Some(seg) = pcatch(|| U64Segment::from_slice(&ids)) else { return PANIC.into() };
            let p = pb::U64Segment::from(seg);
            use pb::encoded_u64_array::Array as A;
            use pb::u64_segment::Segment as S;
            let (tag, arr) = match p.segment.as_ref().expect("segment") {
                S::SortedArray(a) => ("S", a),
                S::Array(a) => ("A", a),
                _ => return "other".into(),
            };
            if dec_array(arr) != ids {
                cx.fail("encoded_array_roundtrip", format!("EncodedU64Array decodes to {:?}, built from {:?}", dec_array(arr), ids));
            }
            match arr.array.as_ref().expect("array") {
                A::U16Array(x) => format!(
                    "{tag} U16 {} {}",
                    x.base,
                    show_nat_list(x.offsets.chunks_exact(2).map(|c| u16::from_le_bytes([c[0], c[1]]) as u64))
                ),
                A::U32Array(x) => format!(
                    "{tag} U32 {} {}",
                    x.base,
                    show_nat_list(x.offsets.chunks_exact(4).map(|c| u32::from_le_bytes(c.try_into().unwrap()) as u64))
                ),
                A::U64Array(x) => format!(
                    "{tag} U64 {}",
                    show_nat_list(x.values.chunks_exact(8).map(|c| u64::from_le_bytes(c.try_into().unwrap())))
                ),
            }
        }
        ["sraw", r, d] => {
            let Some(d) = parse_segd(d) else { return BAD.into() };
            let s = seg_of(&d);
            // the raw segment defines its own list: no faithfulness claim, only the dump is compared
            let l: Vec<u64> = match pcatch(|| s.iter().collect()) {
                Some(l) => l,
                None => return PANIC.into(),
            };
            let out = dump_seg(&s);
            cx.regs.insert(r.to_string(), (Val::Seg(s), l));
            out
        }
        ["siter", a] => {
            let Some((s, l)) = cx.seg(a) else { return BAD.into() };
            let got: Vec<u64> = s.iter().collect();
            if got != l {
                cx.fail("iter_changed", format!("iter {:?} vs {:?}", got, l));
            }
            format!("{} len={}", show_nat_list(got), s.len())
        }
        ["sslice", r, a, off, len] => {
            let (Some((s, l)), Ok(off), Ok(len)) = (cx.seg(a), off.parse::<usize>(), len.parse::<usize>()) else { return BAD.into() };
            let want: Vec<u64> = l.iter().copied().skip(off).take(len).collect();
            match pcatch(|| s.slice(off, len)) {
                Some(s2) => cx.put_seg(r, s2, want, "seg_slice"),
                None => {
                    cx.fail("seg_slice_panic", format!("slice({off},{len}) panicked"));
                    PANIC.into()
                }
            }
        }
        ["sdel", r, a, vals] => {
            let (Some((s, l)), Some(vals)) = (cx.seg(a), parse_nat_list(vals)) else { return BAD.into() };
            // documented precondition: vals are in the segment, ordered by appearance
            let mut it = l.iter();
            let pre = nodup(&l) && vals.iter().all(|v| it.any(|x| x == v));
            match pcatch(|| s.delete(&vals)) {
                Some(s2) => {
                    if pre {
                        let vs: HashSet<u64> = vals.iter().copied().collect();
                        let want: Vec<u64> = l.iter().copied().filter(|x| !vs.contains(x)).collect();
                        cx.put_seg(r, s2, want, "seg_delete")
                    } else {
                        cx.tags.insert("pre:sdel_violated".into());
                        let l2: Vec<u64> = s2.iter().collect();
                        let d = dump_seg(&s2);
                        cx.regs.insert(r.to_string(), (Val::Seg(s2), l2));
                        d
                    }
                }
                None => {
                    if pre {
                        cx.fail("seg_delete_panic", "delete panicked".into());
                    }
                    PANIC.into()
                }
            }
        }
        ["smask", r, a, pos] => {
            let (Some((s, l)), Some(pos)) = (cx.seg(a), parse_nat_list(pos)) else { return BAD.into() };
            if pos.iter().any(|p| *p > u32::MAX as u64) {
                return BAD.into();
            }
            let pos32: Vec<u32> = pos.iter().map(|p| *p as u32).collect();
            let pre = is_sorted_strict(&pos32) && pos32.iter().all(|p| (*p as usize) < l.len());
            let mut s2 = s.clone();
            match pcatch(|| {
                s2.mask(&pos32);
            }) {
                Some(()) => {
                    if pre {
                        let ps: HashSet<u64> = pos.iter().copied().collect();
                        let want: Vec<u64> = l.iter().enumerate().filter(|(i, _)| !ps.contains(&(*i as u64))).map(|(_, v)| *v).collect();
                        cx.put_seg(r, s2, want, "seg_mask")
                    } else {
                        cx.tags.insert("pre:smask_violated".into());
                        let l2: Vec<u64> = s2.iter().collect();
                        let d = dump_seg(&s2);
                        cx.regs.insert(r.to_string(), (Val::Seg(s2), l2));
                        d
                    }
                }
                None => {
                    if pre {
                        cx.fail("seg_mask_panic", "mask panicked on valid positions".into());
                    }
                    PANIC.into()
                }
            }
        }
        ["shigh", r, a, v] => {
            let (Some((s, l)), Ok(v)) = (cx.seg(a), v.parse::<u64>()) else { return BAD.into() };
            let higher = l.iter().all(|x| *x < v);
            match pcatch(|| s.with_new_high(v)) {
                Some(Ok(s2)) => {
                    if !higher {
                        // accepted although not higher than every id: only a violation if the list is then wrong
                        cx.tags.insert("shigh:accepted_not_higher".into());
                    }
                    let mut want = l.clone();
                    want.push(v);
                    cx.put_seg(r, s2, want, "with_new_high")
                }
                Some(Err(_)) => {
                    if higher && !l.is_empty() {
                        // rejected a value that is higher than every id (range() of a holes/bitmap segment is the
                        // declared range, which may extend past the last id) — allowed by the doc: "new highest"
                        cx.tags.insert("shigh:rejected_higher".into());
                    }
                    "err".into()
                }
                None => PANIC.into(),
            }
        }
        ["sget", a, i] => {
            let (Some((s, l)), Ok(i)) = (cx.seg(a), i.parse::<usize>()) else { return BAD.into() };
            match pcatch(|| s.get(i)) {
                Some(g) => {
                    if g != l.get(i).copied() {
                        cx.fail("seg_get", format!("get({i}) = {:?}, list has {:?}", g, l.get(i)));
                    }
                    show_opt(g)
                }
                None => PANIC.into(),
            }
        }
        ["spos", a, v] => {
            let (Some((s, l)), Ok(v)) = (cx.seg(a), v.parse::<u64>()) else { return BAD.into() };
            match pcatch(|| (s.position(v), s.contains(v))) {
                Some((p, c)) => {
                    let want = l.iter().position(|x| *x == v);
                    if p != want || c != want.is_some() {
                        cx.fail("seg_position", format!("position({v}) = {:?} contains = {c}, list has it at {:?}", p, want));
                    }
                    format!("{} {}", show_opt(p.map(|x| x as u64)), c)
                }
                None => PANIC.into(),
            }
        }
        ["srange", a] => {
            let Some((s, l)) = cx.seg(a) else { return BAD.into() };
            match pcatch(|| s.range()) {
                Some(None) => {
                    if !l.is_empty() {
                        cx.fail("seg_range", "range() is None for a non-empty segment".into());
                    }
                    "none".into()
                }
                Some(Some(r)) => {
                    if l.iter().any(|x| !r.contains(x)) {
                        cx.fail("seg_range", format!("range() {:?} does not cover the ids", r));
                    }
                    format!("{},{}", r.start(), r.end())
                }
                None => PANIC.into(),
            }
        }
        // ---------------- sequences ----------------
        ["qnew", r] => cx.put_seq(r, RowIdSequence::new(), vec![], "new"),
        ["qrange", r, a, b] => {
            let (Ok(a), Ok(b)) = (a.parse::<u64>(), b.parse::<u64>()) else { return BAD.into() };
            if a > b {
                return BAD.into();
            }
            cx.put_seq(r, RowIdSequence::from(a..b), (a..b).collect(), "from_range")
        }
        ["qids", r, ids] => {
            let Some(ids) = parse_nat_list(ids) else { return BAD.into() };
            match pcatch(|| RowIdSequence::from(ids.as_slice())) {
                Some(q) => cx.put_seq(r, q, ids, "from_slice"),
                None => {
                    cx.fail("from_slice_panic", format!("from_slice({:?}) panicked", ids));
                    PANIC.into()
                }
            }
        }
        ["qraw", r, d] => {
            let Some(ds) = parse_seq(d) else { return BAD.into() };
            let q = seq_of(&ds);
            let l: Vec<u64> = match pcatch(|| q.iter().collect()) {
                Some(l) => l,
                None => return PANIC.into(),
            };
            let out = dump_seq(&q);
            for s in &ds {
                cx.tags.insert(format!("raw:{}", kind_of(s)));
            }
            cx.regs.insert(r.to_string(), (Val::Seq(q), l));
            out
        }
        ["qiter", a] => {
            let Some((q, l)) = cx.seq(a) else { return BAD.into() };
            let got: Vec<u64> = q.iter().collect();
            if got != l {
                cx.fail("iter_changed", format!("iter {:?} vs {:?}", got, l));
            }
            format!("{} len={}", show_nat_list(got), q.len())
        }
        ["qext", r, a, b] => {
            let (Some((mut qa, la)), Some((qb, lb))) = (cx.seq(a), cx.seq(b)) else { return BAD.into() };
            qa.extend(qb);
            let mut want = la;
            want.extend(lb);
            cx.put_seq(r, qa, want, "extend")
        }
        ["qdel", r, a, ids] => {
            let (Some((mut q, l)), Some(ids)) = (cx.seq(a), parse_nat_list(ids)) else { return BAD.into() };
            let pre = nodup(&l) && empty_arrays_free(&q);
            if !nodup(&ids) {
                cx.tags.insert("qdel:dup_ids".into());
            }
            match pcatch(|| q.delete(ids.iter().copied())) {
                Some(()) => {
                    if pre {
                        let vs: HashSet<u64> = ids.iter().copied().collect();
                        let want: Vec<u64> = l.iter().copied().filter(|x| !vs.contains(x)).collect();
                        let key = if nodup(&ids) { "delete" } else { "delete_dup_ids" };
                        cx.put_seq(r, q, want, key)
                    } else {
                        cx.tags.insert("pre:qdel_violated".into());
                        let l2: Vec<u64> = q.iter().collect();
                        let d = dump_seq(&q);
                        cx.regs.insert(r.to_string(), (Val::Seq(q), l2));
                        d
                    }
                }
                None => {
                    if pre {
                        cx.fail("delete_panic", "delete panicked".into());
                    }
                    PANIC.into()
                }
            }
        }
        ["qmask", r, a, pos] => {
            let (Some((mut q, l)), Some(pos)) = (cx.seq(a), parse_nat_list(pos)) else { return BAD.into() };
            if pos.iter().any(|p| *p > u32::MAX as u64) {
                return BAD.into();
            }
            let pos32: Vec<u32> = pos.iter().map(|p| *p as u32).collect();
            let pre = is_sorted_strict(&pos32);
            match pcatch(|| q.mask(pos32.iter().copied())) {
                Some(Ok(())) => {
                    if pre {
                        let ps: HashSet<u64> = pos.iter().copied().collect();
                        let want: Vec<u64> = l.iter().enumerate().filter(|(i, _)| !ps.contains(&(*i as u64))).map(|(_, v)| *v).collect();
                        cx.put_seq(r, q, want, "mask")
                    } else {
                        cx.tags.insert("pre:qmask_violated".into());
                        let l2: Vec<u64> = q.iter().collect();
                        let d = dump_seq(&q);
                        cx.regs.insert(r.to_string(), (Val::Seq(q), l2));
                        d
                    }
                }
                Some(Err(_)) => "err".into(),
                None => {
                    if pre {
                        cx.fail("mask_panic", "mask panicked on sorted positions".into());
                    }
                    PANIC.into()
                }
            }
        }
        ["qslice", a, off, len] => {
            let (Some((q, l)), Ok(off), Ok(len)) = (cx.seq(a), off.parse::<usize>(), len.parse::<usize>()) else { return BAD.into() };
            let inb = off + len <= l.len();
            match pcatch(|| q.slice(off, len).iter().collect::<Vec<u64>>()) {
                Some(got) => {
                    if inb {
                        let want: Vec<u64> = l[off..off + len].to_vec();
                        if got != want {
                            cx.fail("slice_not_faithful", format!("slice({off},{len}) = {:?}, list gives {:?}", got, want));
                        }
                    } else {
                        cx.tags.insert("pre:qslice_oob".into());
                    }
                    show_nat_list(got)
                }
                None => {
                    if inb {
                        cx.fail("slice_panic", format!("slice({off},{len}) panicked within bounds"));
                    } else {
                        cx.tags.insert("pre:qslice_oob".into());
                    }
                    PANIC.into()
                }
            }
        }
        ["qsel", a, idx] => {
            let (Some((q, l)), Some(idx)) = (cx.seq(a), parse_nat_list(idx)) else { return BAD.into() };
            let sorted = idx.windows(2).all(|w| w[0] <= w[1]);
            let idxu: Vec<usize> = idx.iter().map(|x| *x as usize).collect();
            match pcatch(|| q.select(idxu.iter().copied()).collect::<Vec<u64>>()) {
                Some(got) => {
                    let want: Vec<u64> = idxu.iter().filter_map(|i| l.get(*i).copied()).collect();
                    if sorted && got != want {
                        cx.fail("select_not_faithful", format!("select({:?}) = {:?}, list gives {:?}", idx, got, want));
                    }
                    show_nat_list(got)
                }
                None => {
                    if sorted {
                        cx.fail("select_panic", "select panicked on a sorted selection".into());
                    } else {
                        cx.tags.insert("pre:qsel_unsorted".into());
                    }
                    PANIC.into()
                }
            }
        }
        ["qget", a, i] => {
            let (Some((q, l)), Ok(i)) = (cx.seq(a), i.parse::<usize>()) else { return BAD.into() };
            match pcatch(|| q.get(i)) {
                Some(g) => {
                    if g != l.get(i).copied() {
                        cx.fail("get", format!("get({i}) = {:?}, list has {:?}", g, l.get(i)));
                    }
                    show_opt(g)
                }
                None => PANIC.into(),
            }
        }
        ["qm2o", a, kind, ids] => {
            let (Some((q, l)), Some(ids)) = (cx.seq(a), parse_nat_list(ids)) else { return BAD.into() };
            let tm: RowIdTreeMap = ids.iter().copied().collect();
            let idset: HashSet<u64> = ids.iter().copied().collect();
            let (mask, allow) = match *kind {
                "allow" => (RowIdMask::from_allowed(tm), true),
                "block" => (RowIdMask::from_block(tm), false),
                _ => return BAD.into(),
            };
            // ids in fragment u32::MAX are outside the domain: `RowIdTreeMap::insert_range` (lance-core, C21) overflows there
            const TOP: u64 = 0xFFFF_FFFF_0000_0000;
            if l.iter().any(|x| *x >= TOP)
                || segds_of_seq(&q).iter().any(|d| match d {
                    SegD::R(a, b) => b > a && *b - 1 >= TOP,
                    SegD::H(_, b, _) | SegD::B(_, b, _) => *b > 0 && *b - 1 >= TOP,
                    SegD::S(v) => v.last().is_some_and(|x| *x >= TOP),
                    SegD::A(v) => v.iter().any(|x| *x >= TOP),
                })
            {
                cx.tags.insert("pre:m2o_top_fragment".into());
                return "skip-top-fragment".into();
            }
            match pcatch(|| q.mask_to_offset_ranges(&mask)) {
                Some(got) => {
                    // only claimed for sequences of unique ids whose sorted segments are sorted
                    let offs: Vec<u64> =
                        l.iter().enumerate().filter(|(_, v)| idset.contains(v) == allow).map(|(i, _)| i as u64).collect();
                    // the ranges are non-empty, ascending, disjoint, and cover exactly the offsets of the selected ids
                    // (adjacent ranges of neighbouring segments are not merged; that is allowed)
                    let flat: Vec<u64> = got.iter().flat_map(|r| r.clone()).collect();
                    let shape = got.iter().all(|r| r.start < r.end) && got.windows(2).all(|w| w[0].end <= w[1].start);
                    let multi = segds_of_seq(&q).len() > 1;
                    if nodup(&l) && empty_arrays_free(&q) && (flat != offs || !shape) {
                        let key = if multi { "mask_to_offset_ranges_later_segment" } else { "mask_to_offset_ranges" };
                        cx.fail(key, format!("mask_to_offset_ranges = {:?}, offsets of the selected ids are {:?}", got, group(&offs)));
                    }
                    show_ranges(&got)
                }
                None => {
                    if nodup(&l) {
                        cx.fail("mask_to_offset_ranges_panic", "mask_to_offset_ranges panicked".into());
                    }
                    PANIC.into()
                }
            }
        }
        ["rechunk", regs, sizes, inc] => {
            let Some(sizes) = parse_nat_list(sizes) else { return BAD.into() };
            let allow_incomplete = match *inc {
                "1" => true,
                "0" => false,
                _ => return BAD.into(),
            };
            let mut qs = vec![];
            let mut all: Vec<u64> = vec![];
            if *regs != "-" {
                for r in regs.split(',') {
                    let Some((q, l)) = cx.seq(r) else { return BAD.into() };
                    qs.push(q);
                    all.extend(l);
                }
            }
            let total: u64 = sizes.iter().sum();
            match pcatch(|| rechunk_sequences(qs, sizes.iter().copied(), allow_incomplete)) {
                Some(Ok(out)) => {
                    let flat: Vec<u64> = out.iter().flat_map(|q| q.iter()).collect();
                    if flat != all {
                        cx.fail("rechunk_not_faithful", format!("rechunk concatenation {:?} differs from input {:?}", flat, all));
                    }
                    if out.len() != sizes.len() {
                        cx.fail("rechunk_count", format!("{} chunks for {} sizes", out.len(), sizes.len()));
                    }
                    // chunk i holds exactly sizes[i] ids (fewer only if allow_incomplete and the input ran out)
                    let mut pos = 0u64;
                    for (i, q) in out.iter().enumerate() {
                        let n = q.iter().count() as u64;
                        let want = sizes[i].min((all.len() as u64).saturating_sub(pos));
                        if n != want || (!allow_incomplete && n != sizes[i]) {
                            cx.fail("rechunk_sizes", format!("chunk {i} has {n} ids, size {} requested", sizes[i]));
                        }
                        pos += n;
                    }
                    format!("ok {}", out.iter().map(dump_seq).collect::<Vec<_>>().join(" ; "))
                }
                Some(Err(_)) => {
                    if total == all.len() as u64 || (allow_incomplete && total >= all.len() as u64) {
                        cx.fail("rechunk_rejected", format!("rechunk rejected sizes {:?} for {} ids", sizes, all.len()));
                    }
                    "err".into()
                }
                None => {
                    cx.fail("rechunk_panic", "rechunk panicked".into());
                    PANIC.into()
                }
            }
        }
        ["selrows", a, kind, arg] => {
            let Some((q, l)) = cx.seq(a) else { return BAD.into() };
            let n = l.len();
            // (params, reference result: None = out of bounds)
            let (params, want): (ReadBatchParams, Option<Vec<u64>>) = match *kind {
                "idx" => {
                    let Some(ix) = parse_nat_list(arg) else { return BAD.into() };
                    if ix.iter().any(|x| *x > u32::MAX as u64) {
                        return BAD.into();
                    }
                    let w: Option<Vec<u64>> = ix.iter().map(|i| l.get(*i as usize).copied()).collect();
                    (ReadBatchParams::Indices(ix.iter().map(|x| *x as u32).collect::<Vec<u32>>().into()), w)
                }
                "range" => {
                    let Some(rs) = parse_ranges(arg) else { return BAD.into() };
                    if rs.len() != 1 || rs[0].0 > rs[0].1 {
                        return BAD.into();
                    }
                    let (s, e) = (rs[0].0 as usize, rs[0].1 as usize);
                    (ReadBatchParams::Range(s..e), if e <= n { Some(l[s..e].to_vec()) } else { None })
                }
                "ranges" => {
                    let Some(rs) = parse_ranges(arg) else { return BAD.into() };
                    if rs.iter().any(|r| r.0 > r.1) {
                        return BAD.into();
                    }
                    let w = if rs.iter().all(|r| r.1 as usize <= n) {
                        Some(rs.iter().flat_map(|r| l[r.0 as usize..r.1 as usize].to_vec()).collect())
                    } else {
                        None
                    };
                    (ReadBatchParams::Ranges(rs.iter().map(|r| r.0..r.1).collect::<Vec<_>>().into()), w)
                }
                "full" => (ReadBatchParams::RangeFull, Some(l.clone())),
                "to" => {
                    let Ok(e) = arg.parse::<usize>() else { return BAD.into() };
                    (ReadBatchParams::RangeTo(..e), if e <= n { Some(l[..e].to_vec()) } else { None })
                }
                "from" => {
                    let Ok(s) = arg.parse::<usize>() else { return BAD.into() };
                    (ReadBatchParams::RangeFrom(s..), if s <= n { Some(l[s..].to_vec()) } else { None })
                }
                _ => return BAD.into(),
            };
            match pcatch(|| select_row_ids(&q, &params)) {
                Some(Ok(got)) => {
                    match &want {
                        Some(w) if *w == got => {}
                        _ => cx.fail("select_row_ids", format!("select_row_ids({kind} {arg}) = {:?}, list gives {:?}", got, want)),
                    }
                    show_nat_list(got)
                }
                Some(Err(_)) => {
                    if want.is_some() {
                        cx.fail("select_row_ids_rejected", format!("select_row_ids({kind} {arg}) rejected an in-bounds request"));
                    }
                    "err".into()
                }
                None => {
                    if want.is_some() {
                        cx.fail("select_row_ids_panic", format!("select_row_ids({kind} {arg}) panicked on an in-bounds request"));
                    } else {
                        cx.tags.insert("pre:selrows_oob_panic".into());
                    }
                    PANIC.into()
                }
            }
        }
        ["index", frags, probes] => {
            let Some(probes) = parse_nat_list(probes) else { return BAD.into() };
            let mut fs = vec![];
            // truth: live id -> address; ids must be unique among live rows for the claim
            let mut truth: BTreeMap<u64, u64> = BTreeMap::new();
            let mut unique = true;
            if *frags != "-" {
                for f in frags.split(';') {
                    let p: Vec<&str> = f.split('/').collect();
                    let [fid, reg, dv] = p.as_slice() else { return BAD.into() };
                    let (Ok(fid), Some((q, l)), Some(dv)) = (fid.parse::<u32>(), cx.seq(reg), parse_nat_list(dv)) else { return BAD.into() };
                    if dv.iter().any(|x| *x > u32::MAX as u64) {
                        return BAD.into();
                    }
                    let dvs: HashSet<u32> = dv.iter().map(|x| *x as u32).collect();
                    for (i, id) in l.iter().enumerate() {
                        if !dvs.contains(&(i as u32)) {
                            let addr = ((fid as u64) << 32) + i as u64;
                            if truth.insert(*id, addr).is_some() {
                                unique = false;
                            }
                        }
                    }
                    let dvv = if dvs.is_empty() {
                        DeletionVector::NoDeletions
                    } else if dvs.len() % 2 == 0 {
                        DeletionVector::Set(dvs.clone())
                    } else {
                        DeletionVector::Bitmap(dvs.iter().copied().collect())
                    };
                    fs.push(FragmentRowIdIndex { fragment_id: fid, row_id_sequence: Arc::new(q), deletion_vector: Arc::new(dvv) });
                }
            }
            match pcatch(|| RowIdIndex::new(&fs)) {
                Some(Ok(ix)) => {
                    let mut outs = vec![];
                    // probe the requested ids, and for the oracle every live id as well
                    for p in &probes {
                        let g = pcatch(|| ix.get(*p).map(u64::from));
                        match g {
                            Some(g) => {
                                if unique && g != truth.get(p).copied() {
                                    cx.fail("index_get", format!("index.get({p}) = {:?}, the row is at {:?}", g, truth.get(p)));
                                }
                                outs.push(format!("{p}={}", g.map(|x| x.to_string()).unwrap_or("none".into())));
                            }
                            None => outs.push(format!("{p}=panic")),
                        }
                    }
                    if unique {
                        // every live id (a sample of them for very long fragments: address lookups are linear there)
                        let step = if truth.len() > 4000 { 97 } else { 1 };
                        for (id, addr) in truth.iter().step_by(step) {
                            let g = pcatch(|| ix.get(*id).map(u64::from)).flatten();
                            if g != Some(*addr) {
                                cx.fail("index_get", format!("index.get({id}) = {:?}, the row is at {addr}", g));
                                break;
                            }
                        }
                    } else {
                        cx.tags.insert("pre:index_ids_not_unique".into());
                    }
                    let _ = RowAddress::from(0u64);
                    if outs.is_empty() { "ok".into() } else { outs.join(" ") }
                }
                Some(Err(_)) => {
                    if unique {
                        cx.fail("index_new_err", "RowIdIndex::new failed".into());
                    }
                    "err".into()
                }
                None => {
                    if unique {
                        cx.fail("index_new_panic", "RowIdIndex::new panicked".into());
                    }
                    PANIC.into()
                }
            }
        }
        _ => BAD.into(),
    }
}

// ---------------- generator ----------------

fn gen_ids(rng: &mut Rng, tier: Tier) -> Vec<u64> {
    let maxn = if tier == Tier::Quick { 24 } else { 60 };
    let n = match rng.below(10) {
        0 => 0,
        1 => 1,
        2 => 2,
        _ => rng.range(3, maxn),
    } as usize;
    // base: small, fragment boundary, or near the u64 limit (all ids stay <= u64::MAX - 1)
    let span_hint = 41 * (n as u64 + 1) + 300;
    let base = match rng.below(8) {
        0 => (1u64 << 32) - rng.below(20),
        1 => u64::MAX - 1 - span_hint - rng.below(50),
        2 => (rng.below(5) << 32) + rng.below(100),
        _ => rng.below(50),
    };
    let mut v: Vec<u64> = match rng.below(8) {
        // contiguous
        0 => (base..base + n as u64).collect(),
        // dense with a few holes
        1 | 2 => {
            let mut x = base;
            (0..n).map(|_| { x += if rng.chance(1, 6) { 2 + rng.below(3) } else { 1 }; x }).collect()
        }
        // every other / sparse-ish (bitmap territory)
        3 => {
            let step = rng.range(2, 4);
            (0..n as u64).map(|i| base + i * step + rng.below(step.min(2))).collect::<BTreeSet<u64>>().into_iter().collect()
        }
        // sparse (sorted array territory)
        4 => {
            let mut x = base;
            (0..n).map(|_| { x += rng.range(1, 40); x }).collect()
        }
        // long range with one far outlier
        5 => {
            let mut v: Vec<u64> = (base..base + n as u64).collect();
            if n > 0 { v.push(base + n as u64 + rng.range(1, 200)); }
            v
        }
        // unsorted
        _ => {
            let mut x = base;
            let mut v: Vec<u64> = (0..n).map(|_| { x += rng.range(1, 4); x }).collect();
            for i in (1..v.len()).rev() {
                let j = rng.usize(i + 1);
                v.swap(i, j);
            }
            v
        }
    };
    v.truncate(maxn as usize + 1);
    v
}

fn gen_raw_seg(rng: &mut Rng, ids: &[u64]) -> SegD {
    // a non-canonical but well-formed encoding of a sorted id list (or Array for anything)
    let sorted = is_sorted_strict(ids);
    if !sorted || ids.is_empty() {
        return if ids.is_empty() && rng.chance(9, 10) { SegD::R(7, 7) } else { SegD::A(ids.to_vec()) };
    }
    let (lo, hi) = (ids[0], *ids.last().unwrap());
    let contiguous = hi - lo + 1 == ids.len() as u64;
    let present: HashSet<u64> = ids.iter().copied().collect();
    // optionally widen the declared range past the ids (trailing / leading holes)
    let lo2 = if rng.chance(1, 4) { lo - rng.below(3).min(lo) } else { lo };
    let hi2 = if rng.chance(1, 4) { hi + rng.below(3) } else { hi };
    match rng.below(if contiguous { 5 } else { 4 }) {
        0 => SegD::H(lo2, hi2 + 1, (lo2..=hi2).filter(|x| !present.contains(x)).collect()),
        1 => SegD::B(lo2, hi2 + 1, (lo2..=hi2).map(|x| present.contains(&x)).collect()),
        2 => SegD::S(ids.to_vec()),
        3 => SegD::A(ids.to_vec()),
        _ => SegD::R(lo, hi + 1),
    }
}

fn list_of(d: &SegD) -> Vec<u64> {
    seg_of(d).iter().collect()
}

fn sorted_subset(rng: &mut Rng, n: usize, p_num: u64, p_den: u64) -> Vec<u64> {
    (0..n as u64).filter(|_| rng.chance(p_num, p_den)).collect()
}

impl Prop for C34 {
    fn id(&self) -> &'static str {
        "C34"
    }
    fn budget(&self, tier: Tier) -> usize {
        match tier {
            Tier::Quick => 6000,
            Tier::Thorough => 120000,
            Tier::Search => 60000,
        }
    }
    fn rule(&self) -> String {
        "each case builds 1-4 registers (segments via from_slice or a raw well-formed encoding; sequences via from/extend/raw) from id lists that are contiguous / holey / alternating / sparse / outlier / shuffled, with bases at 0, at a 2^32 boundary and just below u64::MAX, then applies 2-8 of slice/delete/mask/with_new_high/get/position/extend/select/mask_to_offset_ranges/rechunk/select_row_ids/index with arguments drawn from the current plain lists (70% valid, rest out of range / absent / duplicated); the first 512 cases enumerate all subsets of an 8-id universe (as one segment with every segment op, and split into two segments - the second raw-encoded - with every sequence op). Cases 512-559 (and 1 in 150 afterwards) are width-boundary cases: dense ranges of 65533..131086 ids with holes and probes at base, base+65535, base+65536 and hole+65536k (segment and sequence ops, index lookups, mask_to_offset_ranges), explicit-width U16/U32/U64 arrays probed at aliases modulo 2^16 / 2^32, and raw RangeWithHoles over up to 2^33 slots that are only probed. Non-trivial = at least one register holds >= 2 ids and one non-constructor op ran. Excluded (documented preconditions, results undefined): duplicate ids inside one sorted list, id u64::MAX, unsorted mask positions, spans >= 2^53.".into()
    }

    fn gen_case(&mut self, rng: &mut Rng, tier: Tier, idx: usize) -> Vec<String> {
        let mut out: Vec<String> = vec![];
        // ---- exhaustive small scope: subsets of 0..8 (256) x {segment ops, sequence ops}
        if idx < 512 {
            let bits = idx % 256;
            let ids: Vec<u64> = (0..8u64).filter(|i| bits >> i & 1 == 1).map(|i| 10 + i).collect();
            let n = ids.len();
            if idx < 256 {
                out.push(format!("seg a {}", show_nat_list(ids.iter().copied())));
                out.push("srange a".into());
                for i in 0..=n {
                    out.push(format!("sget a {i}"));
                }
                for v in 9..=19 {
                    out.push(format!("spos a {v}"));
                }
                for off in 0..=n {
                    for len in 0..=(n - off) {
                        if rng.chance(1, 2) {
                            out.push(format!("sslice b a {off} {len}"));
                        }
                    }
                }
                for _ in 0..4 {
                    let pos = sorted_subset(rng, n, 1, 2);
                    out.push(format!("smask b a {}", show_nat_list(pos.iter().copied())));
                    let del: Vec<u64> = ids.iter().copied().filter(|_| rng.chance(1, 2)).collect();
                    out.push(format!("sdel b a {}", show_nat_list(del)));
                }
                out.push(format!("shigh b a {}", 18 + rng.below(4)));
            } else {
                // split into two segments at a random point; second segment raw-encoded
                let k = rng.usize(n + 1);
                out.push(format!("qids a {}", show_nat_list(ids[..k].iter().copied())));
                let d = gen_raw_seg(rng, &ids[k..]);
                out.push(format!("qraw b {}", show_segd(&d)));
                out.push("qext c a b".into());
                for _ in 0..3 {
                    let allow: Vec<u64> = (9..20u64).filter(|_| rng.chance(1, 3)).collect();
                    out.push(format!("qm2o c {} {}", if rng.chance(1, 2) { "allow" } else { "block" }, show_nat_list(allow)));
                    let pos = sorted_subset(rng, n, 1, 3);
                    out.push(format!("qmask d c {}", show_nat_list(pos)));
                    let del: Vec<u64> = (9..20u64).filter(|_| rng.chance(1, 3)).collect();
                    out.push(format!("qdel d c {}", show_nat_list(del)));
                }
                for off in 0..=n {
                    let len = rng.usize(n - off + 1);
                    out.push(format!("qslice c {off} {len}"));
                }
                out.push(format!("index 1/c/{} {}", show_nat_list(sorted_subset(rng, n, 1, 4)), show_nat_list(9..20u64)));
            }
            return out;
        }

        // ---- width-boundary cases: dense ranges whose span crosses 65536 (the u16 offset width of EncodedU64Array) with holes
        //      and probes at base, base+65535, base+65536, hole+65536*k; explicit-width arrays and holes arrays at the u16 / u32
        //      limits (ranges too long to iterate are only probed)
        if (512..560).contains(&idx) || rng.chance(1, 150) {
            let b0 = match rng.below(5) {
                0 => 0,
                1 => rng.below(20),
                2 => (1u64 << 32) - 40_000,
                3 => 1u64 << 40,
                _ => u64::MAX - 1 - 200_000 - rng.below(1000),
            };
            match rng.below(4) {
                0 | 1 => {
                    let span = match rng.below(4) {
                        0 => 65_536 + rng.below(6),
                        1 => 65_536 - rng.below(4),
                        2 => 70_000,
                        _ => 131_072 + 10 + rng.below(5),
                    };
                    let e = b0 + span;
                    // holes: small offsets, around 65535/65536, and one far hole
                    let mut holes: BTreeSet<u64> = BTreeSet::new();
                    let cands = [3u64, 7, 1, 2, 65_534, 65_535, 65_536, 65_537, 9, 40_000];
                    for _ in 0..rng.range(1, 5) {
                        let c = *rng.pick(&cands);
                        if c + 1 < span && c > 0 {
                            holes.insert(b0 + c);
                        }
                    }
                    if holes.is_empty() {
                        holes.insert(b0 + 3);
                    }
                    let hv: Vec<u64> = holes.iter().copied().collect();
                    let mut probes: BTreeSet<u64> = BTreeSet::new();
                    for h in &hv {
                        for k in [0u64, 65_536, 131_072] {
                            probes.insert(h.wrapping_add(k));
                            probes.insert(h.wrapping_add(k).wrapping_add(1));
                        }
                        if *h >= 65_536 {
                            probes.insert(h - 65_536);
                        }
                    }
                    for d in [0u64, 1, 65_535, 65_536, 65_537, span - 1, span, span + 65_536] {
                        probes.insert(b0.wrapping_add(d));
                    }
                    if b0 > 0 {
                        probes.insert(b0 - 1);
                    }
                    let pv: Vec<u64> = probes.iter().copied().filter(|x| *x < u64::MAX).collect();
                    let inside: Vec<u64> = pv.iter().copied().filter(|x| *x >= b0 && *x < e && !holes.contains(x)).collect();
                    let n = (span - hv.len() as u64) as usize;
                    if rng.chance(1, 2) {
                        out.push(format!("bseg a {b0} {e} {}", show_nat_list(hv.iter().copied())));
                        out.push(format!("scheck a {}", show_nat_list(pv.iter().copied())));
                        out.push("srange a".into());
                        for off in [0usize, 1, 65_530, 65_533, 65_534, 65_535, 65_536, n - 1, n] {
                            if off <= n {
                                out.push(format!("sget a {off}"));
                            }
                        }
                        let off = 65_528usize.min(n.saturating_sub(12));
                        out.push(format!("sslice b a {off} 12"));
                        out.push("siter b".into());
                        let del: Vec<u64> = inside.iter().copied().filter(|_| rng.chance(1, 2)).collect();
                        out.push(format!("sdel c a {}", show_nat_list(del.iter().copied())));
                        out.push(format!("scheck c {}", show_nat_list(pv.iter().copied())));
                        let pos: Vec<u64> = [0u64, 2, 65_530, 65_534, 65_535, 65_536].iter().copied().filter(|p| (*p as usize) < n && rng.chance(2, 3)).collect();
                        out.push(format!("smask d a {}", show_nat_list(pos)));
                        out.push(format!("scheck d {}", show_nat_list(pv.iter().copied())));
                        out.push(format!("shigh h a {}", e + rng.below(3)));
                        out.push(format!("scheck h {}", show_nat_list(pv.iter().copied())));
                    } else {
                        let two = rng.chance(1, 2) && b0 >= 20;
                        if two {
                            out.push(format!("qrange p {} {}", b0 - 20, b0 - 10));
                            out.push(format!("qbig t {b0} {e} {}", show_nat_list(hv.iter().copied())));
                            out.push("qext q p t".into());
                        } else {
                            out.push(format!("qbig q {b0} {e} {}", show_nat_list(hv.iter().copied())));
                        }
                        let shift = if two { 10 } else { 0 };
                        for off in [0usize, 65_530, 65_534, 65_535, 65_536, 65_537, n - 1 + shift, n + shift] {
                            if off <= n + shift {
                                out.push(format!("qget q {off}"));
                            }
                        }
                        out.push(format!("qm2o q allow {}", show_nat_list(pv.iter().copied())));
                        out.push(format!("qslice q {} 12", 65_528usize.min((n + shift).saturating_sub(12))));
                        out.push(format!("qsel q {}", show_nat_list([0u64, 5, 65_533, 65_534, 65_535, 65_536, 65_540].iter().copied().filter(|x| (*x as usize) < n + shift + 3))));
                        let dv: Vec<u64> = [1u64, 65_534, 65_536].iter().copied().filter(|x| (*x as usize) < n && rng.chance(1, 2)).collect();
                        out.push(format!("index {}/q/{} {}", rng.below(4), show_nat_list(dv), show_nat_list(pv.iter().copied())));
                        let del: Vec<u64> = inside.iter().copied().filter(|_| rng.chance(1, 2)).collect();
                        out.push(format!("qdel r q {}", show_nat_list(del.iter().copied())));
                        out.push(format!("qm2o r allow {}", show_nat_list(pv.iter().copied())));
                        out.push(format!("selrows q range {}..{}", 65_530usize.min(n), 65_540usize.min(n + shift)));
                    }
                }
                2 => {
                    // explicit-width sorted arrays at the width limits; probes alias the stored values modulo 2^16 / 2^32
                    let w = *rng.pick(&[16u64, 32, 64]);
                    let lim = match w { 16 => 65_535u64, 32 => u32::MAX as u64, _ => (1u64 << 33) + 5 };
                    let b = b0.min(u64::MAX - 1 - lim - (1u64 << 34));
                    let mut vals: BTreeSet<u64> = BTreeSet::new();
                    vals.insert(b);
                    vals.insert(b + lim);
                    for _ in 0..rng.range(1, 4) {
                        vals.insert(b + match rng.below(4) { 0 => rng.below(10), 1 => lim - rng.below(10).min(lim), 2 => rng.below(lim + 1), _ => 65_535u64.min(lim) });
                    }
                    let vv: Vec<u64> = vals.iter().copied().collect();
                    let mut probes: BTreeSet<u64> = BTreeSet::new();
                    for v in &vv {
                        probes.insert(*v);
                        for k in [65_536u64, 131_072, 1 << 32, 1 << 33, 1] {
                            probes.insert(v + k);
                            if *v >= k {
                                probes.insert(v - k);
                            }
                        }
                    }
                    out.push(format!("ebs {w} {} {}", show_nat_list(vv.iter().copied()), show_nat_list(probes.iter().copied())));
                    out.push(format!("enc {}", show_nat_list(vv.iter().copied())));
                    out.push(format!("sraw a S:{}", show_nat_list(vv.iter().copied())));
                    out.push(format!("scheck a {}", show_nat_list(probes.iter().copied())));
                }
                _ => {
                    // raw RangeWithHoles over 2^16 / 2^32 / 2^33 slots (never iterated), holes array of each width
                    let w = *rng.pick(&[16u64, 32, 64]);
                    let range_span = *rng.pick(&[65_536u64 + 9, 70_000, (1 << 32) - 2, (1 << 32) + 10, (1 << 33) + 10]);
                    let b = b0.min(u64::MAX - 1 - range_span - (1u64 << 34));
                    let hspan = match w { 16 => 65_535u64, 32 => u32::MAX as u64, _ => range_span - 2 }.min(range_span - 2);
                    let h0 = b + rng.below(5);
                    let mut holes: BTreeSet<u64> = BTreeSet::new();
                    holes.insert(h0);
                    for _ in 0..rng.range(1, 4) {
                        holes.insert(h0 + rng.below(hspan.min(50) + 1));
                    }
                    if rng.chance(1, 2) {
                        holes.insert(h0 + hspan.min(range_span - 6));
                    }
                    let hv: Vec<u64> = holes.iter().copied().filter(|h| *h < b + range_span).collect();
                    let mut probes: BTreeSet<u64> = BTreeSet::new();
                    for h in &hv {
                        for k in [0u64, 65_536, 131_072, 1 << 32, 1 << 33] {
                            probes.insert(h + k);
                            probes.insert(h + k + 1);
                        }
                    }
                    for d in [0u64, 65_535, 65_536, range_span - 1, range_span] {
                        probes.insert(b + d);
                    }
                    out.push(format!("hpos {w} {b} {} {} {}", b + range_span, show_nat_list(hv.iter().copied()), show_nat_list(probes.iter().copied())));
                }
            }
            return out;
        }

        // ---- index-focused cases: one pool of unique ids dealt to 2-4 fragments (interleaved / nested key ranges, so that
        //      prep_index_chunks has to merge), each fragment in 1-3 segments, random deletion vectors
        if rng.chance(15, 100) {
            let n = rng.range(4, if tier == Tier::Quick { 28 } else { 60 }) as usize;
            let base = match rng.below(4) { 0 => (1u64 << 32) - 10, 1 => u64::MAX - 200, _ => rng.below(30) };
            let mut pool: Vec<u64> = vec![];
            let mut x = base;
            for _ in 0..n {
                x += if rng.chance(3, 4) { 1 } else { rng.range(2, 6) };
                pool.push(x);
            }
            let nf = rng.range(2, 4) as usize;
            let mut frs: Vec<Vec<u64>> = vec![vec![]; nf];
            // runs of consecutive pool ids go to the same fragment with some probability (nested / touching ranges)
            let mut cur = rng.usize(nf);
            for id in &pool {
                if rng.chance(1, 3) {
                    cur = rng.usize(nf);
                }
                frs[cur].push(*id);
            }
            let mut frags = vec![];
            let mut fid = rng.below(3);
            for (k, ids) in frs.iter_mut().enumerate() {
                if rng.chance(1, 4) {
                    for i in (1..ids.len()).rev() {
                        let j = rng.usize(i + 1);
                        ids.swap(i, j);
                    }
                }
                let r = format!("q{k}");
                let parts = rng.range(1, 3) as usize;
                let mut cuts: Vec<usize> = (0..parts - 1).map(|_| rng.usize(ids.len() + 1)).collect();
                cuts.sort();
                cuts.push(ids.len());
                let mut start = 0;
                let mut first = true;
                for c in cuts {
                    let chunk = &ids[start..c];
                    start = c;
                    let tmp = if first { r.clone() } else { format!("t{k}") };
                    if rng.chance(1, 3) {
                        let d = gen_raw_seg(rng, chunk);
                        out.push(format!("qraw {tmp} {}", show_segd(&d)));
                    } else {
                        out.push(format!("qids {tmp} {}", show_nat_list(chunk.iter().copied())));
                    }
                    if !first {
                        out.push(format!("qext {r} {r} {tmp}"));
                    }
                    first = false;
                }
                let dv = if rng.chance(1, 2) { vec![] } else { sorted_subset(rng, ids.len(), 1, 4) };
                frags.push(format!("{fid}/{r}/{}", show_nat_list(dv)));
                fid += 1 + rng.below(3);
            }
            let mut probes = pool.clone();
            probes.push(base);
            probes.push(x + 1);
            probes.push(x + 7);
            out.push(format!("index {} {}", frags.join(";"), show_nat_list(probes)));
            // and re-chunk the same fragments
            let total = pool.len() as u64;
            let mut sizes = vec![];
            let mut left = total;
            while left > 0 {
                let s = rng.range(1, left.min(9));
                sizes.push(s);
                left -= s;
            }
            let regs: Vec<String> = (0..nf).map(|k| format!("q{k}")).collect();
            out.push(format!("rechunk {} {} 0", regs.join(","), show_nat_list(sizes)));
            return out;
        }

        // ---- random structured cases
        let malformed = rng.chance(12, 100);
        let mut lists: HashMap<String, Vec<u64>> = HashMap::new();
        let mut segs: Vec<String> = vec![];
        let mut seqs: Vec<String> = vec![];
        let nreg = rng.range(1, 3);
        // shared id universe so that sequences of one case have disjoint ids
        let mut next_base_shift = 0u64;
        for k in 0..nreg {
            let mut ids = gen_ids(rng, tier);
            // keep ids of different registers disjoint: shift by a running offset unless near the top
            if ids.iter().all(|x| *x < (1 << 62)) {
                for x in ids.iter_mut() {
                    *x += next_base_shift;
                }
            } else {
                for x in ids.iter_mut() {
                    *x -= next_base_shift;
                }
            }
            next_base_shift += 3000;
            if rng.chance(2, 5) {
                let r = format!("s{k}");
                if rng.chance(1, 3) {
                    let d = gen_raw_seg(rng, &ids);
                    ids = list_of(&d);
                    out.push(format!("sraw {r} {}", show_segd(&d)));
                } else {
                    out.push(format!("seg {r} {}", show_nat_list(ids.iter().copied())));
                }
                lists.insert(r.clone(), ids);
                segs.push(r);
            } else {
                let r = format!("q{k}");
                // 1-3 chunks
                let parts = rng.range(1, 3) as usize;
                let mut cuts: Vec<usize> = (0..parts - 1).map(|_| rng.usize(ids.len() + 1)).collect();
                cuts.sort();
                cuts.push(ids.len());
                let mut start = 0;
                let mut first = true;
                let mut acc: Vec<u64> = vec![];
                for c in cuts {
                    let chunk = &ids[start..c];
                    start = c;
                    let tmp = if first { r.clone() } else { format!("t{k}") };
                    let chunk_list: Vec<u64>;
                    if rng.chance(1, 3) {
                        let d = gen_raw_seg(rng, chunk);
                        chunk_list = list_of(&d);
                        out.push(format!("qraw {tmp} {}", show_segd(&d)));
                    } else if !chunk.is_empty() && chunk.windows(2).all(|w| w[0] + 1 == w[1]) && rng.chance(1, 2) {
                        chunk_list = chunk.to_vec();
                        out.push(format!("qrange {tmp} {} {}", chunk[0], chunk[chunk.len() - 1] + 1));
                    } else {
                        chunk_list = chunk.to_vec();
                        out.push(format!("qids {tmp} {}", show_nat_list(chunk.iter().copied())));
                    }
                    acc.extend(chunk_list);
                    if !first {
                        out.push(format!("qext {r} {r} {tmp}"));
                    }
                    first = false;
                }
                lists.insert(r.clone(), acc);
                seqs.push(r);
            }
        }
        let nops = rng.range(2, 8);
        for _ in 0..nops {
            let use_seg = !segs.is_empty() && (seqs.is_empty() || rng.chance(2, 5));
            if use_seg {
                let a = rng.pick(&segs).clone();
                let l = lists[&a].clone();
                let n = l.len();
                match rng.below(8) {
                    0 => {
                        let off = rng.usize(n + 1);
                        let len = if malformed && rng.chance(1, 3) { rng.usize(n + 3) } else { rng.usize(n - off + 1) };
                        out.push(format!("sslice {a} {a} {off} {len}"));
                        lists.insert(a.clone(), l.iter().copied().skip(off).take(len).collect());
                    }
                    1 => {
                        let mut del: Vec<u64> = l.iter().copied().filter(|_| rng.chance(1, 3)).collect();
                        if malformed && rng.chance(1, 2) && !del.is_empty() {
                            // violate the precondition: absent value / wrong order
                            if rng.chance(1, 2) { del.reverse(); } else { del.insert(0, l[0].wrapping_add(1)); }
                            out.push(format!("sdel z {a} {}", show_nat_list(del)));
                        } else {
                            let ds: HashSet<u64> = del.iter().copied().collect();
                            out.push(format!("sdel {a} {a} {}", show_nat_list(del)));
                            lists.insert(a.clone(), l.iter().copied().filter(|x| !ds.contains(x)).collect());
                        }
                    }
                    2 => {
                        let den = rng.range(2, 5);
                        let pos = sorted_subset(rng, n, 1, den);
                        let ps: HashSet<u64> = pos.iter().copied().collect();
                        out.push(format!("smask {a} {a} {}", show_nat_list(pos)));
                        lists.insert(a.clone(), l.iter().enumerate().filter(|(i, _)| !ps.contains(&(*i as u64))).map(|(_, v)| *v).collect());
                    }
                    3 => {
                        let mx = l.iter().copied().max().unwrap_or(0);
                        let v = if malformed && rng.chance(1, 2) { mx.saturating_sub(rng.below(3)) } else { mx + 1 + if rng.chance(1, 2) { 0 } else { rng.below(40) } };
                        if v < u64::MAX {
                            out.push(format!("shigh h {a} {v}"));
                            out.push("siter h".into());
                        }
                    }
                    4 => out.push(format!("sget {a} {}", rng.usize(n + 2))),
                    5 => {
                        let v = if n > 0 && rng.chance(2, 3) { *rng.pick(&l) } else { l.first().copied().unwrap_or(5).wrapping_add(rng.below(40)).wrapping_sub(3) };
                        out.push(format!("spos {a} {v}"));
                    }
                    6 => out.push(format!("srange {a}")),
                    _ => {
                        if rng.chance(1, 2) {
                            out.push(format!("siter {a}"));
                        } else {
                            // array-like id lists whose span sits around the u16 / u32 offset limits
                            let k = rng.range(2, 6);
                            let span = match rng.below(5) {
                                0 => 65535,
                                1 => 65536,
                                2 => u32::MAX as u64,
                                3 => u32::MAX as u64 + 1,
                                _ => rng.range(40, 100000),
                            };
                            let b0 = match rng.below(3) { 0 => 0, 1 => rng.below(1 << 40), _ => u64::MAX - 1 - span - rng.below(100) };
                            let mut v: Vec<u64> = vec![b0, b0 + span];
                            for _ in 2..k {
                                v.push(b0 + rng.below(span + 1));
                            }
                            let mut seen = HashSet::new();
                            v.retain(|x| seen.insert(*x));
                            if rng.chance(1, 2) { v.sort(); } else { let j = rng.usize(v.len()); v.swap(0, j); }
                            out.push(format!("enc {}", show_nat_list(v)));
                        }
                    }
                }
            } else if !seqs.is_empty() {
                let a = rng.pick(&seqs).clone();
                let l = lists[&a].clone();
                let n = l.len();
                let some_id = |rng: &mut Rng| -> u64 {
                    if n > 0 && rng.chance(3, 4) { *rng.pick(&l) } else { l.first().copied().unwrap_or(5).wrapping_add(rng.below(60)).wrapping_sub(3) }
                };
                match rng.below(12) {
                    0 => {
                        let k = rng.usize(8);
                        let mut del: Vec<u64> = (0..k).map(|_| some_id(rng)).collect();
                        if !malformed {
                            let mut seen = HashSet::new();
                            del.retain(|x| seen.insert(*x));
                        }
                        let ds: HashSet<u64> = del.iter().copied().collect();
                        out.push(format!("qdel {a} {a} {}", show_nat_list(del)));
                        lists.insert(a.clone(), l.iter().copied().filter(|x| !ds.contains(x)).collect());
                    }
                    1 => {
                        let den = rng.range(2, 6);
                        let mut pos = sorted_subset(rng, n, 1, den);
                        if malformed && rng.chance(1, 2) {
                            pos.push(n as u64 + rng.below(3));
                        }
                        let ps: HashSet<u64> = pos.iter().copied().collect();
                        out.push(format!("qmask {a} {a} {}", show_nat_list(pos)));
                        lists.insert(a.clone(), l.iter().enumerate().filter(|(i, _)| !ps.contains(&(*i as u64))).map(|(_, v)| *v).collect());
                    }
                    2 => {
                        let off = rng.usize(n + 1);
                        let len = if malformed && rng.chance(1, 2) { rng.usize(n + 3) } else { rng.usize(n - off + 1) };
                        out.push(format!("qslice {a} {off} {len}"));
                    }
                    3 => {
                        let mut ix: Vec<u64> = (0..rng.usize(8)).map(|_| rng.below(n as u64 + 2)).collect();
                        if !(malformed && rng.chance(1, 2)) {
                            ix.sort();
                        }
                        out.push(format!("qsel {a} {}", show_nat_list(ix)));
                    }
                    4 => out.push(format!("qget {a} {}", rng.usize(n + 2))),
                    5 | 6 => {
                        let k = rng.usize(10);
                        let ids: BTreeSet<u64> = (0..k).map(|_| some_id(rng)).collect();
                        out.push(format!("qm2o {a} {} {}", if rng.chance(2, 3) { "allow" } else { "block" }, show_nat_list(ids)));
                    }
                    7 => {
                        // rechunk all sequence registers
                        let regs: Vec<String> = seqs.clone();
                        let total: usize = regs.iter().map(|r| lists[r].len()).sum();
                        let mut sizes = vec![];
                        let mut left = total as u64;
                        while left > 0 {
                            let lo = if rng.chance(1, 8) { 0 } else { 1 };
                            let s = rng.range(lo, left.min(12));
                            sizes.push(s);
                            left -= s;
                        }
                        if rng.chance(1, 6) { sizes.push(0); }
                        let mut inc = rng.chance(1, 3);
                        if malformed || rng.chance(1, 6) {
                            match rng.below(3) {
                                0 => { sizes.push(rng.range(1, 4)); }
                                1 => { if let Some(x) = sizes.last_mut() { *x = x.saturating_sub(1); } }
                                _ => { sizes.pop(); }
                            }
                            inc = rng.chance(1, 2);
                        }
                        out.push(format!("rechunk {} {} {}", regs.join(","), show_nat_list(sizes), if inc { 1 } else { 0 }));
                    }
                    8 => {
                        let over = if malformed { rng.below(3) as usize } else { 0 };
                        match rng.below(6) {
                            0 => {
                                let ix: Vec<u64> = (0..rng.usize(6)).map(|_| rng.below((n + over).max(1) as u64)).collect();
                                out.push(format!("selrows {a} idx {}", show_nat_list(ix)));
                            }
                            1 => {
                                let s = rng.usize(n + 1);
                                let e = s + rng.usize(n - s + 1 + over);
                                out.push(format!("selrows {a} range {s}..{e}"));
                            }
                            2 => {
                                let rs: Vec<String> = (0..rng.range(1, 3)).map(|_| { let s = rng.usize(n + 1); let e = s + rng.usize(n - s + 1 + over); format!("{s}..{e}") }).collect();
                                out.push(format!("selrows {a} ranges {}", rs.join(",")));
                            }
                            3 => out.push(format!("selrows {a} full -")),
                            4 => out.push(format!("selrows {a} to {}", rng.usize(n + 1 + over))),
                            _ => out.push(format!("selrows {a} from {}", rng.usize(n + 1))),
                        }
                    }
                    9 | 10 => {
                        // index over all sequence registers as fragments
                        let mut fr = vec![];
                        let mut fid = rng.below(3);
                        let mut probes: Vec<u64> = vec![];
                        for r in &seqs {
                            let ln = lists[r].len();
                            let dv = if rng.chance(1, 2) { vec![] } else { sorted_subset(rng, ln, 1, 4) };
                            fr.push(format!("{fid}/{r}/{}", show_nat_list(dv)));
                            fid += 1 + rng.below(3);
                            for _ in 0..3 {
                                if ln > 0 { probes.push(*rng.pick(&lists[r])); }
                            }
                        }
                        for _ in 0..3 { probes.push(some_id(rng)); }
                        out.push(format!("index {} {}", fr.join(";"), show_nat_list(probes)));
                    }
                    _ => out.push(format!("qiter {a}")),
                }
            }
        }
        out
    }

    fn exec_case(&mut self, lines: &[String]) -> CaseResult {
        let mut cx = Ctx { regs: HashMap::new(), fails: vec![], tags: BTreeSet::new(), line: 0 };
        let mut outputs = vec![];
        for (i, l) in lines.iter().enumerate() {
            cx.line = i;
            let o = match pcatch(|| exec_line(&mut cx, l)) {
                Some(o) => o,
                None => PANIC.into(),
            };
            if o == PANIC {
                cx.tags.insert("out:panic".into());
            } else if o == "err" {
                cx.tags.insert("out:err".into());
            } else if o == BAD {
                cx.tags.insert("out:bad-op".into());
            }
            outputs.push(o);
        }
        let nontrivial = (cx.regs.values().any(|(_, l)| l.len() >= 2) || lines.iter().any(|l| l.starts_with("hpos ") || l.starts_with("ebs ")))
            && lines.iter().any(|l| !(l.starts_with("seg ") || l.starts_with("qids ") || l.starts_with("qraw ") || l.starts_with("sraw ") || l.starts_with("qrange ")));
        CaseResult { outputs, failures: cx.fails, tags: cx.tags.into_iter().collect(), nontrivial }
    }
}

fn main() {
    run_main(C34 {})
}
