//! C13: compaction (and the `Rewrite` commit) never changes table contents.
//!
//! Interpreter of the C13 op lines against the REAL lance code (`Dataset::write`, `Dataset::delete`, `create_index`,
//! `plan_compaction` + `CompactionTask::execute` + `commit_compaction`, `compact_files`, `Scanner`), a seeded generator
//! of histories that produce many small / partly deleted fragments, and the property oracle.
//!
//! Op lines (one dataset per case; schema fixed to two nullable Int64 columns c0 = unique key, c1 = indexed value):
//!
//! ```text
//! create s=<0|1> f=<nat> <rows>      Dataset::write(Create), one batch, max_rows_per_file = f, stable row ids s
//! append f=<nat> <rows>              Dataset::write(Append)
//! delete <natlist>                   Dataset::delete("c0 IN (…)")
//! index                              create_index(["c1"], BTree, "i1", replace = true)
//! compact t=<nat> m=<0|1> th=<a>/<b> d=<0|1> via=<files|tasks> x=<natlist> c=<natlist>
//!     t = target_rows_per_fragment, m = materialize_deletions, th = materialize_deletions_threshold (a as f32 / b as f32),
//!     d = defer_index_remap.  via=files: compact_files (num_threads = 1).  via=tasks: plan_compaction, then
//!     CompactionTask::execute in the order derived from x (pick x[j mod len] mod remaining), then one
//!     commit_compaction per batch: the task at execution position j goes to batch c[j mod len] mod 4 (0 = its result
//!     is dropped); batches 1, 2, 3 are committed in this order, batch 2 with its tasks reversed.
//! query <eq|lt|null> <int>           scan with filter on c1 (use_scalar_index = true), result = c0 values in scan order
//! ```
//! Output: `ok [plan=<ids|ids…> maps=<old>new,…|…> m=<removed>/<added>] v=<version> mf=<max_fragment_id>
//! frags=<id:rows:dels,…> idx=<bitmap of i1 as load_indices shows it> fri=<bitmap of the fragment reuse index>
//! rows=<c0,c1,_rowid,_rowaddr[,created,updated];…>` / `ok rows=<c0;…>` / `err <kind>` / `err parse`.
//!
//! Oracle (never looks at the Lean model): after every step the multiset of (c0, c1) is what the harness wrote and
//! did not delete, count_rows agrees, every `_rowaddr` names a physical row of a listed fragment; a compaction leaves
//! the multiset of visible rows unchanged, with stable row ids every (c0, c1) keeps its (_rowid, created, updated),
//! without them `_rowid = _rowaddr`; the row id map a task returns maps exactly the old addresses of the live rows
//! of its fragments to addresses that hold the same row afterwards (injectively) and every other physical address of
//! those fragments to "deleted"; filters on the indexed column return the same rows with and without the index.

use std::collections::{BTreeMap, HashMap, HashSet};
use std::sync::Arc;

use hcommon::*;
use lance::dataset::index::DatasetIndexRemapperOptions;
use lance::dataset::optimize::{
    commit_compaction, compact_files, plan_compaction, CompactionMetrics, CompactionOptions, CompactionTask, RewriteResult,
};
use lance::Dataset;
use lance_index::frag_reuse::FRAG_REUSE_INDEX_NAME;
use lance_index::scalar::ScalarIndexParams;
use lance_index::{DatasetIndexExt, IndexType};

#[path = "../tablekit.rs"]
#[allow(dead_code)]
mod tablekit;
use tablekit::*;

struct C13 {
    kit: Kit,
}

#[derive(Clone, Debug)]
struct CompactOp {
    target: usize,
    materialize: bool,
    th_num: u64,
    th_den: u64,
    defer: bool,
    files: bool,
    xs: Vec<u64>,
    cs: Vec<u64>,
}

#[derive(Clone, Debug)]
enum Op {
    Create { stable: bool, f: usize, rows: Vec<Row> },
    Append { f: usize, rows: Vec<Row> },
    Delete(Vec<u64>),
    Index,
    Compact(CompactOp),
    Query { kind: String, v: i64 },
}

fn tok<'a>(key: &str, t: &'a str) -> Option<&'a str> {
    t.strip_prefix(key)?.strip_prefix('=')
}

fn parse_usize(s: &str) -> Option<usize> {
    if !s.is_empty() && s.bytes().all(|b| b.is_ascii_digit()) {
        s.parse::<u64>().ok().map(|v| v as usize)
    } else {
        None
    }
}

fn parse_usize_list(s: &str) -> Option<Vec<u64>> {
    if s == "-" {
        return Some(vec![]);
    }
    s.split(',').map(|x| parse_usize(x).map(|v| v as u64)).collect()
}

fn parse_bit(s: &str) -> Option<bool> {
    match s {
        "0" => Some(false),
        "1" => Some(true),
        _ => None,
    }
}

fn parse_rows2(s: &str) -> Option<Vec<Row>> {
    let rs = parse_rows(s)?;
    if rs.iter().all(|r| r.len() == 2) {
        Some(rs)
    } else {
        None
    }
}

fn parse_op(line: &str) -> Option<Op> {
    let t: Vec<&str> = line.split(' ').filter(|s| !s.is_empty()).collect();
    match t.as_slice() {
        ["create", s, f, rows] => {
            let stable = parse_bit(tok("s", s)?)?;
            let f = parse_usize(tok("f", f)?)?;
            let rows = parse_rows2(rows)?;
            if f == 0 || rows.is_empty() {
                return None;
            }
            Some(Op::Create { stable, f, rows })
        }
        ["append", f, rows] => {
            let f = parse_usize(tok("f", f)?)?;
            let rows = parse_rows2(rows)?;
            if f == 0 || rows.is_empty() {
                return None;
            }
            Some(Op::Append { f, rows })
        }
        ["delete", keys] => {
            let ks = parse_usize_list(keys)?;
            if ks.is_empty() {
                return None;
            }
            Some(Op::Delete(ks))
        }
        ["index"] => Some(Op::Index),
        ["compact", tv, m, th, d, via, x, c] => {
            let target = parse_usize(tok("t", tv)?)?;
            let materialize = parse_bit(tok("m", m)?)?;
            let th = tok("th", th)?;
            let (a, b) = th.split_once('/')?;
            let (a, b) = (parse_usize(a)? as u64, parse_usize(b)? as u64);
            if b == 0 || b > 64 || a > 1024 {
                return None;
            }
            let defer = parse_bit(tok("d", d)?)?;
            let files = match tok("via", via)? {
                "files" => true,
                "tasks" => false,
                _ => return None,
            };
            let xs = parse_usize_list(tok("x", x)?)?;
            let cs = parse_usize_list(tok("c", c)?)?;
            if target == 0 {
                return None;
            }
            Some(Op::Compact(CompactOp { target, materialize, th_num: a, th_den: b, defer, files, xs, cs }))
        }
        ["query", kind, v] => {
            if !matches!(*kind, "eq" | "lt" | "null") {
                return None;
            }
            let v = parse_cell(v)??;
            Some(Op::Query { kind: kind.to_string(), v })
        }
        _ => None,
    }
}

/// execution order of `n` tasks from the numbers `xs` (mirrored by `LanceModel.C13.execOrder`)
fn exec_order(xs: &[u64], n: usize) -> Vec<usize> {
    let mut remaining: Vec<usize> = (0..n).collect();
    let mut out = vec![];
    let mut j = 0usize;
    while !remaining.is_empty() {
        let x = if xs.is_empty() { 0 } else { xs[j % xs.len()] };
        let k = (x % remaining.len() as u64) as usize;
        out.push(remaining.remove(k));
        j += 1;
    }
    out
}

/// the commits (mirrored by `LanceModel.C13.batches`)
fn batches<T: Clone>(cs: &[u64], done: &[T]) -> Vec<Vec<T>> {
    let batch_of = |j: usize| if cs.is_empty() { 1 } else { cs[j % cs.len()] % 4 };
    let pick = |b: u64| -> Vec<T> { done.iter().enumerate().filter(|(j, _)| batch_of(*j) == b).map(|(_, d)| d.clone()).collect() };
    let mut b2 = pick(2);
    b2.reverse();
    vec![pick(1), b2, pick(3)].into_iter().filter(|l| !l.is_empty()).collect()
}

const FRAG_SIZE: i64 = 1 << 32;

/// one observed row of a scan with meta columns
#[derive(Clone, Debug, PartialEq, Eq, PartialOrd, Ord)]
struct Obs {
    c0: Cell,
    c1: Cell,
    rowid: i64,
    addr: i64,
    cr: i64,
    up: i64,
}

struct Snapshot {
    stable: bool,
    rows: Vec<Obs>,
    frags: Vec<(u64, usize, usize)>,
}

impl C13 {
    fn spec() -> SchemaSpec {
        SchemaSpec::ints(2)
    }

    fn scan_meta(kit: &Kit, ds: &Dataset, stable: bool) -> KitResult<Vec<Obs>> {
        let mut sc = ds.scan();
        sc.scan_in_order(true);
        let mut meta = vec!["_rowid", "_rowaddr"];
        if stable {
            sc.project(&["c0", "c1", "_row_created_at_version", "_row_last_updated_at_version"])?;
            meta.push("_row_created_at_version");
            meta.push("_row_last_updated_at_version");
        }
        sc.with_row_id();
        sc.with_row_address();
        let batch = kit.block_on(sc.try_into_batch())?;
        let rows = Self::spec().decode(&batch, &meta).map_err(|e| KitError::other(format!("decode: {}", e.0)))?;
        rows.into_iter()
            .map(|r| {
                let g = |i: usize| r.get(i).copied().flatten().ok_or_else(|| KitError::other("NULL meta column"));
                Ok(Obs {
                    c0: r[0],
                    c1: r[1],
                    rowid: g(2)?,
                    addr: g(3)?,
                    cr: if stable { g(4)? } else { 0 },
                    up: if stable { g(5)? } else { 0 },
                })
            })
            .collect()
    }

    fn filter_scan(kit: &Kit, ds: &Dataset, filter: &str, use_index: bool) -> KitResult<Vec<Cell>> {
        // C13_FRESH=1 (with C13_DISK=1): query through a brand-new session, to rule out cache effects
        let fresh;
        let ds = if std::env::var("C13_FRESH").is_ok() {
            let b = lance::dataset::builder::DatasetBuilder::from_uri(ds.uri()).with_read_params(lance::dataset::ReadParams {
                session: Some(Arc::new(lance::session::Session::default())),
                ..Default::default()
            });
            fresh = kit.block_on(b.load())?;
            &fresh
        } else {
            ds
        };
        let mut sc = ds.scan();
        sc.scan_in_order(true);
        sc.use_scalar_index(use_index);
        sc.filter(filter)?;
        let batch = kit.block_on(sc.try_into_batch())?;
        let rows = Self::spec().decode(&batch, &[]).map_err(|e| KitError::other(format!("decode: {}", e.0)))?;
        Ok(rows.into_iter().map(|r| r[0]).collect())
    }

    fn bitmap_of(kit: &Kit, ds: &Dataset, name: &str) -> String {
        let r = std::panic::catch_unwind(std::panic::AssertUnwindSafe(|| kit.block_on(ds.load_indices())));
        match r {
            Err(_) => "panic".into(),
            Ok(Err(e)) => format!("err:{}", canon_err(&e).as_str()),
            Ok(Ok(ix)) => match ix.iter().find(|i| i.name == name) {
                None => "none".into(),
                Some(i) => match &i.fragment_bitmap {
                    None => "nobitmap".into(),
                    Some(b) => show_nat_list(b.iter().map(|x| x as u64)),
                },
            },
        }
    }

    fn show_obs(stable: bool, rows: &[Obs]) -> String {
        let rs: Vec<Row> = rows
            .iter()
            .map(|o| {
                let mut r = vec![o.c0, o.c1, Some(o.rowid), Some(o.addr)];
                if stable {
                    r.push(Some(o.cr));
                    r.push(Some(o.up));
                }
                r
            })
            .collect();
        show_rows(&rs)
    }

    fn filter_sql(kind: &str, v: i64) -> String {
        match kind {
            "eq" => format!("c1 = {v}"),
            "lt" => format!("c1 < {v}"),
            _ => "c1 IS NULL".into(),
        }
    }

    fn filter_match(kind: &str, v: i64, c1: Cell) -> bool {
        match (kind, c1) {
            ("eq", Some(x)) => x == v,
            ("lt", Some(x)) => x < v,
            ("null", None) => true,
            _ => false,
        }
    }
}

fn sorted<T: Ord + Clone>(v: &[T]) -> Vec<T> {
    let mut s = v.to_vec();
    s.sort();
    s
}

impl Prop for C13 {
    fn id(&self) -> &'static str {
        "C13"
    }

    fn budget(&self, tier: Tier) -> usize {
        match tier {
            Tier::Quick => 260,
            Tier::Thorough => 4000,
            Tier::Search => 1200,
        }
    }

    fn gen_case(&mut self, rng: &mut Rng, _tier: Tier, _idx: usize) -> Vec<String> {
        let malformed = rng.chance(3, 20);
        let stable = rng.chance(2, 5);
        let case_defer = rng.chance(1, 4);
        let mut lines: Vec<String> = vec![];
        let mut next_key: u64 = 0;
        let mut live: Vec<u64> = vec![];
        let gen_rows = |rng: &mut Rng, n: usize, next_key: &mut u64, live: &mut Vec<u64>| -> String {
            let rows: Vec<Row> = (0..n)
                .map(|_| {
                    let k = *next_key;
                    *next_key += 1;
                    live.push(k);
                    let c1 = if rng.chance(1, 10) { None } else { Some(rng.below(6) as i64) };
                    vec![Some(k as i64), c1]
                })
                .collect();
            show_rows(&rows)
        };
        let n0 = 2 + rng.usize(12);
        let f0 = 1 + rng.usize(6);
        lines.push(format!("create s={} f={} {}", stable as u8, f0, gen_rows(rng, n0, &mut next_key, &mut live)));
        let rounds = 1 + rng.usize(2) + (rng.chance(1, 4) as usize);
        for round in 0..rounds {
            let n_ops = 1 + rng.usize(5);
            let index_at = if rng.chance(3, 5) { Some(rng.usize(n_ops + 1)) } else { None };
            for i in 0..n_ops {
                if index_at == Some(i) {
                    lines.push("index".into());
                }
                if rng.chance(3, 5) || live.is_empty() {
                    let n = 1 + rng.usize(8);
                    let f = if rng.chance(1, 6) { 100 } else { 1 + rng.usize(5) };
                    lines.push(format!("append f={} {}", f, gen_rows(rng, n, &mut next_key, &mut live)));
                } else {
                    // delete a random subset (sometimes a contiguous run of keys = whole fragments)
                    let mut ks: Vec<u64> = vec![];
                    if rng.chance(1, 3) {
                        let start = rng.usize(live.len());
                        let len = 1 + rng.usize(5);
                        ks.extend(live.iter().skip(start).take(len));
                    } else {
                        let n = 1 + rng.usize(4);
                        for _ in 0..n {
                            ks.push(*rng.pick(&live));
                        }
                    }
                    ks.sort();
                    ks.dedup();
                    if ks.len() >= live.len() {
                        ks.pop(); // never delete the whole table
                    }
                    if ks.is_empty() {
                        continue;
                    }
                    live.retain(|k| !ks.contains(k));
                    lines.push(format!("delete {}", show_nat_list(ks.iter().copied())));
                }
            }
            if index_at == Some(n_ops) {
                lines.push("index".into());
            }
            let target = match rng.below(10) {
                0 => 1000,
                1 => 1,
                _ => 2 + rng.usize(10),
            };
            let (a, b) = *rng.pick(&[(0u64, 1u64), (0, 1), (1, 10), (1, 4), (1, 2), (3, 4), (1, 1), (2, 1), (1, 3)]);
            let defer = if rng.chance(1, 10) { !case_defer } else { case_defer };
            let files = rng.chance(2, 5);
            let xs: Vec<u64> = (0..1 + rng.usize(3)).map(|_| rng.below(8)).collect();
            let cs: Vec<u64> = (0..1 + rng.usize(3)).map(|_| if rng.chance(1, 2) { 1 } else { rng.below(4) }).collect();
            let mut line = format!(
                "compact t={} m={} th={}/{} d={} via={} x={} c={}",
                target,
                rng.chance(7, 10) as u8,
                a,
                b,
                defer as u8,
                if files { "files" } else { "tasks" },
                show_nat_list(xs),
                show_nat_list(cs)
            );
            if malformed && rng.chance(1, 4) {
                line = match rng.below(4) {
                    0 => line.replacen("t=", "t=0", 1),
                    1 => line.replacen("th=", "th=x", 1),
                    2 => line.replacen("via=", "via=q", 1),
                    _ => format!("{line} 7"),
                };
            }
            lines.push(line);
            for _ in 0..1 + rng.usize(2) {
                let kind = *rng.pick(&["eq", "eq", "lt", "null"]);
                lines.push(format!("query {} {}", kind, rng.below(7)));
            }
            if malformed && round == 0 {
                lines.push(match rng.below(4) {
                    0 => "create s=0 f=2 1,1".to_string(),
                    1 => "append f=2 1,2,3".to_string(),
                    2 => "delete -".to_string(),
                    _ => "query ge 1".to_string(),
                });
            }
        }
        if malformed && rng.chance(1, 3) {
            lines.insert(0, "index".into());
        }
        lines
    }

    fn exec_case(&mut self, lines: &[String]) -> CaseResult {
        self.kit.reset_session();
        let uri = if std::env::var("C13_DISK").is_ok() { self.kit.tempdir_uri() } else { self.kit.fresh_uri() };
        let kit = &self.kit;
        let spec = Self::spec();
        let mut res = CaseResult::default();
        let mut ds: Option<Dataset> = None;
        let mut stable = false;
        // the harness's own idea of the table: key -> c1 of every live row
        let mut expect: BTreeMap<i64, Cell> = BTreeMap::new();
        let mut compactions_with_effect = 0usize;
        // regions of the two open findings (see known_findings.json): a fragment reuse index exists on a table with
        // stable row ids / a non-deferred compaction rewrote fragments while a fragment reuse index existed
        let mut fri_exists = false;
        let mut immediate_after_fri = false;

        for (ln, line) in lines.iter().enumerate() {
            let Some(op) = parse_op(line) else {
                res.outputs.push("err parse".into());
                res.tags.push("err:parse".into());
                continue;
            };
            // ops in the wrong state are outside the grammar of a case
            match (&op, &ds) {
                (Op::Create { .. }, Some(_)) => {
                    res.outputs.push("err parse".into());
                    res.tags.push("err:parse".into());
                    continue;
                }
                (Op::Create { .. }, None) => {}
                (_, None) => {
                    res.outputs.push("err parse".into());
                    res.tags.push("err:parse".into());
                    continue;
                }
                _ => {}
            }
            let mut fail = |res: &mut CaseResult, what: String, key: &str| {
                res.failures.push(OracleFailure { what, key: Some(key.into()), line: ln })
            };
            let before: Option<Snapshot> = match (&op, &ds) {
                (Op::Compact(_), Some(d)) => Self::scan_meta(kit, d, stable)
                    .ok()
                    .map(|rows| Snapshot { stable, rows, frags: Kit::fragments(d) }),
                _ => None,
            };
            let mut prefix = String::new();
            let mut task_maps: Vec<(RewriteResult, bool)> = vec![];
            let outcome: std::thread::Result<KitResult<Option<String>>> =
                std::panic::catch_unwind(std::panic::AssertUnwindSafe(|| -> KitResult<Option<String>> {
                    match &op {
                        Op::Create { stable: s, f, rows } => {
                            let knobs = Knobs { max_rows_per_file: Some(*f), stable_row_ids: *s, ..Default::default() };
                            let d = kit.create(&uri, &spec, &[rows.clone()], &knobs)?;
                            stable = *s;
                            for r in rows {
                                expect.insert(r[0].unwrap_or(-1), r[1]);
                            }
                            ds = Some(d);
                            res.tags.push(format!("op:create stable={}", *s as u8));
                            Ok(None)
                        }
                        Op::Append { f, rows } => {
                            let knobs = Knobs { max_rows_per_file: Some(*f), ..Default::default() };
                            let d = kit.append(ds.as_ref().unwrap(), &spec, &[rows.clone()], &knobs)?;
                            for r in rows {
                                expect.insert(r[0].unwrap_or(-1), r[1]);
                            }
                            ds = Some(d);
                            res.tags.push("op:append".into());
                            Ok(None)
                        }
                        Op::Delete(ks) => {
                            let d = ds.as_mut().unwrap();
                            let pred = format!("c0 IN ({})", ks.iter().map(|k| k.to_string()).collect::<Vec<_>>().join(","));
                            kit.block_on(d.delete(&pred))?;
                            for k in ks {
                                expect.remove(&(*k as i64));
                            }
                            res.tags.push("op:delete".into());
                            Ok(None)
                        }
                        Op::Index => {
                            let d = ds.as_mut().unwrap();
                            kit.block_on(d.create_index(&["c1"], IndexType::BTree, Some("i1".into()), &ScalarIndexParams::default(), true))?;
                            res.tags.push("op:index".into());
                            Ok(None)
                        }
                        Op::Compact(c) => {
                            let d = ds.as_mut().unwrap();
                            let opts = CompactionOptions {
                                target_rows_per_fragment: c.target,
                                materialize_deletions: c.materialize,
                                materialize_deletions_threshold: c.th_num as f32 / c.th_den as f32,
                                defer_index_remap: c.defer,
                                num_threads: Some(1),
                                ..Default::default()
                            };
                            let plan = kit.block_on(plan_compaction(d, &opts))?;
                            let plan_txt = if plan.tasks.is_empty() {
                                "-".to_string()
                            } else {
                                plan.tasks
                                    .iter()
                                    .map(|t| show_nat_list(t.fragments.iter().map(|f| f.id)))
                                    .collect::<Vec<_>>()
                                    .join("|")
                            };
                            // plan_disjoint / contiguity, on the real plan
                            let mut seen: HashSet<u64> = HashSet::new();
                            for t in &plan.tasks {
                                for f in &t.fragments {
                                    if !seen.insert(f.id) {
                                        fail(&mut res, format!("fragment {} appears in two tasks of the plan {plan_txt}", f.id), "plan_overlap");
                                    }
                                }
                            }
                            res.tags.push(format!("plan:tasks={}", plan.tasks.len().min(4)));
                            res.tags.push(format!("compact:{} defer={} stable={}", if c.files { "files" } else { "tasks" }, c.defer as u8, stable as u8));
                            let mut metrics = CompactionMetrics::default();
                            let mut maps_txt = "-".to_string();
                            if c.files {
                                metrics = kit.block_on(compact_files(d, opts.clone(), None))?;
                            } else {
                                let tasks: Vec<CompactionTask> = plan.compaction_tasks().collect();
                                let order = exec_order(&c.xs, tasks.len());
                                let mut done: Vec<RewriteResult> = vec![];
                                for k in &order {
                                    done.push(kit.block_on(tasks[*k].execute(d))?);
                                }
                                if !stable && !c.defer && !done.is_empty() {
                                    maps_txt = done
                                        .iter()
                                        .map(|r| {
                                            let mut m: Vec<(u64, Option<u64>)> =
                                                r.row_id_map.as_ref().map(|m| m.iter().map(|(k, v)| (*k, *v)).collect()).unwrap_or_default();
                                            m.sort();
                                            if m.is_empty() {
                                                "-".to_string()
                                            } else {
                                                m.iter()
                                                    .map(|(a, b)| format!("{a}>{}", b.map(|b| b.to_string()).unwrap_or_else(|| "x".into())))
                                                    .collect::<Vec<_>>()
                                                    .join(",")
                                            }
                                        })
                                        .collect::<Vec<_>>()
                                        .join("|");
                                }
                                let bs = batches(&c.cs, &done);
                                let committed: usize = bs.iter().map(|b| b.len()).sum();
                                if committed < done.len() {
                                    res.tags.push("commit:subset".into());
                                }
                                if bs.len() > 1 {
                                    res.tags.push("commit:several_batches".into());
                                }
                                if order.windows(2).any(|w| w[0] > w[1]) {
                                    res.tags.push("exec:out_of_order".into());
                                }
                                let batch_of = |j: usize| if c.cs.is_empty() { 1 } else { c.cs[j % c.cs.len()] % 4 };
                                for (j, r) in done.iter().enumerate() {
                                    task_maps.push((r.clone(), batch_of(j) != 0));
                                }
                                for b in bs {
                                    metrics += kit.block_on(commit_compaction(d, b, Arc::new(DatasetIndexRemapperOptions::default()), &opts))?;
                                }
                            }
                            prefix = format!("plan={} maps={} m={}/{} ", plan_txt, maps_txt, metrics.fragments_removed, metrics.fragments_added);
                            if metrics.fragments_removed > 0 {
                                compactions_with_effect += 1;
                            }
                            Ok(None)
                        }
                        Op::Query { kind, v } => {
                            let d = ds.as_ref().unwrap();
                            let sql = Self::filter_sql(kind, *v);
                            // the output line is the plain (un-indexed) filter scan; the indexed one is judged by the oracle
                            let without = Self::filter_scan(kit, d, &sql, false)?;
                            res.tags.push("op:query".into());
                            let key = if stable && fri_exists {
                                "stable_defer_index_drops_rows"
                            } else if !stable && fri_exists && immediate_after_fri {
                                "defer_then_immediate_remap_loses_rows"
                            } else {
                                "index_query_mismatch"
                            };
                            match Self::filter_scan(kit, d, &sql, true) {
                                Ok(with) if with == without => {}
                                other => fail(
                                    &mut res,
                                    format!("filter {sql}: with the scalar index {:?}, without it {:?}", other.map_err(|e| e.msg), without),
                                    key,
                                ),
                            }
                            let want: Vec<Cell> = expect.iter().filter(|(_, c1)| Self::filter_match(kind, *v, **c1)).map(|(k, _)| Some(*k)).collect();
                            if sorted(&without) != want {
                                fail(&mut res, format!("filter {sql} returned keys {:?}, the table holds {:?}", without, want), "query_wrong_rows");
                            }
                            Ok(Some(format!("ok rows={}", show_rows(&without.iter().map(|c| vec![*c]).collect::<Vec<_>>()))))
                        }
                    }
                }));
            let outcome = match outcome {
                Ok(o) => o,
                Err(e) => {
                    let msg = e
                        .downcast_ref::<String>()
                        .cloned()
                        .or_else(|| e.downcast_ref::<&str>().map(|s| s.to_string()))
                        .unwrap_or_else(|| "panic".into());
                    fail(&mut res, format!("{line}: panicked: {msg}"), "op_panic");
                    res.outputs.push("err panic".into());
                    res.tags.push("err:panic".into());
                    continue;
                }
            };
            match outcome {
                Err(e) => {
                    if std::env::var("C13_DEBUG").is_ok() {
                        eprintln!("line {ln}: {:?}: {}", e.kind, e.msg);
                    }
                    if matches!(op, Op::Compact(_)) {
                        fail(&mut res, format!("{line}: failed: {}", e.msg), "compaction_failed");
                    }
                    res.outputs.push(format!("err {}", e.kind.as_str()));
                    res.tags.push(format!("err:{}", e.kind.as_str()));
                    continue;
                }
                Ok(Some(out)) => {
                    res.outputs.push(out);
                    continue;
                }
                Ok(None) => {}
            }
            // ---- observe the new state
            let d = ds.as_mut().unwrap();
            if let Err(e) = kit.block_on(d.checkout_latest()) {
                fail(&mut res, format!("checkout_latest failed: {e}"), "reopen_failed");
            }
            let d = ds.as_ref().unwrap();
            let frags = Kit::fragments(d);
            let idx = Self::bitmap_of(kit, d, "i1");
            let fri = Self::bitmap_of(kit, d, FRAG_REUSE_INDEX_NAME);
            if let Op::Compact(c) = &op {
                if fri_exists && !c.defer && !stable && before.as_ref().map(|b| b.frags != frags).unwrap_or(false) {
                    immediate_after_fri = true;
                }
            }
            if fri != "none" {
                fri_exists = true;
            }
            if idx == "panic" || fri == "panic" {
                fail(&mut res, format!("{line}: load_indices panics on the resulting version"), "load_indices_panic");
            }
            let scan = std::panic::catch_unwind(std::panic::AssertUnwindSafe(|| Self::scan_meta(kit, d, stable)));
            let scan = match scan {
                Ok(s) => s,
                Err(_) => Err(KitError::other("scan panicked")),
            };
            let rows_txt = match &scan {
                Ok(rows) => {
                    // the table holds what was written and not deleted
                    let got: Vec<(Cell, Cell)> = sorted(&rows.iter().map(|o| (o.c0, o.c1)).collect::<Vec<_>>());
                    let want: Vec<(Cell, Cell)> = expect.iter().map(|(k, v)| (Some(*k), *v)).collect();
                    if got != want {
                        fail(&mut res, format!("{line}: the table holds {:?}, expected {:?}", got, want), "contents_changed");
                    }
                    match kit.count_rows(d, None) {
                        Ok(n) if n == rows.len() => {}
                        other => fail(&mut res, format!("count_rows {:?} vs {} scanned rows", other.map_err(|e| e.msg), rows.len()), "count_mismatch"),
                    }
                    // addresses name physical rows of listed fragments, uniquely
                    let fr: HashMap<u64, usize> = frags.iter().map(|f| (f.0, f.1)).collect();
                    let mut seen = HashSet::new();
                    for o in rows {
                        let (fid, off) = ((o.addr / FRAG_SIZE) as u64, (o.addr % FRAG_SIZE) as usize);
                        if fr.get(&fid).map(|n| off >= *n).unwrap_or(true) || !seen.insert(o.addr) {
                            fail(&mut res, format!("row address {} is not a distinct physical row of {}", o.addr, show_frags(&frags)), "bad_row_address");
                        }
                        if !stable && o.rowid != o.addr {
                            fail(&mut res, format!("_rowid {} != _rowaddr {} without stable row ids", o.rowid, o.addr), "rowid_not_address");
                        }
                    }
                    if stable {
                        let ids: HashSet<i64> = rows.iter().map(|o| o.rowid).collect();
                        if ids.len() != rows.len() {
                            fail(&mut res, "stable row ids are not unique".into(), "rowid_duplicate");
                        }
                    }
                    let live: usize = frags.iter().map(|f| f.1 - f.2).sum();
                    if live != rows.len() || frags.iter().any(|f| f.1 == 0) {
                        fail(&mut res, format!("fragment metadata {} does not add up to {} rows", show_frags(&frags), rows.len()), "fragment_rows_mismatch");
                    }
                    Self::show_obs(stable, rows)
                }
                Err(e) => {
                    fail(&mut res, format!("{line}: scan failed: {}", e.msg), "scan_error");
                    "err".to_string()
                }
            };
            // ---- compaction: before / after
            if let (Op::Compact(c), Some(b), Ok(after)) = (&op, &before, &scan) {
                let key = |o: &Obs| (o.c0, o.c1, if b.stable { o.rowid } else { 0 }, o.cr, o.up);
                if sorted(&b.rows.iter().map(key).collect::<Vec<_>>()) != sorted(&after.iter().map(key).collect::<Vec<_>>()) {
                    fail(
                        &mut res,
                        format!("compaction changed the rows (with ids/versions): before {} after {}", Self::show_obs(b.stable, &b.rows), Self::show_obs(b.stable, after)),
                        if b.stable { "stable_id_or_version_changed" } else { "rows_changed" },
                    );
                }
                let order_kept = b.rows.iter().map(|o| o.c0).collect::<Vec<_>>() == after.iter().map(|o| o.c0).collect::<Vec<_>>();
                if b.frags != frags {
                    res.tags.push(format!("order:{}", if order_kept { "kept" } else { "changed" }));
                    if b.frags.iter().any(|f| f.2 > 0) {
                        res.tags.push("compact:had_deletions".into());
                    }
                    if idx != "none" {
                        res.tags.push("compact:indexed".into());
                    }
                }
                // remap_total on the real row id maps of committed tasks
                let before_at: HashMap<i64, &Obs> = b.rows.iter().map(|o| (o.addr, o)).collect();
                let after_at: HashMap<i64, &Obs> = after.iter().map(|o| (o.addr, o)).collect();
                for (r, committed) in &task_maps {
                    let Some(map) = &r.row_id_map else { continue };
                    if b.stable {
                        if !map.is_empty() {
                            fail(&mut res, "a task on a table with stable row ids returned a row id map".into(), "remap_not_total");
                        }
                        continue;
                    }
                    let mut targets = HashSet::new();
                    for f in &r.original_fragments {
                        for off in 0..f.physical_rows.unwrap_or(0) {
                            let a = (f.id as i64) * FRAG_SIZE + off as i64;
                            match (before_at.get(&a), map.get(&(a as u64))) {
                                (Some(o), Some(Some(n))) => {
                                    if !targets.insert(*n) {
                                        fail(&mut res, format!("row id map sends two addresses to {n}"), "remap_not_injective");
                                    }
                                    if *committed && after_at.get(&(*n as i64)).map(|x| (x.c0, x.c1)) != Some((o.c0, o.c1)) {
                                        fail(&mut res, format!("row id map sends {a} (row {:?}) to {n} which holds {:?}", (o.c0, o.c1), after_at.get(&(*n as i64)).map(|x| (x.c0, x.c1))), "remap_wrong_row");
                                    }
                                }
                                (None, Some(None)) => {}
                                (x, y) => fail(&mut res, format!("address {a}: live before = {}, row id map entry = {:?}", x.is_some(), y), "remap_not_total"),
                            }
                        }
                    }
                    let phys: usize = r.original_fragments.iter().map(|f| f.physical_rows.unwrap_or(0)).sum();
                    if map.len() != phys {
                        fail(&mut res, format!("row id map has {} entries for {} physical rows", map.len(), phys), "remap_not_total");
                    }
                }
                // indexed = un-indexed
                for (kind, v) in [("eq", 2i64), ("lt", 3), ("null", 0)] {
                    let sql = Self::filter_sql(kind, v);
                    let with = Self::filter_scan(kit, d, &sql, true);
                    let without = Self::filter_scan(kit, d, &sql, false);
                    match (&with, &without) {
                        (Ok(a), Ok(b2)) if sorted(a) == sorted(b2) => {}
                        _ => fail(
                            &mut res,
                            format!("after compaction, filter {sql}: with index {:?}, without {:?}", with.map_err(|e| e.msg), without.map_err(|e| e.msg)),
                            if stable && fri_exists {
                                "stable_defer_index_drops_rows"
                            } else if !stable && fri_exists && immediate_after_fri {
                                "defer_then_immediate_remap_loses_rows"
                            } else {
                                "index_query_mismatch"
                            },
                        ),
                    }
                }
                let _ = c;
            }
            res.outputs.push(format!(
                "ok {}v={} mf={} frags={} idx={} fri={} rows={}",
                prefix,
                d.version().version,
                d.manifest().max_fragment_id.map(|x| x.to_string()).unwrap_or_else(|| "none".into()),
                show_frags(&frags),
                idx,
                fri,
                rows_txt
            ));
        }
        res.nontrivial = compactions_with_effect > 0;
        res
    }

    fn rule(&self) -> String {
        "random histories on one memory:// dataset with two Int64 columns (c0 unique key, c1 in 0..5 or NULL): create (2-13 rows, \
         max_rows_per_file 1-6, stable row ids 40%), then 1-3 rounds of 1-5 appends (1-8 rows, max_rows_per_file 1-5 or 100) / deletes \
         (random keys or a run of keys covering whole fragments), an optional BTree index on c1 at a random point of the round, one \
         compaction (target 1-11 or 1000, materialize_deletions 70%, threshold from {0, 1/10, 1/4, 1/3, 1/2, 3/4, 1, 2}, defer_index_remap \
         per case 25% with 10% flips, 40% compact_files, 60% plan + execute in a derived order + commit in up to three batches with \
         dropped tasks) and 1-2 filter queries on c1; 15% of the cases contain malformed lines (syntax, zero target, ops before \
         create / second create). Non-trivial = at least one compaction that rewrote fragments."
            .into()
    }
}

fn main() {
    run_main(C13 { kit: Kit::new() })
}
