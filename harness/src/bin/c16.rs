//! C16: scanner results equal a reference query and do not depend on execution knobs.
//!
//! Interpreter of the C16 op lines against the REAL lance code (`Dataset::write`, `Dataset::delete`, `create_index(BTree)`,
//! `Scanner` with every execution knob, `Scanner::count_rows`, `Dataset::count_rows`, `FilteredReadExec` driven directly
//! through its public options, `Planner::{parse_filter, optimize_expr}`, `PlannerIndexExt::create_filter_plan`,
//! `safe_coerce_scalar`), a seeded generator, and the property oracle.
//!
//! Op lines (one dataset per case; `k` nullable Int64 columns `c0..` plus optionally one Utf8 column `xu`, tablekit forms;
//! predicates in querykit's prefix form; `<filter>` is `nofilter` or a predicate):
//!
//! ```text
//! table v=<legacy|2.0|2.1|d> f=<nat> k=<K> x=<-|u> <rows>    Dataset::write(Create, max_rows_per_file = max_rows_per_group = f)
//! delete <expr>                                              Dataset::delete(sql(expr))
//! index c<i>                                                 create_index([c<i>], BTree)
//! scan p=<*|i,j,..> l=<int|none> o=<int|none> ord=<none|c<i>,<a|d>,<f|l>> s=<seed> <filter>
//!        Scanner: project / filter / limit / order_by, run under RUNS = 7 knob settings derived from the seed
//!        (batch_size, batch_readahead, fragment_readahead, io_buffer_size, materialization_style, use_stats,
//!        use_scalar_index, scan_in_order, strict_batch_size, with_row_id, with_row_address, prefilter) + count_rows
//! fread bs=<nat> b=<s,e|none> a=<s,e|none> ix=<0|1> <filter>
//!        FilteredReadExec over the row address only: batch size, scan_range_before_filter, scan_range_after_filter,
//!        filter plan with / without the scalar index (ix=1 only takes effect for `atom` / `and atom rest` where atom is
//!        an un-negated comparison of the indexed column with a literal and rest does not mention that column)
//! coerce <from> <to> <int>                                   safe_coerce_scalar(<from>(int), <to>)     (no dataset)
//! tscan <ty> <cells> <expr>                                  one-column table c0 of integer type ty, Scanner.filter(sql(expr))
//! ```
//! Outputs: `table` / `delete`: `ok frags=<id:rows:dels,…>`; `index`: `ok`; `scan`: `ok n=<rows> cnt=<count_rows> rows=<rows>`
//! (no ordering: table order) or `ok n= cnt= keys=<sort keys> rows=<rows, sorted inside every run of equal keys | ?>` (`?`
//! when limit / offset cut through a run of equal sort keys: SQL leaves the choice open); `fread`: `ok <batches of frag,offset>`
//! / `skip` on a legacy table; `coerce`: `some <int>` / `none`; `tscan`: `ok rows=<cells>`; errors `err <kind>` / `err parse`.
//!
//! Oracle (never looks at the Lean model): every knob run of a query returns the rows of the harness's own reference
//! evaluation (querykit::eval3 over the rows it wrote: list equality when the scan is in order or sorted, multiset
//! equality otherwise), `_rowaddr` / `_rowid` of every returned row point at a live row with exactly that content, strict
//! batch size is honoured, `Scanner::count_rows` and `Dataset::count_rows` equal the number of rows of the un-limited scan;
//! `fread` returns exactly the rows the range / filter semantics of FilteredReadOptions promise; `coerce` is value preserving.

use std::collections::BTreeSet;
use std::sync::Arc;

use arrow_array::cast::AsArray;
use arrow_array::types::{Int64Type, UInt64Type};
use arrow_array::{
    Array, ArrayRef, Int16Array, Int32Array, Int64Array, Int8Array, RecordBatch, RecordBatchIterator, UInt16Array,
    UInt32Array, UInt64Array, UInt8Array,
};
use arrow_schema::{DataType, Field, Schema as ArrowSchema};
use datafusion::common::ScalarValue;
use datafusion::physical_plan::ExecutionPlan;
use futures::TryStreamExt;
use hcommon::*;
use lance::dataset::scanner::{ColumnOrdering, MaterializationStyle};
use lance::index::DatasetIndexInternalExt;
use lance::io::exec::filtered_read::{FilteredReadExec, FilteredReadOptions};
use lance::io::exec::scalar_index::ScalarIndexExec;
use lance::Dataset;
use lance_datafusion::exec::{execute_plan, LanceExecutionOptions};
use lance_datafusion::expr::safe_coerce_scalar;
use lance_datafusion::planner::Planner;
use lance_index::scalar::expression::PlannerIndexExt;
use lance_index::scalar::ScalarIndexParams;
use lance_index::{DatasetIndexExt, IndexType};

#[path = "../tablekit.rs"]
#[allow(dead_code)]
mod tablekit;
use tablekit::*;
#[path = "../querykit.rs"]
#[allow(dead_code)]
mod querykit;
use querykit::{Cmp, Expr, Operand};

const RUNS: usize = 7;

// ------------------------------------------------------------------------------------------------
// integer types of `coerce` / `tscan`
// ------------------------------------------------------------------------------------------------

#[derive(Clone, Copy, Debug, PartialEq, Eq)]
enum Ty {
    I8,
    I16,
    I32,
    I64,
    U8,
    U16,
    U32,
    U64,
    Utf8,
    Bool,
}

impl Ty {
    const INTS: [Ty; 8] = [Ty::I8, Ty::I16, Ty::I32, Ty::I64, Ty::U8, Ty::U16, Ty::U32, Ty::U64];
    fn parse(s: &str) -> Option<Self> {
        Some(match s {
            "i8" => Ty::I8,
            "i16" => Ty::I16,
            "i32" => Ty::I32,
            "i64" => Ty::I64,
            "u8" => Ty::U8,
            "u16" => Ty::U16,
            "u32" => Ty::U32,
            "u64" => Ty::U64,
            "utf8" => Ty::Utf8,
            "bool" => Ty::Bool,
            _ => return None,
        })
    }
    fn show(&self) -> &'static str {
        match self {
            Ty::I8 => "i8",
            Ty::I16 => "i16",
            Ty::I32 => "i32",
            Ty::I64 => "i64",
            Ty::U8 => "u8",
            Ty::U16 => "u16",
            Ty::U32 => "u32",
            Ty::U64 => "u64",
            Ty::Utf8 => "utf8",
            Ty::Bool => "bool",
        }
    }
    fn is_int(&self) -> bool {
        !matches!(self, Ty::Utf8 | Ty::Bool)
    }
    /// inclusive range of the integer type (as i128)
    fn range(&self) -> (i128, i128) {
        match self {
            Ty::I8 => (i8::MIN as i128, i8::MAX as i128),
            Ty::I16 => (i16::MIN as i128, i16::MAX as i128),
            Ty::I32 => (i32::MIN as i128, i32::MAX as i128),
            Ty::I64 => (i64::MIN as i128, i64::MAX as i128),
            Ty::U8 => (0, u8::MAX as i128),
            Ty::U16 => (0, u16::MAX as i128),
            Ty::U32 => (0, u32::MAX as i128),
            Ty::U64 => (0, u64::MAX as i128),
            _ => (0, -1),
        }
    }
    fn holds(&self, v: i128) -> bool {
        let (lo, hi) = self.range();
        lo <= v && v <= hi
    }
    fn arrow(&self) -> DataType {
        match self {
            Ty::I8 => DataType::Int8,
            Ty::I16 => DataType::Int16,
            Ty::I32 => DataType::Int32,
            Ty::I64 => DataType::Int64,
            Ty::U8 => DataType::UInt8,
            Ty::U16 => DataType::UInt16,
            Ty::U32 => DataType::UInt32,
            Ty::U64 => DataType::UInt64,
            Ty::Utf8 => DataType::Utf8,
            Ty::Bool => DataType::Boolean,
        }
    }
    fn scalar(&self, v: i128) -> ScalarValue {
        match self {
            Ty::I8 => ScalarValue::Int8(Some(v as i8)),
            Ty::I16 => ScalarValue::Int16(Some(v as i16)),
            Ty::I32 => ScalarValue::Int32(Some(v as i32)),
            Ty::I64 => ScalarValue::Int64(Some(v as i64)),
            Ty::U8 => ScalarValue::UInt8(Some(v as u8)),
            Ty::U16 => ScalarValue::UInt16(Some(v as u16)),
            Ty::U32 => ScalarValue::UInt32(Some(v as u32)),
            Ty::U64 => ScalarValue::UInt64(Some(v as u64)),
            Ty::Utf8 => ScalarValue::Utf8(Some(v.to_string())),
            Ty::Bool => ScalarValue::Boolean(Some(v != 0)),
        }
    }
    fn array(&self, cells: &[Cell]) -> ArrayRef {
        match self {
            Ty::I8 => Arc::new(Int8Array::from(cells.iter().map(|c| c.map(|v| v as i8)).collect::<Vec<_>>())),
            Ty::I16 => Arc::new(Int16Array::from(cells.iter().map(|c| c.map(|v| v as i16)).collect::<Vec<_>>())),
            Ty::I32 => Arc::new(Int32Array::from(cells.iter().map(|c| c.map(|v| v as i32)).collect::<Vec<_>>())),
            Ty::I64 => Arc::new(Int64Array::from(cells.to_vec())),
            Ty::U8 => Arc::new(UInt8Array::from(cells.iter().map(|c| c.map(|v| v as u8)).collect::<Vec<_>>())),
            Ty::U16 => Arc::new(UInt16Array::from(cells.iter().map(|c| c.map(|v| v as u16)).collect::<Vec<_>>())),
            Ty::U32 => Arc::new(UInt32Array::from(cells.iter().map(|c| c.map(|v| v as u32)).collect::<Vec<_>>())),
            Ty::U64 => Arc::new(UInt64Array::from(cells.iter().map(|c| c.map(|v| v as u64)).collect::<Vec<_>>())),
            _ => unreachable!(),
        }
    }
}

fn scalar_int(s: &ScalarValue) -> Option<(Ty, i128)> {
    Some(match s {
        ScalarValue::Int8(Some(v)) => (Ty::I8, *v as i128),
        ScalarValue::Int16(Some(v)) => (Ty::I16, *v as i128),
        ScalarValue::Int32(Some(v)) => (Ty::I32, *v as i128),
        ScalarValue::Int64(Some(v)) => (Ty::I64, *v as i128),
        ScalarValue::UInt8(Some(v)) => (Ty::U8, *v as i128),
        ScalarValue::UInt16(Some(v)) => (Ty::U16, *v as i128),
        ScalarValue::UInt32(Some(v)) => (Ty::U32, *v as i128),
        ScalarValue::UInt64(Some(v)) => (Ty::U64, *v as i128),
        _ => return None,
    })
}

fn parse_i128(s: &str) -> Option<i128> {
    let d = s.strip_prefix('-').unwrap_or(s);
    if d.is_empty() || d.len() > 20 || !d.bytes().all(|b| b.is_ascii_digit()) {
        return None;
    }
    s.parse().ok()
}

// ------------------------------------------------------------------------------------------------
// ops
// ------------------------------------------------------------------------------------------------

#[derive(Clone, Debug)]
struct Query {
    proj: Option<Vec<usize>>,
    limit: Option<i64>,
    offset: Option<i64>,
    /// (column, ascending, nulls_first)
    ord: Option<(usize, bool, bool)>,
    seed: u64,
    filt: Option<Expr>,
}

#[derive(Clone, Debug)]
struct FRead {
    bs: u32,
    before: Option<(u64, u64)>,
    after: Option<(u64, u64)>,
    ix: bool,
    filt: Option<Expr>,
}

#[derive(Clone, Debug)]
enum Op {
    Table { ver: Option<Ver>, f: usize, spec: SchemaSpec, rows: Vec<Row> },
    Delete(Expr),
    Index(usize),
    Scan(Query),
    FRead(FRead),
    Coerce(Ty, Ty, i128),
    TScan(Ty, Vec<Cell>, Expr),
}

fn parse_opt_i64(s: &str) -> Option<Option<i64>> {
    if s == "none" {
        Some(None)
    } else {
        let v = parse_i128(s)?;
        if v.abs() > 1_000_000_000 {
            return None;
        }
        Some(Some(v as i64))
    }
}

fn parse_range(s: &str) -> Option<Option<(u64, u64)>> {
    if s == "none" {
        return Some(None);
    }
    let (a, b) = s.split_once(',')?;
    let a = parse_i128(a)?;
    let b = parse_i128(b)?;
    if a < 0 || b < a || b > 1_000_000_000 {
        return None;
    }
    Some(Some((a as u64, b as u64)))
}

fn parse_filter(t: &[&str]) -> Option<Option<Expr>> {
    if t == ["nofilter"] {
        return Some(None);
    }
    querykit::parse_all(t).map(Some)
}

fn show_filter(f: &Option<Expr>) -> String {
    match f {
        None => "nofilter".into(),
        Some(e) => querykit::show(e),
    }
}

fn parse_op(line: &str) -> Option<Op> {
    let t: Vec<&str> = line.split(' ').filter(|s| !s.is_empty()).collect();
    match *t.first()? {
        "table" => {
            if t.len() != 6 {
                return None;
            }
            let v = t[1].strip_prefix("v=")?;
            let ver = if v == "d" { None } else { Some(Ver::parse(v)?) };
            if ver == Some(Ver::V2_2) {
                return None;
            }
            let f = parse_i128(t[2].strip_prefix("f=")?)?;
            if !(1..=1_000_000).contains(&f) {
                return None;
            }
            let spec = SchemaSpec::parse(t[3].strip_prefix("k=")?, t[4].strip_prefix("x=")?)?;
            if spec.ints == 0 || spec.ints > 8 || !(spec.extras.is_empty() || spec.extras == [Extra::Utf8]) {
                return None;
            }
            let rows = parse_rows(t[5])?;
            if !spec.check_rows(&rows) {
                return None;
            }
            Some(Op::Table { ver, f: f as usize, spec, rows })
        }
        "delete" => Some(Op::Delete(querykit::parse_all(&t[1..])?)),
        "index" => {
            if t.len() != 2 {
                return None;
            }
            Some(Op::Index(querykit::parse_col(t[1])?))
        }
        "scan" => {
            if t.len() < 7 {
                return None;
            }
            let p = t[1].strip_prefix("p=")?;
            let proj = if p == "*" {
                None
            } else {
                let v: Vec<usize> = parse_nat_list(p)?.into_iter().map(|x| x as usize).collect();
                if v.is_empty() || (0..v.len()).any(|i| v[..i].contains(&v[i])) {
                    return None;
                }
                Some(v)
            };
            let limit = parse_opt_i64(t[2].strip_prefix("l=")?)?;
            let offset = parse_opt_i64(t[3].strip_prefix("o=")?)?;
            let o = t[4].strip_prefix("ord=")?;
            let ord = if o == "none" {
                None
            } else {
                let p: Vec<&str> = o.split(',').collect();
                if p.len() != 3 {
                    return None;
                }
                let asc = match p[1] {
                    "a" => true,
                    "d" => false,
                    _ => return None,
                };
                let nf = match p[2] {
                    "f" => true,
                    "l" => false,
                    _ => return None,
                };
                Some((querykit::parse_col(p[0])?, asc, nf))
            };
            let seed = parse_i128(t[5].strip_prefix("s=")?)?;
            if !(0..=u32::MAX as i128).contains(&seed) {
                return None;
            }
            let filt = parse_filter(&t[6..])?;
            Some(Op::Scan(Query { proj, limit, offset, ord, seed: seed as u64, filt }))
        }
        "fread" => {
            if t.len() < 6 {
                return None;
            }
            let bs = parse_i128(t[1].strip_prefix("bs=")?)?;
            if !(1..=100_000).contains(&bs) {
                return None;
            }
            let before = parse_range(t[2].strip_prefix("b=")?)?;
            let after = parse_range(t[3].strip_prefix("a=")?)?;
            let ix = match t[4].strip_prefix("ix=")? {
                "0" => false,
                "1" => true,
                _ => return None,
            };
            let filt = parse_filter(&t[5..])?;
            Some(Op::FRead(FRead { bs: bs as u32, before, after, ix, filt }))
        }
        "coerce" => {
            if t.len() != 4 {
                return None;
            }
            let from = Ty::parse(t[1])?;
            let to = Ty::parse(t[2])?;
            let v = parse_i128(t[3])?;
            if !from.is_int() || !from.holds(v) {
                return None;
            }
            Some(Op::Coerce(from, to, v))
        }
        "tscan" => {
            if t.len() < 4 {
                return None;
            }
            let ty = Ty::parse(t[1])?;
            if !ty.is_int() {
                return None;
            }
            let rows = parse_rows(t[2])?;
            if rows.iter().any(|r| r.len() != 1) {
                return None;
            }
            let cells: Vec<Cell> = rows.into_iter().map(|r| r[0]).collect();
            if cells.iter().any(|c| c.map(|v| !ty.holds(v as i128)).unwrap_or(false)) {
                return None;
            }
            let e = querykit::parse_all(&t[3..])?;
            if querykit::max_col(&e).map(|m| m > 0).unwrap_or(false) {
                return None;
            }
            Some(Op::TScan(ty, cells, e))
        }
        _ => None,
    }
}

fn show_query(q: &Query) -> String {
    format!(
        "scan p={} l={} o={} ord={} s={} {}",
        match &q.proj {
            None => "*".into(),
            Some(v) => show_nat_list(v.iter().map(|x| *x as u64)),
        },
        q.limit.map(|v| v.to_string()).unwrap_or_else(|| "none".into()),
        q.offset.map(|v| v.to_string()).unwrap_or_else(|| "none".into()),
        match q.ord {
            None => "none".into(),
            Some((c, a, f)) => format!("c{c},{},{}", if a { "a" } else { "d" }, if f { "f" } else { "l" }),
        },
        q.seed,
        show_filter(&q.filt)
    )
}

fn show_range(r: &Option<(u64, u64)>) -> String {
    match r {
        None => "none".into(),
        Some((a, b)) => format!("{a},{b}"),
    }
}

fn show_fread(f: &FRead) -> String {
    format!("fread bs={} b={} a={} ix={} {}", f.bs, show_range(&f.before), show_range(&f.after), f.ix as u8, show_filter(&f.filt))
}

// ------------------------------------------------------------------------------------------------
// the harness's own view of the table (oracle side)
// ------------------------------------------------------------------------------------------------

#[derive(Clone, Debug)]
struct MFrag {
    id: u64,
    rows: Vec<Row>,
    del: BTreeSet<usize>,
}

struct Tab {
    ds: Dataset,
    spec: SchemaSpec,
    legacy: bool,
    frags: Vec<MFrag>,
    idx: Option<usize>,
}

impl Tab {
    fn width(&self) -> usize {
        self.spec.width()
    }
    /// live rows in table order with their addresses
    fn live(&self) -> Vec<(u64, Row)> {
        let mut out = vec![];
        for f in &self.frags {
            for (o, r) in f.rows.iter().enumerate() {
                if !f.del.contains(&o) {
                    out.push(((f.id << 32) | o as u64, r.clone()));
                }
            }
        }
        out
    }
    fn frag_line(&self) -> String {
        show_frags(&self.frags.iter().map(|f| (f.id, f.rows.len(), f.del.len())).collect::<Vec<_>>())
    }
    fn col_name(&self, i: usize) -> String {
        self.spec.column_names()[i].clone()
    }
}

fn is_true(e: &Option<Expr>, r: &[Cell]) -> bool {
    match e {
        None => true,
        Some(e) => querykit::eval3(e, r) == Some(true),
    }
}

/// sort position of a key: (group, value) so that plain tuple order is the requested order
fn key_rank(c: Cell, asc: bool, nulls_first: bool) -> (u8, i64) {
    match c {
        None => (if nulls_first { 0 } else { 2 }, 0),
        Some(v) => (1, if asc { v } else { v.checked_neg().unwrap_or(i64::MAX) }),
    }
}

/// the reference answer of a query: (projected rows with address, in the reference order; sort keys; tie cut?)
struct RefAnswer {
    /// full-width rows (with address) that satisfy the filter, table order
    matching: Vec<(u64, Row)>,
    /// the window after order / offset / limit: full-width rows
    window: Vec<(u64, Row)>,
    keys: Option<Vec<Cell>>,
    tie_cut: bool,
}

fn reference(tab: &Tab, q: &Query) -> RefAnswer {
    let matching: Vec<(u64, Row)> = tab.live().into_iter().filter(|(_, r)| is_true(&q.filt, r)).collect();
    let mut sorted = matching.clone();
    if let Some((c, asc, nf)) = q.ord {
        // stable sort by key; inside a run of equal keys: by row content (canonical form of the output)
        sorted.sort_by(|a, b| key_rank(a.1[c], asc, nf).cmp(&key_rank(b.1[c], asc, nf)).then_with(|| a.1.cmp(&b.1)));
    }
    let n = sorted.len();
    let o = (q.offset.unwrap_or(0).max(0) as usize).min(n);
    let e = match q.limit {
        Some(l) => (o + l.max(0) as usize).min(n),
        None => n,
    };
    let mut tie_cut = false;
    if let Some((c, _, _)) = q.ord {
        if o > 0 && o < n && sorted[o - 1].1[c] == sorted[o].1[c] {
            tie_cut = true;
        }
        if e > 0 && e < n && sorted[e - 1].1[c] == sorted[e].1[c] {
            tie_cut = true;
        }
    }
    let window: Vec<(u64, Row)> = sorted[o..e].to_vec();
    let keys = q.ord.map(|(c, _, _)| window.iter().map(|(_, r)| r[c]).collect());
    RefAnswer { matching, window, keys, tie_cut }
}

fn project(q: &Query, w: usize, r: &Row) -> Row {
    match &q.proj {
        None => r[..w].to_vec(),
        Some(p) => p.iter().map(|i| r[*i]).collect(),
    }
}

// ------------------------------------------------------------------------------------------------
// knobs
// ------------------------------------------------------------------------------------------------

#[derive(Clone, Debug)]
struct ScanKnobs {
    batch_size: Option<usize>,
    batch_readahead: Option<usize>,
    fragment_readahead: Option<usize>,
    io_buffer: Option<u64>,
    /// 0 heuristic, 1 all late, 2 all early, 3 all early except the first projected column
    mat: u8,
    use_stats: bool,
    use_index: bool,
    in_order: bool,
    strict: bool,
    row_id: bool,
    row_addr: bool,
    prefilter: bool,
}

impl ScanKnobs {
    fn baseline() -> Self {
        Self {
            batch_size: None,
            batch_readahead: None,
            fragment_readahead: None,
            io_buffer: None,
            mat: 0,
            use_stats: true,
            use_index: false,
            in_order: true,
            strict: false,
            row_id: false,
            row_addr: true,
            prefilter: false,
        }
    }
    fn draw(r: &mut Rng) -> Self {
        Self {
            batch_size: if r.chance(1, 4) { None } else { Some(*r.pick(&[1usize, 2, 3, 5, 7, 16, 1024])) },
            batch_readahead: if r.chance(1, 2) { None } else { Some(*r.pick(&[1usize, 2, 16])) },
            fragment_readahead: if r.chance(1, 2) { None } else { Some(*r.pick(&[1usize, 2, 4])) },
            io_buffer: if r.chance(2, 3) { None } else { Some(*r.pick(&[1u64 << 20, 1 << 26])) },
            mat: r.below(4) as u8,
            use_stats: r.chance(1, 2),
            use_index: r.chance(2, 3),
            in_order: r.chance(1, 2),
            strict: r.chance(1, 4),
            row_id: r.chance(1, 3),
            row_addr: r.chance(1, 2),
            prefilter: r.chance(1, 2),
        }
    }
    fn show(&self) -> String {
        format!(
            "bs={:?} bra={:?} fra={:?} io={:?} mat={} stats={} idx={} ord={} strict={} rid={} raddr={} pre={}",
            self.batch_size,
            self.batch_readahead,
            self.fragment_readahead,
            self.io_buffer,
            self.mat,
            self.use_stats as u8,
            self.use_index as u8,
            self.in_order as u8,
            self.strict as u8,
            self.row_id as u8,
            self.row_addr as u8,
            self.prefilter as u8
        )
    }
}

struct ScanOut {
    rows: Vec<Row>,
    addrs: Option<Vec<u64>>,
    ids: Option<Vec<u64>>,
    batch_sizes: Vec<usize>,
}

fn decode_cols(names: &[String], batch: &RecordBatch) -> Result<Vec<Row>, String> {
    let n = batch.num_rows();
    let mut rows: Vec<Row> = vec![Vec::with_capacity(names.len()); n];
    for name in names {
        let a = batch.column_by_name(name).ok_or_else(|| format!("column {name} missing from the result"))?;
        if name == "xu" {
            let s = a.as_string_opt::<i32>().ok_or_else(|| format!("column xu has type {:?}", a.data_type()))?;
            for (i, row) in rows.iter_mut().enumerate() {
                if s.is_null(i) {
                    row.push(None);
                } else {
                    let v = s.value(i);
                    let k: i64 = v.trim_end_matches('#').parse().map_err(|_| format!("string {v:?} was never written"))?;
                    if derive_string(k) != v {
                        return Err(format!("string {v:?} was never written"));
                    }
                    row.push(Some(k));
                }
            }
        } else {
            let p = a.as_primitive_opt::<Int64Type>().ok_or_else(|| format!("column {name} has type {:?}", a.data_type()))?;
            for (i, row) in rows.iter_mut().enumerate() {
                row.push(if p.is_null(i) { None } else { Some(p.value(i)) });
            }
        }
    }
    Ok(rows)
}

fn u64_col(batch: &RecordBatch, name: &str) -> Result<Vec<u64>, String> {
    let a = batch.column_by_name(name).ok_or_else(|| format!("column {name} missing from the result"))?;
    let p = a.as_primitive_opt::<UInt64Type>().ok_or_else(|| format!("column {name} has type {:?}", a.data_type()))?;
    if p.null_count() > 0 {
        return Err(format!("column {name} holds NULLs"));
    }
    Ok(p.values().to_vec())
}

fn run_scan(kit: &Kit, tab: &Tab, q: &Query, k: &ScanKnobs) -> KitResult<ScanOut> {
    let names: Vec<String> = match &q.proj {
        None => tab.spec.column_names(),
        Some(p) => p.iter().map(|i| tab.col_name(*i)).collect(),
    };
    let mut sc = tab.ds.scan();
    if q.proj.is_some() {
        sc.project(&names)?;
    }
    if let Some(e) = &q.filt {
        sc.filter(&querykit::to_sql(e, &querykit::default_namer))?;
    }
    if q.limit.is_some() || q.offset.is_some() {
        sc.limit(q.limit, q.offset)?;
    }
    if let Some((c, asc, nf)) = q.ord {
        sc.order_by(Some(vec![ColumnOrdering { ascending: asc, nulls_first: nf, column_name: tab.col_name(c) }]))?;
    }
    if let Some(b) = k.batch_size {
        sc.batch_size(b);
    }
    if let Some(b) = k.batch_readahead {
        sc.batch_readahead(b);
    }
    if let Some(b) = k.fragment_readahead {
        sc.fragment_readahead(b);
    }
    if let Some(b) = k.io_buffer {
        sc.io_buffer_size(b);
    }
    match k.mat {
        1 => {
            sc.materialization_style(MaterializationStyle::AllLate);
        }
        2 => {
            sc.materialization_style(MaterializationStyle::AllEarly);
        }
        3 => {
            let style = MaterializationStyle::all_early_except(&[names[0].as_str()], tab.ds.schema())?;
            sc.materialization_style(style);
        }
        _ => {}
    }
    sc.use_stats(k.use_stats);
    sc.use_scalar_index(k.use_index);
    sc.scan_in_order(k.in_order);
    sc.strict_batch_size(k.strict);
    sc.prefilter(k.prefilter);
    if k.row_id {
        sc.with_row_id();
    }
    if k.row_addr {
        sc.with_row_address();
    }
    let batches: Vec<RecordBatch> = kit.lance_call("scan", async {
        let s = sc.try_into_stream().await?;
        s.try_collect::<Vec<_>>().await
    })?;
    let mut out = ScanOut {
        rows: vec![],
        addrs: if k.row_addr { Some(vec![]) } else { None },
        ids: if k.row_id { Some(vec![]) } else { None },
        batch_sizes: vec![],
    };
    for b in &batches {
        out.batch_sizes.push(b.num_rows());
        if b.num_columns() != names.len() + k.row_id as usize + k.row_addr as usize {
            return Err(KitError::other(format!("decode: the result has {} columns, asked for {:?}", b.num_columns(), names)));
        }
        out.rows.extend(decode_cols(&names, b).map_err(|e| KitError::other(format!("decode: {e}")))?);
        if let Some(a) = out.addrs.as_mut() {
            a.extend(u64_col(b, "_rowaddr").map_err(|e| KitError::other(format!("decode: {e}")))?);
        }
        if let Some(a) = out.ids.as_mut() {
            a.extend(u64_col(b, "_rowid").map_err(|e| KitError::other(format!("decode: {e}")))?);
        }
    }
    Ok(out)
}

// ------------------------------------------------------------------------------------------------
// fread
// ------------------------------------------------------------------------------------------------

/// `atom` / `and atom rest` with an un-negated literal comparison of the indexed column and a rest that avoids it
fn index_shape(e: &Expr, c: usize) -> bool {
    fn atom(e: &Expr, c: usize) -> bool {
        match e {
            Expr::Cmp(op, a, Operand::Lit(_)) => *a == c && *op != Cmp::Ne,
            Expr::Between(a, lo, hi) => *a == c && lo <= hi,
            Expr::IsNull(a) => *a == c,
            _ => false,
        }
    }
    match e {
        Expr::And(a, b) => atom(a, c) && !querykit::mentions(b, c),
        e => atom(e, c),
    }
}

fn run_fread(kit: &Kit, tab: &Tab, f: &FRead) -> KitResult<Vec<Vec<u64>>> {
    let ds = Arc::new(tab.ds.clone());
    let use_idx = f.ix && tab.idx.map(|c| f.filt.as_ref().map(|e| index_shape(e, c)).unwrap_or(false)).unwrap_or(false);
    let r: lance::Result<Vec<RecordBatch>> = kit.rt.block_on(async {
        let proj = ds.empty_projection().with_row_addr();
        let mut opts = FilteredReadOptions::new(proj).with_batch_size(f.bs);
        if let Some((s, e)) = f.before {
            opts = opts.with_scan_range_before_filter(s..e)?;
        }
        if let Some((s, e)) = f.after {
            opts = opts.with_scan_range_after_filter(s..e)?;
        }
        let mut index_input: Option<Arc<dyn ExecutionPlan>> = None;
        if let Some(e) = &f.filt {
            let planner = Planner::new(Arc::new(ArrowSchema::from(ds.schema())));
            let expr = planner.parse_filter(&querykit::to_sql(e, &querykit::default_namer))?;
            let info = ds.scalar_index_info().await?;
            let plan = planner.create_filter_plan(expr, &info, use_idx)?;
            index_input = plan
                .index_query
                .clone()
                .map(|q| Arc::new(ScalarIndexExec::new(ds.clone(), q)) as Arc<dyn ExecutionPlan>);
            opts = opts.with_filter_plan(plan);
        }
        let exec = FilteredReadExec::try_new(ds.clone(), opts, index_input)?;
        let stream = execute_plan(Arc::new(exec), LanceExecutionOptions::default())?;
        let batches: Vec<RecordBatch> = stream.try_collect().await.map_err(|e| lance::Error::from(e))?;
        Ok(batches)
    });
    let batches = r.map_err(KitError::from)?;
    let mut out = vec![];
    for b in &batches {
        out.push(u64_col(b, "_rowaddr").map_err(|e| KitError::other(format!("decode: {e}")))?);
    }
    Ok(out)
}

fn show_addr_batches(bs: &[Vec<u64>]) -> String {
    let v: Vec<Vec<Row>> = bs
        .iter()
        .map(|b| b.iter().map(|a| vec![Some((a >> 32) as i64), Some((a & 0xffff_ffff) as i64)]).collect())
        .collect();
    show_batches(&v)
}

// ------------------------------------------------------------------------------------------------
// the property
// ------------------------------------------------------------------------------------------------

struct C16 {
    kit: Kit,
}

fn panic_msg(e: Box<dyn std::any::Any + Send>) -> String {
    e.downcast_ref::<String>().cloned().or_else(|| e.downcast_ref::<&str>().map(|s| s.to_string())).unwrap_or_else(|| "panic".into())
}

fn sorted(mut v: Vec<Row>) -> Vec<Row> {
    v.sort();
    v
}

/// rows sorted inside every run of equal keys
fn tie_sorted(rows: &[Row], keys: &[Cell]) -> Vec<Row> {
    let mut out: Vec<Row> = rows.to_vec();
    let mut i = 0;
    while i < out.len() {
        let mut j = i + 1;
        while j < out.len() && keys[j] == keys[i] {
            j += 1;
        }
        out[i..j].sort();
        i = j;
    }
    out
}

impl C16 {
    fn exec_table(&self, ver: Option<Ver>, f: usize, spec: &SchemaSpec, rows: &[Row], uri: &str) -> KitResult<Tab> {
        let knobs = Knobs { max_rows_per_file: Some(f), max_rows_per_group: Some(f), version: ver, ..Default::default() };
        let ds = self.kit.create(uri, spec, &[rows.to_vec()], &knobs)?;
        let legacy = Kit::storage_version(&ds) == Some(Ver::Legacy);
        let stored = if legacy { spec.stored(Ver::Legacy, rows) } else { rows.to_vec() };
        let mut frags = vec![];
        for (i, ch) in stored.chunks(f).enumerate() {
            frags.push(MFrag { id: i as u64, rows: ch.to_vec(), del: BTreeSet::new() });
        }
        Ok(Tab { ds, spec: spec.clone(), legacy, frags, idx: None })
    }

    /// the oracle of one scan line; returns the output line
    fn exec_scan(&self, tab: &Tab, q: &Query, ln: usize, res: &mut CaseResult) -> String {
        let kit = &self.kit;
        let w = tab.width();
        // columns must exist (lance's own error kinds for unknown columns are not part of this property)
        let cols_ok = q.proj.as_ref().map(|p| p.iter().all(|i| *i < w)).unwrap_or(true)
            && q.ord.map(|(c, _, _)| c < tab.spec.ints).unwrap_or(true)
            && q.filt.as_ref().and_then(querykit::max_col).map(|m| m < tab.spec.ints).unwrap_or(true);
        if !cols_ok {
            res.tags.push("err:parse".into());
            return "err parse".into();
        }
        let rf = reference(tab, q);
        let want_rows: Vec<Row> = rf.window.iter().map(|(_, r)| project(q, w, r)).collect();
        let live: std::collections::BTreeMap<u64, Row> = tab.live().into_iter().collect();
        let mut rng = Rng::new(q.seed);
        let windowed = q.limit.is_some() || q.offset.is_some();
        // an index query with a NOT over the indexed column answers with two-valued logic (C19 `not_over_null`): such
        // queries are not run through the index here
        let idx_unsafe = match (tab.idx, &q.filt) {
            (Some(c), Some(e)) => querykit::negates_col(e, c),
            _ => false,
        };
        let mut first: Option<Result<ScanOut, ErrKind>> = None;
        let fail = |res: &mut CaseResult, key: &str, what: String| {
            res.failures.push(OracleFailure { what, key: Some(key.into()), line: ln });
        };
        for run in 0..RUNS {
            let mut k = if run == 0 { ScanKnobs::baseline() } else { ScanKnobs::draw(&mut rng) };
            if windowed && q.ord.is_none() {
                k.in_order = true;
            }
            if idx_unsafe {
                k.use_index = false;
            }
            if run == 1 && tab.idx.is_some() && !idx_unsafe {
                k.use_index = true;
            }
            let r = std::panic::catch_unwind(std::panic::AssertUnwindSafe(|| run_scan(kit, tab, q, &k)));
            let r = match r {
                Ok(r) => r,
                Err(e) => {
                    let msg = panic_msg(e);
                    // legacy table + scalar index + with_row_address: scalar_indexed_scan hands a projection with the
                    // row address to TakeExec, whose assertion refuses it
                    let key = if tab.legacy && k.use_index && tab.idx.is_some() && msg.contains("Take should not be used to insert row_id") {
                        "legacy_indexed_scan_rowaddr_panic"
                    } else if q.limit == Some(0) && q.offset == Some(0) && q.ord.is_some() && msg.contains("k > 0") {
                        // GlobalLimitExec(skip 0, fetch 0) is pushed into the SortExec as a TopK with k = 0
                        "limit_zero_offset_zero_sort_panic"
                    } else {
                        "scan_panic"
                    };
                    fail(res, key, format!("scan panicked under {}: {}", k.show(), msg.chars().take(160).collect::<String>()));
                    res.tags.push("err:panic".into());
                    continue;
                }
            };
            if std::env::var("C16_DEBUG").is_ok() {
                eprintln!("run {run} {} -> {}", k.show(), match &r { Ok(o) => show_rows(&o.rows), Err(e) => format!("err {} {}", e.kind.as_str(), e.msg) });
            }
            match r {
                Err(e) => {
                    if e.msg.starts_with("timeout:") {
                        fail(res, "op_timeout", format!("{} under {}", e.msg, k.show()));
                    } else if e.msg.starts_with("decode:") {
                        fail(res, "scan_decode", format!("{} under {}", e.msg, k.show()));
                    }
                    match &first {
                        None => first = Some(Err(e.kind)),
                        Some(Err(k0)) if *k0 == e.kind => {}
                        Some(_) => {
                            // ORDER BY a column that is not projected, no filter, neither _rowid nor _rowaddr requested:
                            // the sort column is fetched with a TakeExec that has no row id to take by
                            let unprojected_order = match (&q.ord, &q.proj) {
                                (Some((c, _, _)), Some(p)) => !p.contains(c),
                                _ => false,
                            };
                            // (also when the whole filter is answered by the scalar index: no refine step, no row id)
                            // (and on a legacy table whose filter is pushed into LancePushdownScanExec: no row id either)
                            let no_refine = q.filt.is_none() || (k.use_index && tab.idx.is_some()) || tab.legacy;
                            let key = if unprojected_order && no_refine && !k.row_id && !k.row_addr && e.msg.contains("TakeExec requires the input plan") {
                                "order_by_unprojected_column_fails"
                            } else {
                                "knob_changes_outcome"
                            };
                            fail(res, key, format!("scan fails ({}: {}) under {} but not under the baseline knobs", e.kind.as_str(), e.msg, k.show()))
                        }
                    }
                }
                Ok(out) => {
                    if let Some(Err(k0)) = &first {
                        fail(res, "knob_changes_outcome", format!("scan succeeds under {} but fails ({}) under the baseline knobs", k.show(), k0.as_str()));
                        continue;
                    }
                    // (1) against the reference
                    let ordered_cmp = q.ord.is_some() || k.in_order;
                    let ok = if let Some(keys) = &rf.keys {
                        // sorted result: the key sequence is determined; the rows are determined up to ties
                        let (c, _, _) = q.ord.unwrap();
                        let got_keys: Option<Vec<Cell>> = match &q.proj {
                            None => Some(out.rows.iter().map(|r| r[c]).collect()),
                            Some(p) => p.iter().position(|x| *x == c).map(|at| out.rows.iter().map(|r| r[at]).collect()),
                        };
                        let keys_ok = got_keys.as_ref().map(|g| g == keys).unwrap_or(out.rows.len() == keys.len());
                        if rf.tie_cut {
                            // every returned row must be a matching row (as a sub-multiset)
                            let mut pool = sorted(rf.matching.iter().map(|(_, r)| project(q, w, r)).collect());
                            let sub = out.rows.iter().all(|r| match pool.binary_search(r) {
                                Ok(i) => {
                                    pool.remove(i);
                                    true
                                }
                                Err(_) => false,
                            });
                            keys_ok && sub
                        } else {
                            keys_ok && tie_sorted(&out.rows, keys) == tie_sorted(&want_rows, keys)
                        }
                    } else if ordered_cmp {
                        out.rows == want_rows
                    } else {
                        sorted(out.rows.clone()) == sorted(want_rows.clone())
                    };
                    if !ok {
                        let unlimited: Vec<Row> = rf.matching.iter().map(|(_, r)| project(q, w, r)).collect();
                        let is_subseq = |small: &[Row], big: &[Row]| {
                            let mut it = big.iter();
                            small.iter().all(|x| it.any(|y| y == x))
                        };
                        let key = if q.limit == Some(0) && q.offset.is_none() && (q.filt.is_some() || q.ord.is_some() || tab.legacy) && sorted(out.rows.clone()) == sorted(unlimited.clone()) {
                            // Scanner::create_plan adds the limit node only when `limit > 0 || offset.is_some()`
                            "limit_zero_ignored"
                        } else if k.use_index && tab.idx.is_some() && q.limit.is_some() && q.ord.is_none() && q.filt.is_some()
                            && out.rows.len() < want_rows.len() && is_subseq(&out.rows, &unlimited)
                        {
                            // the limit is pushed into the index-matched ranges although a refine filter still drops rows
                            "limit_pushed_past_refine"
                        } else if k.use_index && tab.idx.is_some() {
                            "scan_ne_reference_indexed"
                        } else {
                            "scan_ne_reference"
                        };
                        fail(res, key, format!("scan under {} returned {} but the reference query gives {}", k.show(), show_rows(&out.rows), show_rows(&want_rows)));
                    }
                    // (2) row addresses / ids name live rows with exactly that content
                    for (what, col) in [("_rowaddr", &out.addrs), ("_rowid", &out.ids)] {
                        if let Some(a) = col {
                            let good = a.len() == out.rows.len()
                                && a.iter().zip(out.rows.iter()).all(|(a, r)| live.get(a).map(|full| &project(q, w, full) == r).unwrap_or(false));
                            let distinct = a.iter().collect::<BTreeSet<_>>().len() == a.len();
                            if !good || !distinct {
                                fail(res, "scan_row_address", format!("{what} column under {} does not name the returned rows: {:?} for {}", k.show(), a, show_rows(&out.rows)));
                            }
                        }
                    }
                    // (3) strict batch size
                    if k.strict {
                        if let Some(bs) = k.batch_size {
                            let n = out.batch_sizes.len();
                            if out.batch_sizes.iter().enumerate().any(|(i, s)| (i + 1 < n && *s != bs) || *s > bs || *s == 0) {
                                fail(res, "strict_batch_size", format!("strict batch size {bs} under {} gave batches {:?}", k.show(), out.batch_sizes));
                            }
                        }
                    }
                    if first.is_none() {
                        first = Some(Ok(out));
                    }
                }
            }
        }
        let out = match first {
            None => return "panic".into(),
            Some(Err(k)) => {
                res.tags.push(format!("err:{}", k.as_str()));
                return format!("err {}", k.as_str());
            }
            Some(Ok(o)) => o,
        };
        // count_rows with the same filter = number of rows of the un-limited scan
        let sql = q.filt.as_ref().map(|e| querykit::to_sql(e, &querykit::default_namer));
        let c1 = if idx_unsafe { Ok(rf.matching.len()) } else { kit.count_rows(&tab.ds, sql.as_deref()) };
        let c2 = kit.lance_call("scanner.count_rows", async {
            let mut sc = tab.ds.scan();
            if let Some(s) = &sql {
                sc.filter(s)?;
            }
            sc.project::<&str>(&[])?;
            sc.with_row_id();
            sc.use_scalar_index(tab.idx.is_some() && !idx_unsafe);
            sc.count_rows().await
        });
        let cnt = match (&c1, &c2) {
            (Ok(a), Ok(b)) if *a as u64 == *b || idx_unsafe => {
                let a = &(*b as usize);
                if *a != rf.matching.len() {
                    fail(res, "count_ne_scan", format!("count_rows = {a} but the filter matches {} rows", rf.matching.len()));
                }
                a.to_string()
            }
            _ => {
                fail(res, "count_ne_scan", format!("Dataset::count_rows = {:?}, Scanner::count_rows = {:?}", c1.as_ref().map_err(|e| e.msg.clone()), c2.as_ref().map_err(|e| e.msg.clone())));
                "?".into()
            }
        };
        res.tags.push(format!(
            "scan:{}{}{}{}",
            if q.filt.is_some() { "filter" } else { "nofilter" },
            if windowed { "+window" } else { "" },
            if q.ord.is_some() { "+order" } else { "" },
            if q.proj.is_some() { "+proj" } else { "" }
        ));
        if rf.tie_cut {
            res.tags.push("scan:tie_cut".into());
        }
        if tab.idx.is_some() && q.filt.is_some() && !idx_unsafe {
            res.tags.push("scan:index_eligible".into());
        }
        match &rf.keys {
            None => format!("ok n={} cnt={} rows={}", out.rows.len(), cnt, show_rows(&out.rows)),
            Some(_) => {
                let (c, _, _) = q.ord.unwrap();
                // the keys as the implementation returned them (from the reference when the key column is projected away:
                // then only their number is observable)
                let got_keys: Vec<Cell> = match &q.proj {
                    None => out.rows.iter().map(|r| r[c]).collect(),
                    Some(p) => match p.iter().position(|x| *x == c) {
                        Some(at) => out.rows.iter().map(|r| r[at]).collect(),
                        // the key column is projected away: only the number of keys is observable; print the keys the
                        // sorted matching rows have at these positions
                        None => {
                            let (_, asc, nf) = q.ord.unwrap();
                            let mut all: Vec<Cell> = rf.matching.iter().map(|(_, r)| r[c]).collect();
                            all.sort_by_key(|k| key_rank(*k, asc, nf));
                            if out.rows.len() == rf.window.len() {
                                rf.keys.clone().unwrap()
                            } else {
                                all.into_iter().take(out.rows.len()).collect()
                            }
                        }
                    },
                };
                let keys_txt = show_rows(&got_keys.iter().map(|k| vec![*k]).collect::<Vec<_>>());
                let rows_txt = if rf.tie_cut {
                    "?".to_string()
                } else if got_keys.len() == out.rows.len() {
                    show_rows(&tie_sorted(&out.rows, &got_keys))
                } else {
                    show_rows(&out.rows)
                };
                format!("ok n={} cnt={} keys={} rows={}", out.rows.len(), cnt, keys_txt, rows_txt)
            }
        }
    }

    fn exec_fread(&self, tab: &Tab, f: &FRead, ln: usize, res: &mut CaseResult) -> String {
        if tab.legacy {
            res.tags.push("fread:skip_legacy".into());
            return "skip".into();
        }
        if f.filt.as_ref().and_then(querykit::max_col).map(|m| m >= tab.spec.ints).unwrap_or(false) {
            res.tags.push("err:parse".into());
            return "err parse".into();
        }
        let r = std::panic::catch_unwind(std::panic::AssertUnwindSafe(|| run_fread(&self.kit, tab, f)));
        let r = match r {
            Ok(r) => r,
            Err(e) => {
                res.failures.push(OracleFailure { what: format!("FilteredReadExec panicked: {}", panic_msg(e)), key: Some("fread_panic".into()), line: ln });
                return "panic".into();
            }
        };
        match r {
            Err(e) => {
                res.tags.push(format!("err:{}", e.kind.as_str()));
                if std::env::var("C16_DEBUG").is_ok() {
                    eprintln!("fread: {:?} {}", e.kind, e.msg);
                }
                format!("err {}", e.kind.as_str())
            }
            Ok(batches) => {
                // oracle: the documented meaning of the two ranges
                let live = tab.live();
                let (bs_, be_) = f.before.map(|(s, e)| (s as usize, e as usize)).unwrap_or((0, usize::MAX));
                let scanned: Vec<&(u64, Row)> = live.iter().skip(bs_).take(be_.saturating_sub(bs_)).collect();
                let matching: Vec<u64> = scanned.iter().filter(|(_, r)| is_true(&f.filt, r)).map(|(a, _)| *a).collect();
                let (as_, ae_) = f.after.map(|(s, e)| (s as usize, e as usize)).unwrap_or((0, usize::MAX));
                let want: Vec<u64> = matching.into_iter().skip(as_).take(ae_.saturating_sub(as_)).collect();
                let got: Vec<u64> = batches.iter().flatten().copied().collect();
                let used_index = f.ix && tab.idx.map(|c| f.filt.as_ref().map(|e| index_shape(e, c)).unwrap_or(false)).unwrap_or(false);
                if got != want {
                    let refine = used_index && matches!(f.filt, Some(Expr::And(_, _)));
                    let key = if refine && f.after.is_some() { "after_range_pushed_past_refine" } else { "fread_ne_reference" };
                    res.failures.push(OracleFailure {
                        what: format!("{} returned {} but the ranges / filter select {}", show_fread(f), show_addr_batches(&[got.clone()]), show_addr_batches(&[want])),
                        key: Some(key.into()),
                        line: ln,
                    });
                }
                if batches.iter().any(|b| b.is_empty() || b.len() > f.bs as usize) {
                    res.failures.push(OracleFailure { what: format!("{} produced a batch of {:?} rows", show_fread(f), batches.iter().map(|b| b.len()).collect::<Vec<_>>()), key: Some("fread_batch_size".into()), line: ln });
                }
                res.tags.push(format!(
                    "fread:{}{}{}{}",
                    if f.filt.is_some() { "filter" } else { "nofilter" },
                    if f.before.is_some() { "+before" } else { "" },
                    if f.after.is_some() { "+after" } else { "" },
                    if used_index { "+index" } else { "" }
                ));
                format!("ok {}", show_addr_batches(&batches))
            }
        }
    }

    fn exec_tscan(&self, ty: Ty, cells: &[Cell], e: &Expr) -> KitResult<Vec<Cell>> {
        let schema = Arc::new(ArrowSchema::new(vec![Field::new("c0", ty.arrow(), true)]));
        let batch = RecordBatch::try_new(schema.clone(), vec![ty.array(cells)])?;
        let uri = self.kit.fresh_uri();
        let reader = RecordBatchIterator::new(vec![Ok(batch)].into_iter(), schema);
        let params = lance::dataset::WriteParams { session: Some(self.kit.session.clone()), ..Default::default() };
        let ds = self.kit.lance_call("write", Dataset::write(reader, uri.as_str(), Some(params)))?;
        let mut sc = ds.scan();
        sc.filter(&querykit::to_sql(e, &querykit::default_namer))?;
        let b = self.kit.lance_call("scan", sc.try_into_batch())?;
        let a = b.column_by_name("c0").ok_or_else(|| KitError::other("decode: c0 missing"))?;
        let a64 = arrow::compute::cast(a, &if ty == Ty::U64 { DataType::UInt64 } else { DataType::Int64 })?;
        let mut out = vec![];
        for i in 0..a64.len() {
            if a64.is_null(i) {
                out.push(None);
            } else if ty == Ty::U64 {
                out.push(Some(a64.as_primitive::<UInt64Type>().value(i) as i64));
            } else {
                out.push(Some(a64.as_primitive::<Int64Type>().value(i)));
            }
        }
        Ok(out)
    }
}

impl Prop for C16 {
    fn id(&self) -> &'static str {
        "C16"
    }

    fn budget(&self, tier: Tier) -> usize {
        match tier {
            Tier::Quick => 400,
            Tier::Thorough => 2500,
            Tier::Search => 600,
        }
    }

    fn rule(&self) -> String {
        "75% table cases: 0-28 rows (values -3..6, ~20% NULL, ties on purpose) in 1-5 fragments (legacy 15% without NULLs / 2.0 / 2.1), \
         optional delete (querykit predicate, 10-45% of the rows), optional BTree index on one column, then 3-5 scan lines (filter 80%: \
         querykit trees of depth <= 3; projection 55%; limit 60% incl. 0 and beyond the end; offset 50%; order_by 40% asc/desc x nulls \
         first/last) each executed under 7 knob settings, and 1-3 fread lines on 2.x tables (batch size 1-9, before-filter and \
         after-filter ranges, indexed `atom [AND rest]` shapes when an index exists). 15% coercion cases: 12 coerce lines over the 8x8 \
         integer type table at boundary values and 3 tscan lines (typed one-column tables, literals around the type range). 10% of \
         the cases carry one malformed or out-of-contract line. A case is non-trivial if some scan returned at least one but not all rows."
            .into()
    }

    fn gen_case(&mut self, rng: &mut Rng, _tier: Tier, idx: usize) -> Vec<String> {
        gen::case(rng, idx)
    }

    fn exec_case(&mut self, lines: &[String]) -> CaseResult {
        self.kit.reset_session();
        let uri = self.kit.fresh_uri();
        let mut res = CaseResult::default();
        let mut tab: Option<Tab> = None;
        for (ln, line) in lines.iter().enumerate() {
            let Some(op) = parse_op(line) else {
                res.outputs.push("err parse".into());
                res.tags.push("err:parse".into());
                continue;
            };
            match (&op, tab.is_some()) {
                (Op::Table { .. }, true) | (Op::Delete(_) | Op::Index(_) | Op::Scan(_) | Op::FRead(_), false) => {
                    // a second table / an op without a table: outside the grammar of a case
                    res.outputs.push("err parse".into());
                    res.tags.push("err:parse".into());
                    continue;
                }
                _ => {}
            }
            match op {
                Op::Table { ver, f, spec, rows } => {
                    res.tags.push("op:table".into());
                    match self.exec_table(ver, f, &spec, &rows, &uri) {
                        Err(e) => {
                            res.outputs.push(format!("err {}", e.kind.as_str()));
                            res.tags.push(format!("err:{}", e.kind.as_str()));
                        }
                        Ok(t) => {
                            let real = show_frags(&Kit::fragments(&t.ds));
                            res.tags.push(format!("table:frags={}", t.frags.len().min(6)));
                            res.tags.push(format!("table:{}", if t.legacy { "legacy" } else { "v2" }));
                            res.outputs.push(format!("ok frags={real}"));
                            if real != t.frag_line() {
                                res.failures.push(OracleFailure { what: format!("fragments {real}, expected {}", t.frag_line()), key: Some("table_layout".into()), line: ln });
                            }
                            tab = Some(t);
                        }
                    }
                }
                Op::Delete(e) => {
                    res.tags.push("op:delete".into());
                    let t = tab.as_mut().unwrap();
                    if querykit::max_col(&e).map(|m| m >= t.spec.ints).unwrap_or(false) {
                        res.outputs.push("err parse".into());
                        res.tags.push("err:parse".into());
                        continue;
                    }
                    let sql = querykit::to_sql(&e, &querykit::default_namer);
                    let mut ds = t.ds.clone();
                    match self.kit.lance_call("delete", ds.delete(&sql)) {
                        Err(e) => {
                            res.outputs.push(format!("err {}", e.kind.as_str()));
                            res.tags.push(format!("err:{}", e.kind.as_str()));
                        }
                        Ok(()) => {
                            t.ds = ds;
                            for f in t.frags.iter_mut() {
                                for (o, r) in f.rows.iter().enumerate() {
                                    if querykit::eval3(&e, r) == Some(true) {
                                        f.del.insert(o);
                                    }
                                }
                            }
                            t.frags.retain(|f| f.del.len() < f.rows.len());
                            let real = show_frags(&Kit::fragments(&t.ds));
                            res.outputs.push(format!("ok frags={real}"));
                            if real != t.frag_line() {
                                res.failures.push(OracleFailure { what: format!("fragments after delete {real}, expected {}", t.frag_line()), key: Some("delete_layout".into()), line: ln });
                            }
                        }
                    }
                }
                Op::Index(c) => {
                    res.tags.push("op:index".into());
                    let t = tab.as_mut().unwrap();
                    if c >= t.spec.ints || t.idx.is_some() {
                        res.outputs.push("err parse".into());
                        res.tags.push("err:parse".into());
                        continue;
                    }
                    let name = t.col_name(c);
                    let mut ds = t.ds.clone();
                    let r = self.kit.lance_call("create_index", async {
                        ds.create_index(&[name.as_str()], IndexType::BTree, Some(format!("i{c}")), &ScalarIndexParams::default(), true).await
                    });
                    match r {
                        Err(e) => {
                            res.outputs.push(format!("err {}", e.kind.as_str()));
                            res.tags.push(format!("err:{}", e.kind.as_str()));
                        }
                        Ok(()) => {
                            t.ds = ds;
                            t.idx = Some(c);
                            res.outputs.push("ok".into());
                        }
                    }
                }
                Op::Scan(q) => {
                    res.tags.push("op:scan".into());
                    let t = tab.as_ref().unwrap();
                    let n_live = t.live().len();
                    let out = self.exec_scan(t, &q, ln, &mut res);
                    if let Some(n) = out.strip_prefix("ok n=").and_then(|s| s.split(' ').next()).and_then(|s| s.parse::<usize>().ok()) {
                        if n > 0 && n < n_live {
                            res.nontrivial = true;
                        }
                    }
                    res.outputs.push(out);
                }
                Op::FRead(f) => {
                    res.tags.push("op:fread".into());
                    let t = tab.as_ref().unwrap();
                    let out = self.exec_fread(t, &f, ln, &mut res);
                    res.outputs.push(out);
                }
                Op::Coerce(from, to, v) => {
                    res.tags.push("op:coerce".into());
                    let r = safe_coerce_scalar(&from.scalar(v), &to.arrow());
                    let out = match &r {
                        None => "none".to_string(),
                        Some(s) => match scalar_int(s) {
                            Some((ty, w)) => {
                                if ty != to || w != v {
                                    res.failures.push(OracleFailure { what: format!("safe_coerce_scalar({}({v}), {}) = {s:?}: not the same value in the target type", from.show(), to.show()), key: Some("coerce_changes_value".into()), line: ln });
                                }
                                format!("some {w}")
                            }
                            None => format!("some ?{s:?}").replace(' ', "_"),
                        },
                    };
                    if to.is_int() && r.is_none() && to.holds(v) {
                        res.failures.push(OracleFailure { what: format!("safe_coerce_scalar({}({v}), {}) = None although the value fits", from.show(), to.show()), key: Some("coerce_refuses_fitting_value".into()), line: ln });
                    }
                    res.tags.push(format!("coerce:{}", if r.is_some() { "some" } else { "none" }));
                    if r.is_some() && from != to {
                        res.nontrivial = true;
                    }
                    res.outputs.push(out);
                }
                Op::TScan(ty, cells, e) => {
                    res.tags.push("op:tscan".into());
                    let r = std::panic::catch_unwind(std::panic::AssertUnwindSafe(|| self.exec_tscan(ty, &cells, &e)));
                    match r {
                        Err(p) => {
                            res.failures.push(OracleFailure { what: format!("typed scan panicked: {}", panic_msg(p)), key: Some("scan_panic".into()), line: ln });
                            res.outputs.push("panic".into());
                        }
                        Ok(Err(e)) => {
                            res.outputs.push(format!("err {}", e.kind.as_str()));
                            res.tags.push(format!("tscan:err:{}", e.kind.as_str()));
                        }
                        Ok(Ok(got)) => {
                            let want: Vec<Cell> = cells.iter().filter(|c| querykit::eval3(&e, &[**c]) == Some(true)).copied().collect();
                            if got != want {
                                res.failures.push(OracleFailure { what: format!("typed scan ({}) returned {:?}, the reference gives {:?}", ty.show(), got, want), key: Some("typed_scan_ne_reference".into()), line: ln });
                            }
                            if !got.is_empty() && got.len() < cells.len() {
                                res.nontrivial = true;
                            }
                            res.tags.push("tscan:ok".into());
                            res.outputs.push(format!("ok rows={}", show_rows(&got.iter().map(|c| vec![*c]).collect::<Vec<_>>())));
                        }
                    }
                }
            }
        }
        res
    }
}

// ------------------------------------------------------------------------------------------------
// generator
// ------------------------------------------------------------------------------------------------

mod gen {
    use super::*;

    fn gen_cell(r: &mut Rng, nulls: bool) -> Cell {
        if nulls && r.chance(1, 5) {
            None
        } else {
            Some(r.below(10) as i64 - 3)
        }
    }

    fn boundary(r: &mut Rng, ty: Ty) -> i128 {
        let (lo, hi) = ty.range();
        let hi = hi.min(i64::MAX as i128);
        let lo = lo.max(i64::MIN as i128 + 1);
        match r.below(8) {
            0 => lo,
            1 => hi,
            2 => (lo + 1).min(hi),
            3 => (hi - 1).max(lo),
            4 => 0i128.clamp(lo, hi),
            5 => (-1i128).clamp(lo, hi),
            6 => 127i128.clamp(lo, hi) + r.below(3) as i128 - 1,
            _ => (r.below(70000) as i128 - 35000).clamp(lo, hi),
        }
        .clamp(lo, hi)
    }

    fn coerce_case(r: &mut Rng) -> Vec<String> {
        let mut lines = vec![];
        for _ in 0..12 {
            let from = *r.pick(&Ty::INTS);
            let to = if r.chance(1, 12) { *r.pick(&[Ty::Utf8, Ty::Bool]) } else { *r.pick(&Ty::INTS) };
            // a value of `from` near a boundary of `to`
            let (flo, fhi) = from.range();
            let v = if to.is_int() && r.chance(3, 4) {
                let (tlo, thi) = to.range();
                let b = *r.pick(&[tlo, thi, tlo - 1, thi + 1, tlo + 1, thi - 1, 0, -1, 1]);
                b.clamp(flo, fhi)
            } else {
                boundary(r, from)
            };
            lines.push(format!("coerce {} {} {}", from.show(), to.show(), v));
        }
        for _ in 0..3 {
            let ty = *r.pick(&Ty::INTS);
            let n = 3 + r.usize(6);
            let cells: Vec<Cell> = (0..n).map(|_| if r.chance(1, 5) { None } else { Some(boundary(r, ty) as i64) }).collect();
            let (lo, hi) = ty.range();
            let lit = |r: &mut Rng| -> i64 {
                let c: Vec<i128> = vec![lo - 1, lo, hi, hi + 1, 0, 1, -1, 300, -200, 70000];
                let v = *r.pick(&c);
                v.clamp(i64::MIN as i128 + 1, i64::MAX as i128) as i64
            };
            let atom = |r: &mut Rng| -> Expr {
                match r.below(6) {
                    0 => Expr::In(0, vec![Some(lit(r)), Some(lit(r))]),
                    1 => {
                        let (a, b) = (lit(r), lit(r));
                        Expr::Between(0, a.min(b), a.max(b))
                    }
                    _ => {
                        let from_data = cells.iter().flatten().copied().collect::<Vec<_>>();
                        let v = if !from_data.is_empty() && r.chance(1, 2) { *r.pick(&from_data) } else { lit(r) };
                        Expr::Cmp(*r.pick(&Cmp::ALL), 0, Operand::Lit(v))
                    }
                }
            };
            let e = match r.below(6) {
                0 => Expr::Not(Box::new(atom(r))),
                1 => Expr::And(Box::new(atom(r)), Box::new(Expr::NotNull(0))),
                2 => Expr::Or(Box::new(atom(r)), Box::new(Expr::IsNull(0))),
                _ => atom(r),
            };
            let rows: Vec<Row> = cells.iter().map(|c| vec![*c]).collect();
            lines.push(format!("tscan {} {} {}", ty.show(), show_rows(&rows), querykit::show(&e)));
        }
        lines
    }

    pub fn case(r: &mut Rng, _idx: usize) -> Vec<String> {
        if r.chance(3, 20) {
            let mut lines = coerce_case(r);
            if r.chance(1, 4) {
                let at = r.usize(lines.len());
                lines[at] = match r.below(3) {
                    0 => "coerce i8 i16 300".into(),
                    1 => "coerce f32 i8 1".into(),
                    _ => "tscan u8 -1;2 eq c0 1".into(),
                };
            }
            return lines;
        }
        let mut lines = vec![];
        let k = 1 + r.usize(3);
        let with_u = r.chance(1, 4);
        let spec = SchemaSpec { ints: k, extras: if with_u { vec![Extra::Utf8] } else { vec![] } };
        let ver = match r.below(20) {
            0..=2 => Some(Ver::Legacy),
            3..=8 => Some(Ver::V2_0),
            9..=14 => Some(Ver::V2_1),
            _ => None,
        };
        let legacy = ver == Some(Ver::Legacy);
        let n = match r.below(10) {
            0 => r.usize(3),
            _ => 5 + r.usize(24),
        };
        let rows: Vec<Row> = (0..n)
            .map(|_| {
                let mut row: Row = (0..k).map(|_| gen_cell(r, !legacy)).collect();
                if with_u {
                    row.push(gen_cell(r, true));
                }
                row
            })
            .collect();
        let target_frags = 1 + r.usize(4);
        let f = if r.chance(1, 8) { 1000 } else { n.div_ceil(target_frags).max(1) };
        lines.push(format!("table v={} f={} {} {}", ver.map(|v| v.as_str()).unwrap_or("d"), f, spec.show(), show_rows(&rows)));
        let int_rows: Vec<Vec<Cell>> = rows.iter().map(|r| r[..k].to_vec()).collect();
        let stored: Vec<Vec<Cell>> = if legacy { int_rows.iter().map(|r| r.iter().map(|c| c.or(Some(0))).collect()).collect() } else { int_rows.clone() };
        let mut live: Vec<Vec<Cell>> = stored.clone();
        if r.chance(1, 2) && n > 0 {
            let e = querykit::gen_pred(r, &live, k, &querykit::GenOpts { max_depth: 2, lo_pct: 10, hi_pct: 45, ..Default::default() });
            live.retain(|row| querykit::eval3(&e, row) != Some(true));
            lines.push(format!("delete {}", querykit::show(&e)));
        }
        let idx = if r.chance(1, 2) { Some(r.usize(k)) } else { None };
        if let Some(c) = idx {
            lines.push(format!("index c{c}"));
        }
        let n_live = live.len();
        let gen_filter = |r: &mut Rng| -> Option<Expr> {
            if r.chance(1, 5) {
                None
            } else {
                Some(querykit::gen_pred(r, &live, k, &querykit::GenOpts { lo_pct: 15, hi_pct: 75, ..Default::default() }))
            }
        };
        let idx_atom = |r: &mut Rng, c: usize| -> Expr {
            let vals: Vec<i64> = live.iter().filter_map(|row| row[c]).collect();
            let v = if vals.is_empty() { 0 } else { *r.pick(&vals) };
            match r.below(6) {
                0 => Expr::IsNull(c),
                1 => Expr::Between(c, v - 1, v + 2),
                _ => Expr::Cmp(*r.pick(&[Cmp::Eq, Cmp::Lt, Cmp::Le, Cmp::Gt, Cmp::Ge]), c, Operand::Lit(v)),
            }
        };
        let scans = 3 + r.usize(3);
        for _ in 0..scans {
            let mut filt = gen_filter(r);
            if let (Some(c), true) = (idx, r.chance(1, 3)) {
                // shapes the scalar index planner splits into index query + refine
                let a = idx_atom(r, c);
                filt = Some(if k > 1 && r.chance(2, 3) {
                    let rest = querykit::gen_pred(r, &live, k, &querykit::GenOpts { max_depth: 1, avoid_cols: vec![c], lo_pct: 20, hi_pct: 90, ..Default::default() });
                    Expr::And(Box::new(a), Box::new(rest))
                } else {
                    a
                });
            }
            let w = spec.width();
            let proj = if r.chance(9, 20) {
                None
            } else {
                let mut cols: Vec<usize> = (0..w).collect();
                for i in (1..cols.len()).rev() {
                    let j = r.usize(i + 1);
                    cols.swap(i, j);
                }
                cols.truncate(1 + r.usize(w));
                Some(cols)
            };
            let limit = if r.chance(2, 5) {
                None
            } else if r.chance(1, 10) {
                Some(0)
            } else {
                Some(r.below(n_live as u64 + 3) as i64)
            };
            let offset = if r.chance(1, 2) { None } else { Some(r.below(n_live as u64 + 2) as i64) };
            let ord = if r.chance(3, 5) { None } else { Some((r.usize(k), r.chance(1, 2), r.chance(1, 2))) };
            let q = Query { proj, limit, offset, ord, seed: r.below(1 << 31), filt };
            lines.push(show_query(&q));
        }
        if !legacy {
            let freads = 1 + r.usize(3);
            for _ in 0..freads {
                let mut filt = gen_filter(r);
                let mut ix = false;
                if let (Some(c), true) = (idx, r.chance(3, 5)) {
                    let a = idx_atom(r, c);
                    filt = Some(if k > 1 && r.chance(1, 2) {
                        let rest = querykit::gen_pred(r, &live, k, &querykit::GenOpts { max_depth: 1, avoid_cols: vec![c], lo_pct: 20, hi_pct: 90, ..Default::default() });
                        Expr::And(Box::new(a), Box::new(rest))
                    } else {
                        a
                    });
                    ix = true;
                } else if idx.is_some() {
                    ix = r.chance(1, 2);
                }
                let range = |r: &mut Rng, m: usize| -> (u64, u64) {
                    let a = r.below(m as u64 + 2);
                    let b = r.below(m as u64 + 3);
                    (a.min(b), a.max(b))
                };
                let before = if r.chance(1, 2) { None } else { Some(range(r, n_live)) };
                let after = if filt.is_some() { if r.chance(2, 5) { None } else { Some(range(r, n_live / 2 + 1)) } } else if r.chance(1, 12) { Some((0, 2)) } else { None };
                let bs = if r.chance(1, 6) { 100 } else { 1 + r.below(9) as u32 };
                lines.push(show_fread(&FRead { bs, before, after, ix, filt }));
            }
        }
        if r.chance(1, 10) {
            // one malformed / out-of-contract line
            let bad = match r.below(6) {
                0 => "scan p=* l=-1 o=none ord=none s=1 nofilter".to_string(),
                1 => "scan p=* l=none o=-2 ord=none s=1 nofilter".to_string(),
                2 => "scan p=0,0 l=none o=none ord=none s=1 nofilter".to_string(),
                3 => format!("scan p=* l=none o=none ord=none s=1 eq c{} 1", k + 1),
                4 => "fread bs=0 b=none a=none ix=0 nofilter".to_string(),
                _ => "scan p=* l=1 o=none ord=c0,x,f s=1 nofilter".to_string(),
            };
            let at = 1 + r.usize(lines.len());
            lines.insert(at.min(lines.len()), bad);
        }
        lines
    }
}

fn main() {
    run_main(C16 { kit: Kit::new() })
}
