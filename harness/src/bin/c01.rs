//! C01: every commit is atomic; versions form a dense, monotone history.
//!
//! Crash-point enumeration on the REAL lance code.  Every write operation of a case runs as a task of the gate
//! controller (`gatekit.rs`) against a gated in-memory object store injected through the public
//! `ObjectStoreParams::object_store_wrapper`; its storage calls are released one at a time, reads at once, and the i-th
//! MUTATING call can be hit by a fault: `crash` (the task is aborted at that call), `fb` (the call is not executed and
//! answers with an error), `lr` (the call is executed and answers with an error).  After every op line the store is
//! listed, the table is re-opened through a fresh `Session`, `versions()` is called and every version (and every
//! detached manifest) is scanned.
//!
//! Op lines (rows: canonical forms of `tablekit.rs`; the table has Int64 columns `c0, c1, …`):
//!
//! ```text
//! cfg h=<cond|rename|lock> v2=<0|1> s=<0|1>     commit handler, v2 manifest names, stable row ids; resets the table
//! create    f=<n> <rows>      Dataset::write(Create), max_rows_per_file = n
//! append    f=<n> <rows>      Dataset::write(Append) through a handle opened on the latest version
//! overwrite f=<n> <rows>      Dataset::write(Overwrite)
//! dappend   f=<n> <rows>      InsertBuilder::execute_uncommitted + CommitBuilder::with_detached(true)
//! delete <x>                  Dataset::delete("c0 >= x")
//! update <x> <y>              UpdateBuilder: set c1 = y where c0 >= x
//! upsert <rows>               MergeInsertBuilder on c0: matched → update all, not matched → insert
//! compact | index | addcol | dropcol | config <n> | restore <v>
//! <op> @ <crash|fb|lr> <i>    the same operation with a fault at its i-th mutating storage call
//! ```
//!
//! Output (the Lean driver `drv_c01` prints the same line from the model):
//! `<ok v | ok D | err kind | crashed> [<calls released>] | L=<latest> V=<versions> | <v:K:sorted rows:#indices:cfg>… |
//!  D=<views of detached manifests> | files=d<n>,x<n>,i<n>,t<n>,m<n>,s<n>` (data, deletion, index, transaction, manifest,
//! staging files).
//!
//! Oracle (independent of the Lean model), after every op line: (1) everything listed is readable and `latest` is the
//! greatest listed version; (2) the versions are exactly 1..N; (3) ATOMICITY: the versions that existed before read
//! exactly as before, and what a faulted operation leaves visible is what the unfaulted operation (run on a copy of the
//! same store) leaves visible, truncated to some version between the old and the new latest — the pre-operation
//! snapshot, or the snapshot after one of its commits, never anything else; (4) a successful write returns latest + 1 and
//! adds exactly that version (compaction: two commits or none; a detached commit: none, and the latest version stays);
//! (5) an operation that reports an error without an injected fault changes nothing visible.

#[path = "../gatekit.rs"]
#[allow(dead_code)]
mod gatekit;
#[path = "../tablekit.rs"]
#[allow(dead_code)]
mod tablekit;
#[path = "../c01_engine.rs"]
mod engine;

use std::sync::Arc;

use engine::*;
use gatekit::Fault;
use hcommon::*;
use object_store::memory::InMemory;

struct C01 {
    rt: tokio::runtime::Runtime,
    /// enumerated crash-point cases (built once, before the run)
    queue: Vec<Vec<String>>,
    n_random: usize,
}

fn parse_fault(toks: &[&str]) -> Option<Option<FaultAt>> {
    match toks {
        [] => Some(None),
        ["@", f, i] => {
            let fault = match *f {
                "crash" => Fault::Crash,
                "fb" => Fault::FailBefore,
                "lr" => Fault::LostResponse,
                _ => return None,
            };
            if i.is_empty() || i.len() > 18 || !i.bytes().all(|b| b.is_ascii_digit()) {
                return None;
            }
            Some(Some(FaultAt { fault, at: i.parse().ok()? }))
        }
        _ => None,
    }
}

/// (setup lines, target op) — small tables: ≤ 2 fragments, ≤ 6 rows
fn scenarios() -> Vec<(Vec<&'static str>, &'static str)> {
    let c = "create f=2 1,10;2,20;3,30";
    vec![
        (vec![], c),
        (vec![c], "append f=2 4,40;5,50;6,60"),
        (vec![c], "overwrite f=2 7,70;8,80;9,90"),
        (vec![c], "delete 2"),
        (vec![c], "update 2 7"),
        (vec![c], "upsert 2,21;9,99"),
        (vec![c], "compact"),
        (vec![c, "index"], "compact"),
        (vec![c, "delete 2"], "compact"),
        (vec![c], "index"),
        (vec![c], "addcol"),
        (vec![c], "dropcol"),
        (vec![c], "config 5"),
        (vec![c, "append f=2 4,40"], "restore 1"),
        (vec![c], "dappend f=2 4,40"),
        (vec![c, "index"], "update 3 8"),
        (vec![c, "addcol"], "delete 3"),
    ]
}

impl C01 {
    fn new() -> Self {
        let rt = tokio::runtime::Builder::new_current_thread().enable_all().build().unwrap();
        Self { rt, queue: vec![], n_random: 0 }
    }

    /// number of mutating calls of `target` after `setup` (one unfaulted run of the real code)
    fn count_calls(&self, cfg: Cfg, setup: &[&str], target: &str) -> usize {
        let store = Arc::new(InMemory::new());
        for l in setup {
            let toks: Vec<&str> = l.split(' ').collect();
            run_op(store.clone(), cfg, Op::parse(&toks).unwrap(), None);
        }
        let toks: Vec<&str> = target.split(' ').collect();
        run_op(store, cfg, Op::parse(&toks).unwrap(), None).trace.len()
    }

    fn enumerate(&mut self, tier: Tier) {
        let cfgs: Vec<(Cfg, Vec<Fault>)> = match tier {
            Tier::Quick | Tier::Search => vec![
                (Cfg { handler: Handler::Cond, v2: false, stable: false }, vec![Fault::Crash, Fault::LostResponse, Fault::FailBefore]),
                (Cfg { handler: Handler::Rename, v2: true, stable: true }, vec![Fault::Crash, Fault::FailBefore, Fault::LostResponse]),
                (Cfg { handler: Handler::Lock, v2: false, stable: true }, vec![Fault::Crash]),
            ],
            Tier::Thorough => {
                let mut v = vec![];
                for handler in [Handler::Cond, Handler::Rename, Handler::Lock] {
                    for v2 in [false, true] {
                        for stable in [false, true] {
                            v.push((Cfg { handler, v2, stable }, vec![Fault::Crash, Fault::FailBefore, Fault::LostResponse]));
                        }
                    }
                }
                v
            }
        };
        for (cfg, faults) in cfgs {
            for (setup, target) in scenarios() {
                let k = self.count_calls(cfg, &setup, target);
                for f in &faults {
                    // i = k: the fault index lies beyond the last call, the operation completes
                    let upto = if *f == Fault::Crash { k + 1 } else { k };
                    for i in 0..upto {
                        let mut lines = vec![cfg.show()];
                        lines.extend(setup.iter().map(|s| s.to_string()));
                        lines.push(format!("{target} @ {} {i}", f.token()));
                        // the table must still work afterwards
                        lines.push("append f=2 11,110".to_string());
                        self.queue.push(lines);
                    }
                }
            }
        }
    }

    fn random_case(rng: &mut Rng) -> Vec<String> {
        let malformed = rng.chance(3, 20);
        let cfg = Cfg {
            handler: *rng.pick(&[Handler::Cond, Handler::Rename, Handler::Lock]),
            v2: rng.chance(1, 2),
            stable: rng.chance(1, 2),
        };
        let mut lines = vec![cfg.show()];
        let mut exists = false;
        let mut k = 2usize;
        let mut next_key = 1i64;
        let mut nver = 0u64;
        // compaction is only generated while every fragment has the same index coverage
        let mut has_index = false;
        let mut uniform = true;
        let len = 3 + rng.usize(5);
        let mut rows = |rng: &mut Rng, k: usize, n: usize, next_key: &mut i64| -> String {
            let rs: Vec<tablekit::Row> = (0..n)
                .map(|_| {
                    let key = *next_key;
                    *next_key += 1;
                    (0..k).map(|c| if c == 0 { Some(key) } else if rng.chance(1, 8) { None } else { Some(key * 10 + c as i64) }).collect()
                })
                .collect();
            tablekit::show_rows(&rs)
        };
        for _ in 0..len {
            let mut line = if !exists {
                if malformed && rng.chance(1, 3) {
                    rng.pick(&["append f=2 1,10", "delete 1", "compact", "index", "restore 1", "config 1"]).to_string()
                } else {
                    k = if rng.chance(1, 5) { 1 + rng.usize(3) } else { 2 };
                    let n = 1 + rng.usize(5);
                    format!("create f={} {}", 1 + rng.usize(3), rows(rng, k, n, &mut next_key))
                }
            } else {
                match rng.below(16) {
                    0 | 1 => {
                        uniform = !has_index;
                        let n = 1 + rng.usize(3);
                        format!("append f={} {}", 1 + rng.usize(3), rows(rng, k, n, &mut next_key))
                    }
                    2 => {
                        has_index = false;
                        uniform = true;
                        if rng.chance(1, 4) {
                            k = 1 + rng.usize(3);
                        }
                        let n = rng.usize(5);
                        format!("overwrite f={} {}", 1 + rng.usize(3), rows(rng, k, n, &mut next_key))
                    }
                    3 | 4 => format!("delete {}", rng.range(0, next_key as u64 + 1)),
                    5 | 6 if k >= 2 => {
                        uniform = !has_index;
                        format!("update {} {}", rng.range(0, next_key as u64), rng.below(100))
                    }
                    7 => {
                        uniform = !has_index;
                        // one existing key (maybe), one fresh key
                        let old = rng.range(1, next_key as u64) as i64;
                        let fresh = next_key;
                        next_key += 1;
                        let mk = |key: i64| -> tablekit::Row { (0..k).map(|c| if c == 0 { Some(key) } else { Some(key * 100 + c as i64) }).collect() };
                        format!("upsert {}", tablekit::show_rows(&[mk(old), mk(fresh)]))
                    }
                    8 | 9 if uniform => "compact".to_string(),
                    10 => {
                        has_index = true;
                        uniform = true;
                        "index".to_string()
                    }
                    11 if k < 3 => {
                        k += 1;
                        "addcol".to_string()
                    }
                    12 if k >= 2 || malformed => {
                        if k >= 2 {
                            k -= 1;
                        }
                        "dropcol".to_string()
                    }
                    13 => format!("config {}", rng.below(50)),
                    14 if nver >= 1 => {
                        // coverage after a restore depends on the restored version: no compaction afterwards
                        uniform = false;
                        // restore keeps the generator's idea of k only approximately: restrict to histories without
                        // schema changes by re-deriving k is not possible here, so restore the latest or the first
                        let v = if malformed && rng.chance(1, 3) { nver + 5 } else { rng.range(1, nver) };
                        format!("restore {v}")
                    }
                    15 => {
                        let n = 1 + rng.usize(2);
                        format!("dappend f=2 {}", rows(rng, k, n, &mut next_key))
                    }
                    _ => format!("config {}", rng.below(50)),
                }
            };
            if malformed && rng.chance(1, 10) {
                line = match rng.below(4) {
                    0 => line.replacen("f=", "f=x", 1),
                    1 => format!("{line} 7"),
                    2 => "create f=2 1,10;2,20".to_string(),
                    _ => "append f=2 1,2,3,4".to_string(),
                };
            }
            let faulted = rng.chance(2, 5);
            if faulted {
                let f = *rng.pick(&[Fault::Crash, Fault::Crash, Fault::FailBefore, Fault::LostResponse]);
                line = format!("{line} @ {} {}", f.token(), rng.below(7));
            }
            // the generator's own (approximate) idea of the state
            if line.starts_with("create") && !exists {
                // visible only if the create commits; a faulted create is retried by the next iteration when it did not
                exists = !faulted;
                if exists {
                    nver = 1;
                }
            } else if exists && !line.starts_with("dappend") {
                nver += 1;
            }
            if line.starts_with("restore") {
                // the schema may change: stop generating width-dependent ops precisely; keep going with what we have
                lines.push(line);
                lines.push("config 9".to_string());
                break;
            }
            lines.push(line);
        }
        lines
    }
}

fn dense(vs: &[u64]) -> bool {
    vs.iter().enumerate().all(|(i, v)| *v == i as u64 + 1)
}

impl Prop for C01 {
    fn id(&self) -> &'static str {
        "C01"
    }

    fn budget(&self, _tier: Tier) -> usize {
        self.queue.len() + self.n_random
    }

    fn gen_case(&mut self, rng: &mut Rng, _tier: Tier, idx: usize) -> Vec<String> {
        if idx < self.queue.len() {
            return self.queue[idx].clone();
        }
        Self::random_case(rng)
    }

    fn exec_case(&mut self, lines: &[String]) -> CaseResult {
        let mut res = CaseResult::default();
        let mut cfg: Option<Cfg> = None;
        let mut store = Arc::new(InMemory::new());
        let mut pre: Option<Obs> = None;
        for (li, line) in lines.iter().enumerate() {
            let toks: Vec<&str> = line.split(' ').filter(|t| !t.is_empty()).collect();
            if toks.first() == Some(&"cfg") {
                match Cfg::parse(&toks) {
                    Some(c) => {
                        cfg = Some(c);
                        store = Arc::new(InMemory::new());
                        pre = None;
                        res.tags.push(format!("cfg:{}:v2={}:s={}", c.handler.as_str(), c.v2 as u8, c.stable as u8));
                        res.outputs.push("cfg ok".into());
                    }
                    None => res.outputs.push("err parse".into()),
                }
                continue;
            }
            let split = toks.iter().position(|t| *t == "@").unwrap_or(toks.len());
            let (Some(op), Some(fault)) = (Op::parse(&toks[..split]), parse_fault(&toks[split..])) else {
                res.tags.push("err:parse".into());
                res.outputs.push("err parse".into());
                continue;
            };
            let Some(cfg) = cfg else {
                res.outputs.push("err no_cfg".into());
                continue;
            };
            let before = match pre.take() {
                Some(o) => o,
                None => self.rt.block_on(observe(store.clone(), &cfg)),
            };
            // what the unfaulted operation would leave (only needed to judge a faulted one)
            let full: Option<Obs> = fault.map(|_| {
                let copy = self.rt.block_on(copy_store(&store));
                run_op(copy.clone(), cfg, op.clone(), None);
                self.rt.block_on(observe(copy, &cfg))
            });
            let run = run_op(store.clone(), cfg, op.clone(), fault);
            let after = self.rt.block_on(observe(store.clone(), &cfg));
            let fired = run.trace.last().map(|t| t.contains('!')).unwrap_or(false);
            res.tags.push(format!("op:{}", op.kind()));
            if fired {
                res.tags.push(format!("fault:{}:{}", fault.unwrap().fault.token(), op.kind()));
                res.nontrivial = true;
            }
            let shown = match &run.outcome {
                Outcome::Ok(v) => {
                    if lance_table::format::is_detached_version(*v) {
                        "ok D".to_string()
                    } else {
                        format!("ok {v}")
                    }
                }
                Outcome::Err(k, _) => {
                    res.tags.push(format!("err:{k}"));
                    format!("err {k}")
                }
                Outcome::Crashed => "crashed".to_string(),
                Outcome::Stuck => "stuck".to_string(),
            };
            res.outputs.push(format!("{shown} [{}] | {}", run.trace.join(","), after.show()));

            // ---- the property, evaluated on the implementation ----
            let mut fail = |key: &str, what: String| {
                res.failures.push(OracleFailure { what: format!("{line}: {what}"), key: Some(key.into()), line: li });
            };
            if matches!(run.outcome, Outcome::Stuck) {
                fail("stuck", "the operation neither finished nor parked at a storage call".into());
            }
            for p in &after.problems {
                fail("unreadable", p.clone());
            }
            if !dense(&after.versions) {
                fail("dense", format!("versions {:?} are not 1..N", after.versions));
            }
            if after.latest != after.versions.last().copied() {
                fail("latest", format!("latest {:?} but versions {:?}", after.latest, after.versions));
            }
            let n0 = before.versions.len();
            // old versions are untouched
            if after.views.len() < n0 || after.views[..n0] != before.views[..] {
                fail("atomicity", format!("versions that existed before changed: before {} after {}", before.show(), after.show()));
            }
            match &full {
                Some(full) => {
                    let n1 = after.views.len();
                    let ok_views = n1 >= n0 && n1 <= full.views.len() && after.views[..] == full.views[..n1];
                    let ok_det = after.detached == before.detached || after.detached == full.detached;
                    if !(ok_views && ok_det) {
                        fail(
                            "atomicity",
                            format!("after a fault the table is neither the old nor the new snapshot: before {} | unfaulted {} | after {}", before.show(), full.show(), after.show()),
                        );
                    }
                    // all or nothing for the single-commit operations
                    if !matches!(op, Op::Compact) && n1 != n0 && n1 != full.views.len() {
                        fail("atomicity", "a partial number of versions is visible".into());
                    }
                }
                None => {}
            }
            match (&run.outcome, fired) {
                (Outcome::Ok(v), _) => {
                    let n = n0 as u64;
                    match &op {
                        Op::Compact => {
                            if !(after.versions.len() as u64 == n + 2 && *v == n + 2 || after.versions.len() as u64 == n && *v == n) {
                                fail("version_number", format!("compaction returned {v}, versions {} -> {}", n, after.versions.len()));
                            }
                            if after.views.last().map(|x| &x.rows) != before.views.last().map(|x| &x.rows) {
                                fail("atomicity", "compaction changed the rows".into());
                            }
                        }
                        Op::DAppend { .. } => {
                            if !lance_table::format::is_detached_version(*v) || after.versions != before.versions || after.latest != before.latest {
                                fail("detached_latest", format!("detached commit {v}: versions {:?} -> {:?}, latest {:?} -> {:?}", before.versions, after.versions, before.latest, after.latest));
                            }
                            if after.detached.len() != before.detached.len() + 1 {
                                fail("detached_latest", "the detached manifest cannot be read back".into());
                            }
                        }
                        _ => {
                            if *v != n + 1 || after.versions.len() as u64 != n + 1 {
                                fail("version_number", format!("returned version {v}, latest before {n}, versions after {:?}", after.versions));
                            }
                        }
                    }
                }
                (Outcome::Err(..), false) => {
                    if after.visible() != before.visible() {
                        fail("atomicity", format!("a failed operation changed the table: before {} after {}", before.show(), after.show()));
                    }
                }
                _ => {}
            }
            pre = Some(after);
        }
        res
    }

    fn rule(&self) -> String {
        "enumeration: for each commit handler configuration x scenario (17 setups + target operation covering create, append, overwrite, delete, update, merge_insert, compaction (plain / with index remap / with deletions), create_index, add/drop column, update_config, restore, detached append) the real operation is run once to count its mutating storage calls k, then one case per fault kind and call index i <= k (setup; op @ fault i; a follow-up append); then seeded random histories of 3-7 operations with faults on 40 % of the lines (15 % of the cases malformed: syntax errors, operations before create, width mismatches, missing versions, second create). A case is non-trivial if a fault fired.".into()
    }
}

fn main() {
    let args = parse_args();
    let mut p = C01::new();
    if args.replay.is_none() {
        p.enumerate(args.tier);
        p.n_random = match args.tier {
            Tier::Quick => 90,
            Tier::Thorough => 1500,
            Tier::Search => 600,
        };
    }
    run_main(p)
}
