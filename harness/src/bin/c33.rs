//! C33: manifest naming and latest-version discovery.
//! Interpreter of the C33 line protocol against the real lance-table code
//! (`ManifestNamingScheme::{manifest_path, parse_version, detect_scheme, detect_scheme_staging}`,
//! `CommitHandler::{resolve_latest_location, list_manifest_locations}`, `migrate_scheme_to_v2`), a generator of
//! names / directories / listing orders, and the property oracle (independent recognisers of canonical names).
//!
//! Op lines (tokens separated by one space; a name list is `-` when empty; the empty name is `_EMPTY_`):
//!   path <V1|V2> <v>            -> `<name> det=<V1|V2|none> p1=<n|none> p2=<n|none> st=<V1|V2>`
//!   name <s>                    -> `det=.. p1=.. p2=.. st=..`
//!   cmp <v> <w>                 -> `lt|eq|gt`  (byte order of the V2-scheme names of v and w)
//!   latest <lex:0|1> <names..>  -> directory `_versions/` of an in-memory store whose `list` yields the names in
//!                                  exactly this order, store flag list_is_lexically_ordered = lex
//!                                  `ok v=<v> name=<name> scheme=<S>` | `not_found` | `err_internal` | `err_other` | `panic`
//!   latest_local <names..>      -> the same through a real local directory (`current_manifest_local`)
//!   list <lex> <sorted> <names> -> `ok v:name:S ...` in stream order
//!   migrate <names..>           -> `ok <names after, sorted>` | `panic` | `err`

use std::collections::BTreeSet;
use std::panic::{catch_unwind, AssertUnwindSafe};
use std::sync::{Arc, Mutex};

use async_trait::async_trait;
use futures::stream::BoxStream;
use futures::{StreamExt, TryStreamExt};
use hcommon::*;
use lance_io::object_store::ObjectStore;
use lance_table::io::commit::{
    migrate_scheme_to_v2, CommitHandler, ConditionalPutCommitHandler, ManifestLocation, ManifestNamingScheme,
};
use object_store::memory::InMemory;
use object_store::path::Path;
use object_store::{
    GetOptions, GetResult, ListResult, MultipartUpload, ObjectMeta, ObjectStore as OSObjectStore, PutMultipartOptions,
    PutOptions, PutPayload, PutResult,
};

// ---------------------------------------------------------------------------------------------
// an object store whose `list` yields a chosen order
// ---------------------------------------------------------------------------------------------

#[derive(Debug)]
struct PermStore {
    inner: Arc<InMemory>,
    /// file names in the order `list` must yield them (names not mentioned follow in the inner order)
    order: Mutex<Vec<String>>,
}

impl std::fmt::Display for PermStore {
    fn fmt(&self, f: &mut std::fmt::Formatter<'_>) -> std::fmt::Result {
        write!(f, "PermStore")
    }
}

#[async_trait]
impl OSObjectStore for PermStore {
    async fn put_opts(&self, location: &Path, payload: PutPayload, opts: PutOptions) -> object_store::Result<PutResult> {
        self.inner.put_opts(location, payload, opts).await
    }
    async fn put_multipart_opts(
        &self,
        location: &Path,
        opts: PutMultipartOptions,
    ) -> object_store::Result<Box<dyn MultipartUpload>> {
        self.inner.put_multipart_opts(location, opts).await
    }
    async fn get_opts(&self, location: &Path, options: GetOptions) -> object_store::Result<GetResult> {
        self.inner.get_opts(location, options).await
    }
    async fn delete(&self, location: &Path) -> object_store::Result<()> {
        self.inner.delete(location).await
    }
    fn list(&self, prefix: Option<&Path>) -> BoxStream<'static, object_store::Result<ObjectMeta>> {
        let inner = self.inner.clone();
        let order = self.order.lock().unwrap().clone();
        let prefix = prefix.cloned();
        futures::stream::once(async move {
            let mut v: Vec<ObjectMeta> = inner.list(prefix.as_ref()).try_collect().await?;
            let pos = |m: &ObjectMeta| {
                let f = m.location.filename().unwrap_or("");
                order.iter().position(|o| o == f).unwrap_or(usize::MAX)
            };
            v.sort_by_key(pos); // stable
            Ok::<_, object_store::Error>(futures::stream::iter(v.into_iter().map(Ok)))
        })
        .try_flatten()
        .boxed()
    }
    async fn list_with_delimiter(&self, prefix: Option<&Path>) -> object_store::Result<ListResult> {
        self.inner.list_with_delimiter(prefix).await
    }
    async fn copy(&self, from: &Path, to: &Path) -> object_store::Result<()> {
        self.inner.copy(from, to).await
    }
    async fn copy_if_not_exists(&self, from: &Path, to: &Path) -> object_store::Result<()> {
        self.inner.copy_if_not_exists(from, to).await
    }
}

fn mem_store(names: &[String], lex: bool, rt: &tokio::runtime::Runtime) -> (ObjectStore, Path, Arc<InMemory>) {
    let inner = Arc::new(InMemory::new());
    let base = Path::from("base");
    let dir = base.child("_versions");
    rt.block_on(async {
        for n in names {
            inner.put(&dir.child(n.as_str()), PutPayload::from_static(b"x")).await.unwrap();
        }
    });
    let ps = PermStore { inner: inner.clone(), order: Mutex::new(names.to_vec()) };
    let store = ObjectStore::new(
        Arc::new(ps),
        url::Url::parse("memory:///").unwrap(),
        None,
        None,
        false,
        lex,
        8,
        3,
        None,
    );
    (store, base, inner)
}

// ---------------------------------------------------------------------------------------------
// independent recognisers (the property oracle's notion of a well-formed directory)
// ---------------------------------------------------------------------------------------------

const MSB: u64 = 1 << 63;
const EXT: &str = ".manifest";

#[derive(Clone, Copy, Debug, PartialEq, Eq)]
enum Sch {
    V1,
    V2,
}

#[derive(Clone, Debug, PartialEq, Eq)]
enum Kind {
    Attached(Sch, u64),
    Detached(u64),
    Staging,
    Tmp,
    Junk,
}

/// canonical decimal of a u64: digits only, no leading zero (except "0")
fn canon_dec(s: &str) -> Option<u64> {
    if s.is_empty() || s.len() > 20 || !s.bytes().all(|b| b.is_ascii_digit()) {
        return None;
    }
    if s.len() > 1 && s.starts_with('0') {
        return None;
    }
    let v: u128 = s.parse().ok()?;
    if v > u64::MAX as u128 {
        None
    } else {
        Some(v as u64)
    }
}

fn classify_manifest(name: &str) -> Option<Kind> {
    let stem = name.strip_suffix(EXT)?;
    if let Some(d) = stem.strip_prefix('d') {
        let v = canon_dec(d)?;
        return if v >= MSB { Some(Kind::Detached(v)) } else { None };
    }
    if stem.len() == 20 && stem.bytes().all(|b| b.is_ascii_digit()) {
        let x: u128 = stem.parse().ok()?;
        if x > u64::MAX as u128 {
            return None;
        }
        let v = u64::MAX - x as u64;
        return if v < MSB { Some(Kind::Attached(Sch::V2, v)) } else { None };
    }
    let v = canon_dec(stem)?;
    if v < MSB {
        Some(Kind::Attached(Sch::V1, v))
    } else {
        None
    }
}

fn is_uuid(s: &str) -> bool {
    s.len() == 36
        && s.bytes().enumerate().all(|(i, b)| {
            if [8, 13, 18, 23].contains(&i) {
                b == b'-'
            } else {
                b.is_ascii_hexdigit() && !b.is_ascii_uppercase()
            }
        })
}

fn classify(name: &str) -> Kind {
    if let Some(k) = classify_manifest(name) {
        return k;
    }
    if name.starts_with(".tmp_") {
        return Kind::Tmp;
    }
    if name.len() > 37 && name.is_char_boundary(name.len() - 37) {
        let (b, u) = name.split_at(name.len() - 37);
        if u.starts_with('-') && is_uuid(&u[1..]) && classify_manifest(b).is_some() {
            return Kind::Staging;
        }
    }
    Kind::Junk
}

struct DirClass {
    /// every name is an attached manifest of ONE scheme, a detached manifest (V2 directories only), a staging file or a tmp file
    well_formed: bool,
    scheme: Option<Sch>,
    attached: Vec<(u64, String)>,
    has_detached: bool,
}

fn classify_dir(names: &[String]) -> DirClass {
    let mut wf = true;
    let mut scheme = None;
    let mut attached = vec![];
    let mut has_detached = false;
    let mut has_detached_like = false;
    for n in names {
        match classify(n) {
            Kind::Attached(s, v) => {
                if scheme.is_some() && scheme != Some(s) {
                    wf = false;
                }
                scheme = scheme.or(Some(s));
                attached.push((v, n.clone()));
            }
            Kind::Detached(_) => {
                has_detached = true;
                has_detached_like = true;
            }
            Kind::Staging => {
                if n.starts_with('d') {
                    has_detached_like = true;
                }
            }
            Kind::Tmp => {}
            Kind::Junk => wf = false,
        }
    }
    if has_detached_like && scheme == Some(Sch::V1) {
        wf = false; // detached commits are refused on V1 tables
    }
    let set: BTreeSet<&String> = names.iter().collect();
    if set.len() != names.len() {
        wf = false;
    }
    DirClass { well_formed: wf, scheme, attached, has_detached: has_detached || has_detached_like }
}

fn is_sorted_bytes(names: &[String]) -> bool {
    names.windows(2).all(|w| w[0].as_bytes() < w[1].as_bytes())
}

// ---------------------------------------------------------------------------------------------
// interpreter
// ---------------------------------------------------------------------------------------------

fn sch_str(s: ManifestNamingScheme) -> &'static str {
    match s {
        ManifestNamingScheme::V1 => "V1",
        ManifestNamingScheme::V2 => "V2",
    }
}

fn opt_str(o: Option<u64>) -> String {
    o.map(|v| v.to_string()).unwrap_or_else(|| "none".into())
}

fn name_info(n: &str) -> String {
    let det = ManifestNamingScheme::detect_scheme(n);
    format!(
        "det={} p1={} p2={} st={}",
        det.map(sch_str).unwrap_or("none"),
        opt_str(ManifestNamingScheme::V1.parse_version(n)),
        opt_str(ManifestNamingScheme::V2.parse_version(n)),
        sch_str(ManifestNamingScheme::detect_scheme_staging(n))
    )
}

fn parse_names(toks: &[&str]) -> Vec<String> {
    if toks.len() == 1 && toks[0] == "-" {
        return vec![];
    }
    toks.iter().map(|s| s.to_string()).collect()
}

fn show_latest(r: std::thread::Result<lance_core::Result<ManifestLocation>>) -> String {
    match r {
        Err(e) => {
            if std::env::var("C33_DEBUG").is_ok() {
                let msg = e.downcast_ref::<String>().cloned().or_else(|| e.downcast_ref::<&str>().map(|s| s.to_string())).unwrap_or_default();
                eprintln!("panic payload: {msg}");
            }
            "panic".into()
        }
        Ok(Ok(l)) => format!(
            "ok v={} name={} scheme={}",
            l.version,
            l.path.filename().unwrap_or("?"),
            sch_str(l.naming_scheme)
        ),
        Ok(Err(lance_core::Error::NotFound { .. })) => "not_found".into(),
        Ok(Err(lance_core::Error::Internal { .. })) => "err_internal".into(),
        Ok(Err(_)) => "err_other".into(),
    }
}

struct C33 {}

fn new_rt() -> tokio::runtime::Runtime {
    tokio::runtime::Builder::new_current_thread().enable_all().build().unwrap()
}

impl C33 {
    /// oracle for `latest` / `latest_local`
    fn check_latest(&self, names: &[String], listing_ok: bool, out: &str, line: usize, res: &mut CaseResult) {
        let dc = classify_dir(names);
        if !dc.well_formed || !listing_ok {
            res.tags.push("latest:unspecified_dir".into());
            return;
        }
        res.tags.push(format!(
            "latest:wf:{}{}",
            match dc.scheme {
                Some(Sch::V1) => "V1",
                Some(Sch::V2) => "V2",
                None => "none",
            },
            if dc.has_detached { "+detached" } else { "" }
        ));
        let expect = match dc.attached.iter().max_by_key(|(v, _)| *v) {
            Some((v, n)) => format!(
                "ok v={} name={} scheme={}",
                v,
                n,
                if dc.scheme == Some(Sch::V1) { "V1" } else { "V2" }
            ),
            None => "not_found".into(),
        };
        if out != expect {
            let key = if out == "panic" && dc.has_detached {
                "latest_panics_on_detached"
            } else if out == "err_internal" && dc.scheme == Some(Sch::V2) {
                "latest_v2_unordered_listing"
            } else {
                "latest_wrong"
            };
            res.failures.push(OracleFailure {
                what: format!("latest of a well-formed directory: expected `{expect}`, got `{out}`"),
                key: Some(key.into()),
                line,
            });
        }
    }

    fn exec_line(&mut self, line: &str, idx: usize, res: &mut CaseResult) -> String {
        let toks: Vec<&str> = line.split(' ').filter(|s| !s.is_empty()).collect();
        if toks.is_empty() {
            return "bad".into();
        }
        res.tags.push(format!("op:{}", toks[0]));
        match toks[0] {
            "path" if toks.len() == 3 => {
                let scheme = match toks[1] {
                    "V1" => ManifestNamingScheme::V1,
                    "V2" => ManifestNamingScheme::V2,
                    _ => return "bad".into(),
                };
                let Ok(v) = toks[2].parse::<u64>() else { return "bad".into() };
                let base = Path::from("base");
                let p = scheme.manifest_path(&base, v);
                let name = p.filename().unwrap_or("?").to_string();
                // ---- oracle: round trip, detached never attached, inside `_versions`
                let own = scheme.parse_version(&name);
                let parts: Vec<_> = p.parts().collect();
                if parts.len() != 3 || parts[0].as_ref() != "base" || parts[1].as_ref() != "_versions" {
                    res.failures.push(OracleFailure { what: format!("{p} not in base/_versions"), key: Some("path_dir".into()), line: idx });
                }
                if v < MSB {
                    res.tags.push("path:attached".into());
                    if own != Some(v) || ManifestNamingScheme::detect_scheme(&name) != Some(scheme) {
                        res.failures.push(OracleFailure {
                            what: format!("{:?} name `{name}` of version {v}: parse={own:?} detect={:?}", scheme, ManifestNamingScheme::detect_scheme(&name)),
                            key: Some("roundtrip".into()),
                            line: idx,
                        });
                    }
                    if ManifestNamingScheme::detect_scheme_staging(&format!("{name}-6f9619ff-8b86-d011-b42d-00cf4fc964ff")) != scheme {
                        res.failures.push(OracleFailure { what: format!("staging scheme of `{name}`"), key: Some("staging_scheme".into()), line: idx });
                    }
                } else {
                    res.tags.push("path:detached".into());
                    let p1 = ManifestNamingScheme::V1.parse_version(&name);
                    let p2 = ManifestNamingScheme::V2.parse_version(&name);
                    if p1.is_some() || p2.is_some() || !matches!(classify(&name), Kind::Detached(x) if x == v) {
                        res.failures.push(OracleFailure {
                            what: format!("detached version {v} named `{name}` parses as attached: V1={p1:?} V2={p2:?}"),
                            key: Some("detached_as_attached".into()),
                            line: idx,
                        });
                    }
                }
                format!("{name} {}", name_info(&name))
            }
            "name" if toks.len() == 2 => {
                let n = if toks[1] == "_EMPTY_" { "" } else { toks[1] };
                name_info(n)
            }
            "cmp" if toks.len() == 3 => {
                let (Ok(v), Ok(w)) = (toks[1].parse::<u64>(), toks[2].parse::<u64>()) else { return "bad".into() };
                let base = Path::from("base");
                let a = ManifestNamingScheme::V2.manifest_path(&base, v);
                let b = ManifestNamingScheme::V2.manifest_path(&base, w);
                let (a, b) = (a.filename().unwrap().to_string(), b.filename().unwrap().to_string());
                let o = a.as_bytes().cmp(b.as_bytes());
                if v < MSB && w < MSB && o != w.cmp(&v) {
                    res.failures.push(OracleFailure {
                        what: format!("V2 names of {v},{w} compare {o:?}, versions compare {:?}", v.cmp(&w)),
                        key: Some("v2_order".into()),
                        line: idx,
                    });
                }
                if (v < MSB) != (w < MSB) {
                    // detached names must list after every attached name
                    let want = if v < MSB { std::cmp::Ordering::Less } else { std::cmp::Ordering::Greater };
                    if o != want {
                        res.failures.push(OracleFailure { what: format!("detached name does not sort last: {a} vs {b}"), key: Some("detached_order".into()), line: idx });
                    }
                }
                match o {
                    std::cmp::Ordering::Less => "lt".into(),
                    std::cmp::Ordering::Equal => "eq".into(),
                    std::cmp::Ordering::Greater => "gt".into(),
                }
            }
            "latest" if toks.len() >= 3 => {
                let lex = toks[1] == "1";
                let names = parse_names(&toks[2..]);
                let rt = new_rt();
                let (store, base, _inner) = mem_store(&names, lex, &rt);
                let r = catch_unwind(AssertUnwindSafe(|| {
                    rt.block_on(ConditionalPutCommitHandler.resolve_latest_location(&base, &store))
                }));
                let out = show_latest(r);
                res.tags.push(format!("latest:{}:{}", if lex { "lex" } else { "unordered" }, out.split(' ').next().unwrap()));
                if names.len() > 1000 {
                    res.tags.push("latest:dir>1000".into());
                }
                self.check_latest(&names, !lex || is_sorted_bytes(&names), &out, idx, res);
                out
            }
            "latest_local" if toks.len() >= 2 => {
                let names = parse_names(&toks[1..]);
                let td = tempfile::tempdir().unwrap();
                let vdir = td.path().join("_versions");
                std::fs::create_dir_all(&vdir).unwrap();
                for n in &names {
                    std::fs::write(vdir.join(n), b"x").unwrap();
                }
                let base = Path::from_absolute_path(td.path()).unwrap();
                let store = ObjectStore::local();
                let rt = new_rt();
                let r = catch_unwind(AssertUnwindSafe(|| {
                    rt.block_on(ConditionalPutCommitHandler.resolve_latest_location(&base, &store))
                }));
                let out = show_latest(r);
                res.tags.push(format!("latest_local:{}", out.split(' ').next().unwrap()));
                self.check_latest(&names, true, &out, idx, res);
                out
            }
            "list" if toks.len() >= 4 => {
                let lex = toks[1] == "1";
                let sorted = toks[2] == "1";
                let names = parse_names(&toks[3..]);
                let rt = new_rt();
                let (store, base, _inner) = mem_store(&names, lex, &rt);
                let r = catch_unwind(AssertUnwindSafe(|| {
                    rt.block_on(
                        ConditionalPutCommitHandler
                            .list_manifest_locations(&base, &store, sorted)
                            .try_collect::<Vec<_>>(),
                    )
                }));
                match r {
                    Err(_) => "panic".into(),
                    Ok(Err(_)) => "err".into(),
                    Ok(Ok(v)) => {
                        let dc = classify_dir(&names);
                        if dc.well_formed && (!lex || is_sorted_bytes(&names)) {
                            res.tags.push("list:wf".into());
                            let got: Vec<u64> = v.iter().map(|l| l.version).collect();
                            let mut want: Vec<u64> = dc.attached.iter().map(|(v, _)| *v).collect();
                            want.sort();
                            want.reverse();
                            let mut gs = got.clone();
                            if !sorted {
                                gs.sort();
                                gs.reverse();
                            }
                            if gs != want {
                                res.failures.push(OracleFailure {
                                    what: format!("list_manifest_locations(sorted={sorted}) = {got:?}, published (descending) = {want:?}"),
                                    key: Some("list_wrong".into()),
                                    line: idx,
                                });
                            }
                        } else {
                            res.tags.push("list:unspecified_dir".into());
                        }
                        let items: Vec<String> = v
                            .iter()
                            .map(|l| format!("{}:{}:{}", l.version, l.path.filename().unwrap_or("?"), sch_str(l.naming_scheme)))
                            .collect();
                        if items.is_empty() {
                            "ok -".into()
                        } else {
                            format!("ok {}", items.join(" "))
                        }
                    }
                }
            }
            "migrate" if toks.len() >= 2 => {
                let names = parse_names(&toks[1..]);
                let rt = new_rt();
                let (store, base, inner) = mem_store(&names, true, &rt);
                let r = catch_unwind(AssertUnwindSafe(|| rt.block_on(migrate_scheme_to_v2(&store, &base))));
                res.tags.push(format!("migrate:{}", match &r { Err(_) => "panic", Ok(Err(_)) => "err", Ok(Ok(())) => "ok" }));
                if r.is_err() && names.iter().all(|n| classify(n) != Kind::Junk) {
                    res.failures.push(OracleFailure {
                        what: format!("migrate_scheme_to_v2 panicked on a directory of lance-shaped names: {names:?}"),
                        key: Some("migrate_panic".into()),
                        line: idx,
                    });
                }
                match r {
                    Err(_) => "panic".into(),
                    Ok(Err(_)) => "err".into(),
                    Ok(Ok(())) => {
                        let rt2 = new_rt();
                        let after: Vec<String> = rt2.block_on(async {
                            let v: Vec<ObjectMeta> =
                                inner.list(Some(&base.child("_versions"))).try_collect().await.unwrap();
                            v.iter().map(|m| m.location.filename().unwrap().to_string()).collect()
                        });
                        let mut after_sorted = after.clone();
                        after_sorted.sort_by(|a, b| a.as_bytes().cmp(b.as_bytes()));
                        // ---- oracle: the set of attached versions is preserved, every attached name is V2 afterwards,
                        // everything that is not a V1 manifest is untouched
                        let all_known = names.iter().all(|n| classify(n) != Kind::Junk);
                        if all_known {
                            res.tags.push("migrate:wf".into());
                            let vers = |ns: &[String]| -> BTreeSet<u64> {
                                ns.iter().filter_map(|n| if let Kind::Attached(_, v) = classify(n) { Some(v) } else { None }).collect()
                            };
                            let others = |ns: &[String]| -> BTreeSet<String> {
                                ns.iter().filter(|n| !matches!(classify(n), Kind::Attached(Sch::V1, _))).filter(|n| !matches!(classify(n), Kind::Attached(Sch::V2, _))).cloned().collect()
                            };
                            let v1_left = after.iter().any(|n| matches!(classify(n), Kind::Attached(Sch::V1, _)));
                            if vers(&names) != vers(&after) || v1_left || others(&names) != others(&after) {
                                res.failures.push(OracleFailure {
                                    what: format!("migrate_scheme_to_v2: before {names:?} after {after_sorted:?}"),
                                    key: Some("migrate_wrong".into()),
                                    line: idx,
                                });
                            }
                        } else {
                            res.tags.push("migrate:unspecified_dir".into());
                        }
                        if after_sorted.is_empty() {
                            "ok -".into()
                        } else {
                            format!("ok {}", after_sorted.join(" "))
                        }
                    }
                }
            }
            _ => "bad".into(),
        }
    }
}

// ---------------------------------------------------------------------------------------------
// generator
// ---------------------------------------------------------------------------------------------

fn gen_version(r: &mut Rng) -> u64 {
    const B: [u64; 26] = [
        0,
        1,
        9,
        10,
        11,
        99,
        100,
        999,
        1000,
        u32::MAX as u64,
        u32::MAX as u64 + 1,
        999_999_999_999_999_999,
        1_000_000_000_000_000_000,
        MSB - 2,
        MSB - 1,
        MSB,
        MSB + 1,
        9_999_999_999_999_999_999,
        10_000_000_000_000_000_000,
        u64::MAX - 1,
        u64::MAX,
        u64::MAX - 9,
        u64::MAX - 10,
        8_446_744_073_709_551_615,
        8_446_744_073_709_551_616,
        446_744_073_709_551_615,
    ];
    match r.below(10) {
        0..=2 => *r.pick(&B),
        3..=5 => r.below(40),
        6 => {
            // powers of ten and their neighbours
            let p = 10u64.pow(r.below(20) as u32);
            p.wrapping_add(r.below(3)).wrapping_sub(1)
        }
        _ => {
            let w = r.range(1, 64);
            let x = r.next_u64();
            if w == 64 {
                x
            } else {
                x & ((1u64 << w) - 1)
            }
        }
    }
}

fn gen_attached(r: &mut Rng) -> u64 {
    gen_version(r) & (MSB - 1)
}

fn gen_uuid(r: &mut Rng) -> String {
    let a = r.next_u64();
    let b = r.next_u64();
    format!(
        "{:08x}-{:04x}-{:04x}-{:04x}-{:012x}",
        (a >> 32) as u32,
        (a >> 16) as u16,
        a as u16,
        (b >> 48) as u16,
        b & 0xFFFF_FFFF_FFFF
    )
}

fn man_name(s: Sch, v: u64) -> String {
    // the generator's own formatting (not lance's): checked against lance by the `path` op
    if v >= MSB {
        format!("d{v}.manifest")
    } else {
        match s {
            Sch::V1 => format!("{v}.manifest"),
            Sch::V2 => format!("{:020}.manifest", u64::MAX - v),
        }
    }
}

const JUNK: [&str; 30] = [
    "foo.manifest",
    "xmanifest",
    "manifest",
    ".manifest",
    "+5.manifest",
    "05.manifest",
    "5.manifest",
    "005.manifest",
    "00000000000000000005.manifest",
    "99999999999999999999.manifest",
    "18446744073709551616.manifest",
    "18446744073709551615.manifest",
    "9223372036854775808.manifest",
    "d",
    "data",
    "d5.manifest",
    "d.manifest",
    "5.manifestx",
    "5",
    "abcdefghijklmnopqrst.manifest",
    "abcdefghijklmnopqrstumanifest",
    "1234567890123456789.xmanifest",
    "-5.manifest",
    "5.5.manifest",
    "5..manifest",
    "+.manifest",
    "1_000.manifest",
    "latest.manifest",
    "7.txt",
    "0000000000000000000000005.manifest",
];

/// a directory: names + whether it was built as well-formed
fn gen_dir(r: &mut Rng, class: u64, allow_big: bool) -> Vec<String> {
    let mut names: Vec<String> = vec![];
    let s = if r.chance(1, 2) { Sch::V1 } else { Sch::V2 };
    let k = match r.below(8) {
        0 => 0,
        1 => 1,
        2 => 2,
        _ => r.range(2, 9),
    };
    // attached versions: runs crossing decimal-length boundaries, or scattered
    let mut vs: Vec<u64> = vec![];
    if r.chance(1, 2) {
        let start = match r.below(4) {
            0 => r.below(3),
            1 => 7 + r.below(3),
            2 => 95 + r.below(5),
            _ => gen_attached(r).min(MSB - 20),
        };
        for i in 0..k {
            if r.chance(5, 6) {
                vs.push(start + i);
            }
        }
    } else {
        for _ in 0..k {
            vs.push(gen_attached(r));
        }
    }
    if allow_big && class == 0 && r.chance(1, 60) {
        let start = r.below(5000);
        for i in 0..(1000 + r.below(8)) {
            vs.push(start + i);
        }
    }
    for v in &vs {
        names.push(man_name(s, *v));
    }
    let with_detached = s == Sch::V2 || class != 0;
    if with_detached && r.chance(2, 5) {
        for _ in 0..r.range(1, 2) {
            names.push(man_name(s, gen_version(r) | MSB));
        }
    }
    // staging / tmp files of attached and detached commits
    for _ in 0..r.below(3) {
        let v = if with_detached && r.chance(1, 4) { gen_version(r) | MSB } else { gen_attached(r) };
        let n = man_name(s, v);
        if r.chance(2, 3) {
            names.push(format!("{n}-{}", gen_uuid(r)));
        } else {
            names.push(format!(".tmp_{n}_{}", gen_uuid(r)));
        }
    }
    match class {
        0 => {}
        1 => {
            // mixed schemes
            let o = if s == Sch::V1 { Sch::V2 } else { Sch::V1 };
            for _ in 0..r.range(1, 3) {
                names.push(man_name(o, gen_attached(r)));
            }
        }
        _ => {
            for _ in 0..r.range(1, 3) {
                names.push(r.pick(&JUNK).to_string());
            }
            if r.chance(1, 3) {
                names.push(man_name(if s == Sch::V1 { Sch::V2 } else { Sch::V1 }, gen_attached(r)));
            }
        }
    }
    names.sort_by(|a, b| a.as_bytes().cmp(b.as_bytes()));
    names.dedup();
    names
}

fn shuffle(r: &mut Rng, v: &mut [String]) {
    for i in (1..v.len()).rev() {
        let j = r.usize(i + 1);
        v.swap(i, j);
    }
}

fn dir_class(r: &mut Rng) -> u64 {
    // 0 well-formed (72 %), 1 mixed schemes (14 %), 2 junk names (14 %)
    match r.below(100) {
        0..=71 => 0,
        72..=85 => 1,
        _ => 2,
    }
}

fn show_names(v: &[String]) -> String {
    if v.is_empty() {
        "-".into()
    } else {
        v.join(" ")
    }
}

/// local directories: only classes whose outcome does not depend on the OS's read_dir order
fn gen_local_dir(r: &mut Rng) -> Vec<String> {
    loop {
        let class = if r.chance(4, 5) { 0 } else { 1 };
        let names = gen_dir(r, class, false);
        if class == 0 {
            // no two names of one version (the winner of a tie is order dependent): guaranteed by construction
            return names;
        }
        // mixed: order independent only with >= 2 V2 attached names, >= 1 V1, nothing starting with `d`
        let n2 = names.iter().filter(|n| matches!(classify(n), Kind::Attached(Sch::V2, _))).count();
        let n1 = names.iter().filter(|n| matches!(classify(n), Kind::Attached(Sch::V1, _))).count();
        if n2 >= 2 && n1 >= 1 && !names.iter().any(|n| n.starts_with('d')) {
            return names;
        }
    }
}

impl Prop for C33 {
    fn id(&self) -> &'static str {
        "C33"
    }
    fn budget(&self, tier: Tier) -> usize {
        match tier {
            Tier::Quick => 6000,
            Tier::Thorough => 60_000,
            Tier::Search => 25_000,
        }
    }
    fn rule(&self) -> String {
        "each case: 3 `path` ops (u64 boundary values, powers of ten +-1, random widths; both schemes; ~1/3 detached), 1-2 `name` ops \
         (lance-shaped names, staging/tmp names, junk), 2 `cmp` ops (neighbouring / random versions), then directory ops on generated \
         directories: 72% well-formed (attached manifests of one scheme in runs crossing decimal-length boundaries or scattered, \
         detached manifests in V2 directories, staging `<name>-<uuid>` and `.tmp_<name>_<uuid>` files), 14% mixed schemes, 14% junk names; \
         `latest` on an in-memory store whose list yields a chosen order (sorted when the lexical flag is set, shuffled otherwise; \
         8% flag/order mismatches; 1/60 directories > 1000 entries), `latest_local` on a real temp directory (order-independent \
         classes only), `list` (sorted and unsorted), `migrate`. Non-trivial = a directory op on a directory with >= 2 attached manifests \
         or a detached/boundary version in a path op; distinct = distinct op-line text."
            .into()
    }
    fn gen_case(&mut self, r: &mut Rng, tier: Tier, idx: usize) -> Vec<String> {
        let mut l = vec![];
        for _ in 0..3 {
            let s = if r.chance(1, 2) { "V1" } else { "V2" };
            let v = if r.chance(1, 3) { gen_version(r) | MSB } else if r.chance(1, 2) { gen_attached(r) } else { gen_version(r) };
            l.push(format!("path {s} {v}"));
        }
        for _ in 0..r.range(1, 2) {
            let n = match r.below(6) {
                0 => r.pick(&JUNK).to_string(),
                1 => format!("{}-{}", man_name(if r.chance(1, 2) { Sch::V1 } else { Sch::V2 }, gen_version(r)), gen_uuid(r)),
                2 => format!(".tmp_{}_{}", man_name(Sch::V1, gen_attached(r)), gen_uuid(r)),
                3 => {
                    // digit strings of every length around 20, with and without the extension
                    let len = r.range(0, 23) as usize;
                    let d: String = (0..len).map(|_| char::from(b'0' + r.below(10) as u8)).collect();
                    format!("{d}{}", r.pick(&[".manifest", "manifest", ".manifest-x", ".", ""]))
                }
                4 => {
                    if r.chance(1, 8) {
                        "_EMPTY_".into()
                    } else {
                        format!("{}{}", r.pick(&["+", "-", "0", "d", "D", "x"]), man_name(Sch::V1, gen_version(r)))
                    }
                }
                _ => man_name(Sch::V2, gen_version(r)),
            };
            let n = if n.is_empty() { "_EMPTY_".to_string() } else { n };
            l.push(format!("name {n}"));
        }
        for _ in 0..2 {
            let v = gen_version(r);
            let w = match r.below(4) {
                0 => v.wrapping_add(1),
                1 => v.wrapping_sub(1),
                2 => v,
                _ => gen_version(r),
            };
            l.push(format!("cmp {v} {w}"));
        }
        let big_ok = tier != Tier::Quick || idx % 4 == 0;
        // latest on the permuting memory store
        for _ in 0..2 {
            let class = dir_class(r);
            let mut names = gen_dir(r, class, big_ok);
            let lex = r.chance(1, 2);
            let mismatch = r.chance(2, 25);
            if lex == mismatch {
                shuffle(r, &mut names);
            }
            l.push(format!("latest {} {}", lex as u8, show_names(&names)));
        }
        if idx % 8 == 0 {
            let names = gen_local_dir(r);
            l.push(format!("latest_local {}", show_names(&names)));
        }
        {
            let class = dir_class(r);
            let mut names = gen_dir(r, class, false);
            let lex = r.chance(1, 2);
            if !lex || r.chance(1, 12) {
                shuffle(r, &mut names);
            }
            l.push(format!("list {} {} {}", lex as u8, r.chance(3, 4) as u8, show_names(&names)));
        }
        {
            let class = match r.below(10) {
                0..=1 => 0,
                2..=7 => 1,
                _ => 2,
            };
            let names = gen_dir(r, class, false);
            l.push(format!("migrate {}", show_names(&names)));
        }
        l
    }
    fn exec_case(&mut self, lines: &[String]) -> CaseResult {
        let mut res = CaseResult::default();
        for (i, line) in lines.iter().enumerate() {
            let o = self.exec_line(line, i, &mut res);
            if o == "bad" {
                res.tags.push("bad_line".into());
            }
            let head = line.split(' ').next().unwrap_or("");
            if matches!(head, "latest" | "latest_local" | "list" | "migrate") {
                let names: Vec<String> = line.split(' ').skip(1).map(|s| s.to_string()).collect();
                let n_att = names.iter().filter(|n| matches!(classify(n), Kind::Attached(..))).count();
                if n_att >= 2 {
                    res.nontrivial = true;
                }
            }
            if head == "path" {
                if let Some(v) = line.split(' ').nth(2).and_then(|s| s.parse::<u64>().ok()) {
                    if v >= MSB || v.to_string().len() >= 19 {
                        res.nontrivial = true;
                    }
                }
            }
            res.outputs.push(o);
        }
        res
    }
}

fn main() {
    run_main(C33 {})
}
