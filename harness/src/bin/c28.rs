//! C28: standalone compression kernels round trip.
//!
//! Interpreter of the C28 line protocol against the real `lance_bitpacking::BitPacking::{unchecked_pack,
//! unchecked_unpack}` (u8..u64) and `fsst::fsst::{compress, decompress}` (i32 / i64 offsets), a seeded generator
//! and the property oracle (unpack(pack xs) = xs masked to the width; decompress(compress a) = a string by string).
//!
//!   pack   T w fill outlen xs        -> `ok <out words>` | `panic`
//!   unpack T w fill outlen ws        -> `ok <out values>` | `panic`
//!   fin    O hexbuf offsets          -> `copy st=<fnv> out=<fnv> offs=<list>` (input below FSST_LEAST_INPUT_SIZE) | `fsst`
//!   finmin O hexbuf offsets          -> the same, with the minimum output buffers the kernels' own checks accept (1x / 3x)
//!   dec    O hexsymtab hexcodes offs -> `ok <hex> <offsets> term=<terminator> termfree=<bool>` | `err:<kind>`
//!                                       (termfree: no symbol of >= 2 bytes contains the terminator byte)
//!
//! `fsst::compress` samples its training set with an OS-seeded RNG, so a compressed form is not a function of the
//! seed: the generator runs the real compressor and puts its output into the `dec` line (data for the Lean decoder
//! model); the interpreter compresses the `fin` input again (an independent sample) for the oracle.

use std::panic::{catch_unwind, AssertUnwindSafe};

use arrow_array::OffsetSizeTrait;
use hcommon::*;
use lance_bitpacking::BitPacking;

const SYMTAB: usize = fsst::fsst::FSST_SYMBOL_TABLE_SIZE;
const LEAST: usize = fsst::fsst::FSST_LEAST_INPUT_SIZE;

// ---------------------------------------------------------------- bit-packing

trait Lane: BitPacking + Copy {
    fn from_u64(v: u64) -> Self;
    fn to_u64(self) -> u64;
}
macro_rules! lane {
    ($t:ty) => {
        impl Lane for $t {
            fn from_u64(v: u64) -> Self {
                v as $t
            }
            fn to_u64(self) -> u64 {
                self as u64
            }
        }
    };
}
lane!(u8);
lane!(u16);
lane!(u32);
lane!(u64);

fn run_pack<L: Lane>(w: usize, xs: &[u64], fill: u64, outlen: usize) -> Option<Vec<u64>> {
    let inp: Vec<L> = xs.iter().map(|&v| L::from_u64(v)).collect();
    let mut out: Vec<L> = vec![L::from_u64(fill); outlen];
    catch_unwind(AssertUnwindSafe(|| unsafe { L::unchecked_pack(w, &inp, &mut out) })).ok()?;
    Some(out.iter().map(|v| v.to_u64()).collect())
}

fn run_unpack<L: Lane>(w: usize, ws: &[u64], fill: u64, outlen: usize) -> Option<Vec<u64>> {
    let inp: Vec<L> = ws.iter().map(|&v| L::from_u64(v)).collect();
    let mut out: Vec<L> = vec![L::from_u64(fill); outlen];
    catch_unwind(AssertUnwindSafe(|| unsafe { L::unchecked_unpack(w, &inp, &mut out) })).ok()?;
    Some(out.iter().map(|v| v.to_u64()).collect())
}

fn pack_t(t: usize, w: usize, xs: &[u64], fill: u64, outlen: usize) -> Option<Vec<u64>> {
    match t {
        8 => run_pack::<u8>(w, xs, fill, outlen),
        16 => run_pack::<u16>(w, xs, fill, outlen),
        32 => run_pack::<u32>(w, xs, fill, outlen),
        64 => run_pack::<u64>(w, xs, fill, outlen),
        _ => None,
    }
}

fn unpack_t(t: usize, w: usize, ws: &[u64], fill: u64, outlen: usize) -> Option<Vec<u64>> {
    match t {
        8 => run_unpack::<u8>(w, ws, fill, outlen),
        16 => run_unpack::<u16>(w, ws, fill, outlen),
        32 => run_unpack::<u32>(w, ws, fill, outlen),
        64 => run_unpack::<u64>(w, ws, fill, outlen),
        _ => None,
    }
}

fn low_mask(bits: usize) -> u64 {
    if bits >= 64 {
        u64::MAX
    } else {
        (1u64 << bits) - 1
    }
}

// ---------------------------------------------------------------- fsst

fn hex(b: &[u8]) -> String {
    if b.is_empty() {
        return "-".into();
    }
    let mut s = String::with_capacity(b.len() * 2);
    for x in b {
        s.push(char::from_digit((x >> 4) as u32, 16).unwrap());
        s.push(char::from_digit((x & 15) as u32, 16).unwrap());
    }
    s
}

fn unhex(s: &str) -> Option<Vec<u8>> {
    if s == "-" {
        return Some(vec![]);
    }
    let b = s.as_bytes();
    if b.len() % 2 != 0 {
        return None;
    }
    let mut v = Vec::with_capacity(b.len() / 2);
    for p in b.chunks(2) {
        let hi = (p[0] as char).to_digit(16)?;
        let lo = (p[1] as char).to_digit(16)?;
        v.push((hi * 16 + lo) as u8);
    }
    Some(v)
}

fn fnv(b: &[u8]) -> u64 {
    let mut h: u64 = 14695981039346656037;
    for x in b {
        h = (h ^ *x as u64).wrapping_mul(1099511628211);
    }
    h
}

enum Comp {
    Ok { st: Vec<u8>, out: Vec<u8>, offs: Vec<u64> },
    Err(String),
    Panic,
}

/// `fsst::compress`; `f` = 2: the buffer sizes lance-encoding uses (2x values, 2x offsets); `f` = 1: the minimum
/// that `FsstEncoder::init` accepts
fn compress_o<T: OffsetSizeTrait>(buf: &[u8], offs: &[u64], f: usize) -> Comp {
    let offs_t: Vec<T> = offs.iter().map(|&o| T::from_usize(o as usize).unwrap()).collect();
    let r = catch_unwind(AssertUnwindSafe(|| {
        let mut st = vec![0u8; SYMTAB];
        let mut out = vec![0u8; buf.len() * f];
        let mut out_offs = vec![T::from_usize(0).unwrap(); offs_t.len() * f];
        let r = fsst::fsst::compress(&mut st, buf, &offs_t, &mut out, &mut out_offs);
        (r, st, out, out_offs)
    }));
    match r {
        Err(_) => Comp::Panic,
        Ok((Err(e), ..)) => Comp::Err(e.to_string()),
        Ok((Ok(()), st, out, out_offs)) => Comp::Ok {
            st,
            out,
            offs: out_offs.iter().map(|o| o.as_usize() as u64).collect(),
        },
    }
}

fn compress_any(o: usize, buf: &[u8], offs: &[u64], f: usize) -> Comp {
    if o == 32 {
        compress_o::<i32>(buf, offs, f)
    } else {
        compress_o::<i64>(buf, offs, f)
    }
}

enum Dec {
    Ok { out: Vec<u8>, offs: Vec<u64> },
    Err(&'static str),
}

/// `fsst::decompress`; `f` = 8: the buffer size lance-encoding uses; `f` = 3: the minimum `FsstDecoder::init` accepts
fn decompress_o<T: OffsetSizeTrait>(st: &[u8], codes: &[u8], offs: &[u64], f: usize) -> Dec {
    let offs_t: Vec<T> = offs.iter().map(|&o| T::from_usize(o as usize).unwrap()).collect();
    let r = catch_unwind(AssertUnwindSafe(|| {
        let mut out = vec![0u8; codes.len() * f];
        let mut out_offs = vec![T::from_usize(0).unwrap(); offs_t.len()];
        let r = fsst::fsst::decompress(st, codes, &offs_t, &mut out, &mut out_offs);
        (r, out, out_offs)
    }));
    match r {
        Err(_) => Dec::Err("err:panic"),
        Ok((Err(e), ..)) => match e.kind() {
            std::io::ErrorKind::InvalidData => Dec::Err("err:invalid_data"),
            std::io::ErrorKind::InvalidInput => Dec::Err("err:invalid_input"),
            _ => Dec::Err("err:other"),
        },
        Ok((Ok(()), out, out_offs)) => Dec::Ok {
            out,
            offs: out_offs.iter().map(|o| o.as_usize() as u64).collect(),
        },
    }
}

fn decompress_any(o: usize, st: &[u8], codes: &[u8], offs: &[u64], f: usize) -> Dec {
    if o == 32 {
        decompress_o::<i32>(st, codes, offs, f)
    } else {
        decompress_o::<i64>(st, codes, offs, f)
    }
}

/// the invariant of a finalized symbol table that `compress_bulk` relies on when it writes the terminator behind
/// every chunk as a sentinel: no symbol of two or more bytes contains the terminator byte.  Parsed from the
/// serialised table (`FsstEncoder::export`): byte 0 = number of symbols, byte 1 = terminator, then 8-byte symbols,
/// then length bytes.  `None` = no violation; `Some(i)` = symbol i violates it.
fn table_invariant_violation(st: &[u8]) -> Option<usize> {
    if st.len() != SYMTAB {
        return None;
    }
    let n = st[0] as usize;
    let t = st[1];
    (0..n).find(|&i| {
        let len = (st[8 + 8 * n + i] as usize).min(8);
        len >= 2 && st[8 + 8 * i..8 + 8 * i + len].contains(&t)
    })
}

fn strings_of<'a>(buf: &'a [u8], offs: &[u64]) -> Option<Vec<&'a [u8]>> {
    let mut v = vec![];
    for p in offs.windows(2) {
        let (a, b) = (p[0] as usize, p[1] as usize);
        if a > b || b > buf.len() {
            return None;
        }
        v.push(&buf[a..b]);
    }
    Some(v)
}

/// the model covers offsets that are monotone and inside the buffer
fn offsets_valid(len: usize, offs: &[u64]) -> bool {
    offs.windows(2).all(|p| p[0] <= p[1] && p[1] as usize <= len)
}

// ---------------------------------------------------------------- generator

const WORDS: &[&str] = &[
    "the", "quick", "brown", "fox", "jumps", "over", "lazy", "dog", "lance", "dataset", "column", "http://", "www.",
    ".com", "error", "warning", "2024-", "id=", "user_", "null", " ", ", ", "\n", "König", "日本語", "🦀",
];

struct C28;

fn gen_block(rng: &mut Rng, t: usize, w: usize, kind: usize) -> Vec<u64> {
    let m = low_mask(w);
    let tm = low_mask(t);
    (0..1024u64)
        .map(|i| match kind {
            0 => 0,
            1 => m,
            2 => {
                if i % 2 == 0 {
                    0
                } else {
                    m
                }
            }
            3 => rng.next_u64() & m,
            4 => rng.next_u64() & tm, // not masked: the kernel keeps the low w bits
            5 => i & m,
            6 => (1u64 << (rng.below(t as u64))) & tm, // a single bit anywhere in the lane type
            _ => {
                if rng.chance(1, 8) {
                    rng.next_u64() & m
                } else {
                    0
                }
            }
        })
        .collect()
}

fn pairs() -> Vec<(usize, usize)> {
    let mut v = vec![];
    for t in [8usize, 16, 32, 64] {
        for w in 0..=t {
            v.push((t, w));
        }
    }
    v
}

fn gen_bitpack(rng: &mut Rng, idx: usize) -> Vec<String> {
    let ps = pairs();
    let (t, w) = ps[idx % ps.len()];
    let kind = (idx / ps.len()) % 8;
    let xs = gen_block(rng, t, w, kind);
    let fill = rng.next_u64() & low_mask(t);
    let plen = 1024 * w / t;
    let mut lines = vec![format!("pack {t} {w} {fill} {plen} {}", show_nat_list(xs.iter().copied()))];
    // unpack what the real kernel packed
    if let Some(p) = pack_t(t, w, &xs, fill, plen) {
        let fill2 = rng.next_u64() & low_mask(t);
        lines.push(format!("unpack {t} {w} {fill2} 1024 {}", show_nat_list(p.iter().copied())));
    }
    // unpack arbitrary words (not produced by pack)
    if rng.chance(1, 3) {
        let ws: Vec<u64> = (0..plen).map(|_| rng.next_u64() & low_mask(t)).collect();
        lines.push(format!("unpack {t} {w} 0 1024 {}", show_nat_list(ws.iter().copied())));
    }
    lines
}

fn gen_bitpack_malformed(rng: &mut Rng) -> Vec<String> {
    let t = *rng.pick(&[8usize, 16, 32, 64]);
    let tm = low_mask(t);
    match rng.below(4) {
        0 => {
            // width beyond the lane type
            let w = t + 1 + rng.usize(3);
            let xs: Vec<u64> = (0..1024).map(|_| rng.next_u64() & tm).collect();
            vec![
                format!("pack {t} {w} 0 {} {}", 1024 * w / t, show_nat_list(xs.iter().copied())),
                format!("unpack {t} {w} 0 1024 {}", show_nat_list(xs.iter().copied())),
            ]
        }
        1 => {
            // input block too short
            let w = 1 + rng.usize(t);
            let n = rng.usize(1024);
            let xs: Vec<u64> = (0..n).map(|_| rng.next_u64() & low_mask(w)).collect();
            vec![format!("pack {t} {w} 0 {} {}", 1024 * w / t, show_nat_list(xs.iter().copied()))]
        }
        2 => {
            // output too short
            let w = 1 + rng.usize(t);
            let xs: Vec<u64> = (0..1024).map(|_| rng.next_u64() & low_mask(w)).collect();
            let plen = 1024 * w / t;
            vec![format!("pack {t} {w} 0 {} {}", rng.usize(plen), show_nat_list(xs.iter().copied()))]
        }
        _ => {
            // packed input / unpack output too short
            let w = 1 + rng.usize(t);
            let plen = 1024 * w / t;
            if rng.chance(1, 2) {
                let ws: Vec<u64> = (0..rng.usize(plen)).map(|_| rng.next_u64() & tm).collect();
                vec![format!("unpack {t} {w} 0 1024 {}", show_nat_list(ws.iter().copied()))]
            } else {
                let ws: Vec<u64> = (0..plen).map(|_| rng.next_u64() & tm).collect();
                vec![format!("unpack {t} {w} 0 {} {}", rng.usize(1024), show_nat_list(ws.iter().copied()))]
            }
        }
    }
}

/// a byte-string array: (values, offsets)
fn gen_array(rng: &mut Rng, kind: usize) -> (Vec<u8>, Vec<u64>) {
    let mut strs: Vec<Vec<u8>> = vec![];
    let big = LEAST + rng.usize(LEAST); // 32..64 KiB
    let push_until = |strs: &mut Vec<Vec<u8>>, target: usize, f: &mut dyn FnMut() -> Vec<u8>| {
        let mut tot: usize = strs.iter().map(|s| s.len()).sum();
        while tot < target {
            let s = f();
            tot += s.len();
            strs.push(s);
        }
    };
    match kind {
        0 => {
            // small array: copy mode
            let n = rng.usize(12);
            for _ in 0..n {
                let l = if rng.chance(1, 4) { 0 } else { rng.usize(40) };
                strs.push((0..l).map(|_| rng.next_u64() as u8).collect());
            }
        }
        1 => {
            // text from a small vocabulary
            let mut r = rng.fork();
            push_until(&mut strs, big, &mut || {
                let k = r.usize(12);
                let mut s = vec![];
                for _ in 0..k {
                    s.extend_from_slice(r.pick(WORDS).as_bytes());
                }
                s
            });
        }
        2 => {
            // all 256 byte values, cycling
            let mut r = rng.fork();
            let mut c = 0u8;
            push_until(&mut strs, big, &mut || {
                let l = r.usize(700);
                (0..l)
                    .map(|_| {
                        c = c.wrapping_add(1);
                        c
                    })
                    .collect()
            });
        }
        3 => {
            // long repeats: one byte, or an 8 / 3 byte pattern, strings longer than the 511 byte chunk
            let mut r = rng.fork();
            let pat: Vec<u8> = match r.below(3) {
                0 => vec![r.next_u64() as u8],
                1 => (0..8).map(|_| r.next_u64() as u8).collect(),
                _ => (0..3).map(|_| r.next_u64() as u8).collect(),
            };
            push_until(&mut strs, big, &mut || {
                let l = if r.chance(1, 3) { 511 + r.usize(3000) } else { r.usize(600) };
                (0..l).map(|i| pat[i % pat.len()]).collect()
            });
        }
        4 => {
            // incompressible
            let mut r = rng.fork();
            push_until(&mut strs, big, &mut || {
                let l = r.usize(300);
                (0..l).map(|_| r.next_u64() as u8).collect()
            });
        }
        5 => {
            // around the threshold: total length 32767 / 32768 / 32769
            let total = LEAST - 1 + rng.usize(3);
            let mut r = rng.fork();
            let mut left = total;
            while left > 0 {
                let l = (1 + r.usize(200)).min(left);
                let mut s = vec![];
                while s.len() < l {
                    s.extend_from_slice(r.pick(WORDS).as_bytes());
                }
                s.truncate(l);
                left -= l;
                strs.push(s);
            }
        }
        6 => {
            // mostly empty strings, escape-code-valued bytes, few distinct bytes
            let mut r = rng.fork();
            let alphabet: Vec<u8> = vec![255, 254, 0, 1, b'a', 255];
            push_until(&mut strs, big, &mut || {
                if r.chance(2, 3) {
                    vec![]
                } else {
                    let l = r.usize(2000);
                    (0..l).map(|_| *r.pick(&alphabet)).collect()
                }
            });
        }
        9 => {
            // all 256 byte values present, structured rare-byte context: 32 eight-byte words that use every byte
            // value once; some words are frequent, the others equally rare, so the terminator FSST picks (the rarest
            // byte of the sample, lowest value first) OCCURS in the data, always behind the same bytes; every string ends
            // with some of the bytes that precede it (the sentinel written behind a string then completes the word)
            let mut r = rng.fork();
            let mut perm: Vec<u8> = (0..=255u8).collect();
            for i in (1..256).rev() {
                let j = r.usize(i + 1);
                perm.swap(i, j);
            }
            let mut words: Vec<Vec<u8>> = perm.chunks(8).map(|c| c.to_vec()).collect();
            let nfreq = 8 + r.usize(8); // words 0..nfreq are frequent
            // the terminator: the smallest byte value of the rare words; make sure bytes precede it in its word
            let (mut tw, mut tp, mut tb) = (0usize, 0usize, 255u8);
            for (wi, w) in words.iter().enumerate().skip(nfreq) {
                for (pi, b) in w.iter().enumerate() {
                    if *b <= tb {
                        (tw, tp, tb) = (wi, pi, *b);
                    }
                }
            }
            let want_pos = if r.chance(1, 2) { 7 } else { 2 + r.usize(6) };
            words[tw].swap(tp, want_pos);
            let tp = want_pos;
            let scale = 1 + r.usize(5); // string length 544 * scale roughly: several 511-byte chunks
            let (freq_reps, rare_reps) = ((3 + r.usize(3)) * scale, scale);
            push_until(&mut strs, big, &mut || {
                let mut seq: Vec<usize> = vec![];
                for j in 0..32 {
                    let reps = if j < nfreq { freq_reps } else { rare_reps };
                    seq.extend(std::iter::repeat(j).take(reps));
                }
                for i in (1..seq.len()).rev() {
                    let j = r.usize(i + 1);
                    seq.swap(i, j);
                }
                let mut st: Vec<u8> = vec![];
                for j in seq {
                    st.extend_from_slice(&words[j]);
                }
                let tail = 1 + r.usize(tp);
                st.extend_from_slice(&words[tw][tp - tail..tp]);
                st
            });
        }
        10 => {
            // compressible strings longer than one 511-byte chunk whose last chunk is shorter than the one before it
            // (the bytes behind the last chunk in the encoder's chunk buffer are left-overs of the previous chunk)
            let mut r = rng.fork();
            let phrase: Vec<u8> = (0..(3 + r.usize(14))).flat_map(|_| r.pick(WORDS).as_bytes().to_vec()).collect();
            push_until(&mut strs, big, &mut || {
                let chunks = 1 + r.usize(3);
                let l = 511 * chunks + 1 + r.usize(500);
                let mut st: Vec<u8> = vec![];
                let mut k = r.usize(phrase.len());
                while st.len() < l {
                    if r.chance(1, 40) {
                        st.extend_from_slice(r.pick(WORDS).as_bytes());
                    }
                    st.push(phrase[k % phrase.len()]);
                    k += 1;
                }
                st.truncate(l);
                st
            });
        }
        8 => {
            // no string has a byte: zero strings, or only empty strings, over a large unreferenced values buffer
            let n = if rng.chance(1, 2) { 0 } else { 1 + rng.usize(5) };
            let at = rng.usize(100) as u64;
            let buf: Vec<u8> = (0..big).map(|_| rng.next_u64() as u8).collect();
            return (buf, vec![at; n + 1]);
        }
        _ => {
            // one very long string + short ones, mixed text / binary
            let mut r = rng.fork();
            let l = big;
            let mut s = vec![];
            while s.len() < l {
                if r.chance(1, 5) {
                    s.push(r.next_u64() as u8);
                } else {
                    s.extend_from_slice(r.pick(WORDS).as_bytes());
                }
            }
            strs.push(vec![]);
            strs.push(s);
            strs.push(b"x".to_vec());
        }
    }
    // slice: leading / trailing bytes that no string references (a sliced Arrow array)
    let lead: usize = if kind != 0 && kind != 5 && rng.chance(1, 6) { 1 + rng.usize(50) } else { 0 };
    let mut buf: Vec<u8> = (0..lead).map(|_| rng.next_u64() as u8).collect();
    let mut offs = vec![lead as u64];
    for s in &strs {
        buf.extend_from_slice(s);
        offs.push(buf.len() as u64);
    }
    if lead > 0 {
        buf.extend((0..rng.usize(20)).map(|_| rng.next_u64() as u8));
    }
    (buf, offs)
}

fn gen_fsst(rng: &mut Rng, idx: usize) -> Vec<String> {
    let o = if idx % 2 == 0 { 32 } else { 64 };
    let kind = match (idx / 2) % 12 {
        11 => 9, // the rare-byte-context family twice per cycle
        k => k,
    };
    let (buf, offs) = gen_array(rng, kind);
    // every third array goes through the kernels with the minimum buffer sizes their own checks accept
    let op = if idx % 3 == 2 { "finmin" } else { "fin" };
    let mut lines = vec![format!("{op} {o} {} {}", hex(&buf), show_nat_list(offs.iter().copied()))];
    if let Comp::Ok { st, out, offs: co } = compress_any(o, &buf, &offs, 2) {
        // compress_bulk leaves the offsets vector at the input's length; the values at the compressed length
        lines.push(format!("dec {o} {} {} {}", hex(&st), hex(&out), show_nat_list(co.iter().copied())));
    }
    lines
}

/// a synthetic symbol table + code streams for the decoder alone
fn gen_dec_synthetic(rng: &mut Rng, malformed: bool) -> Vec<String> {
    let o = if rng.chance(1, 2) { 32 } else { 64 };
    let n = match rng.below(4) {
        0 => 0,
        1 => 255,
        _ => rng.usize(256),
    };
    let mut st = vec![0u8; SYMTAB];
    st[0] = n as u8;
    st[1] = rng.next_u64() as u8;
    st[2] = rng.next_u64() as u8;
    st[3] = 1;
    st[4..8].copy_from_slice(&[0x54, 0x53, 0x53, 0x46]);
    for i in 0..n {
        for k in 0..8 {
            st[8 + 8 * i + k] = rng.next_u64() as u8;
        }
        st[8 + 8 * n + i] = if rng.chance(1, 20) { 0 } else { 1 + rng.usize(8) as u8 };
    }
    // the rest of the buffer is not read by the decoder
    for b in st[8 + 9 * n..].iter_mut() {
        if rng.chance(1, 4) {
            *b = rng.next_u64() as u8;
        }
    }
    let nstr = rng.usize(8);
    let mut codes: Vec<u8> = vec![];
    let mut offs = vec![0u64];
    for _ in 0..nstr {
        let ntok = rng.usize(14);
        for _ in 0..ntok {
            if rng.chance(1, 4) {
                codes.push(255);
                codes.push(if rng.chance(1, 3) { 255 } else { rng.next_u64() as u8 });
            } else {
                // mostly valid codes, sometimes a code the table does not define
                let c = if n > 0 && !rng.chance(1, 10) { rng.usize(n.min(255)) } else { rng.usize(255) };
                codes.push(c as u8);
            }
        }
        offs.push(codes.len() as u64);
    }
    if malformed {
        match rng.below(7) {
            0 => st[4 + rng.usize(4)] &= !(1 << rng.usize(8)) | 0x00, // may break the magic (or clear an unset bit)
            1 => st.truncate(SYMTAB - 1 - rng.usize(100)),
            2 => st.push(0),
            3 => st.truncate(rng.usize(8)),
            4 => {
                // a string that ends inside an escape
                if let Some(last) = offs.last().copied() {
                    codes.push(255);
                    offs.push(last + 1);
                    if rng.chance(1, 2) {
                        codes.push(rng.next_u64() as u8);
                        codes.push(rng.next_u64() as u8);
                        offs.push(last + 3);
                    }
                }
            }
            5 => offs.clear(),
            _ => st[3] = rng.next_u64() as u8, // switch bit and unused bits
        }
    }
    vec![format!("dec {o} {} {} {}", hex(&st), hex(&codes), show_nat_list(offs.iter().copied()))]
}

impl Prop for C28 {
    fn id(&self) -> &'static str {
        "C28"
    }
    fn budget(&self, tier: Tier) -> usize {
        match tier {
            Tier::Quick => 2800,
            Tier::Thorough => 42000,
            Tier::Search => 8400,
        }
    }
    fn gen_case(&mut self, rng: &mut Rng, _tier: Tier, idx: usize) -> Vec<String> {
        // of every 14 cases: 10 bit-packing (enumerating (T, w) x block kind), 1 malformed bit-packing,
        // 1 FSST array through the real compressor, 1 synthetic decoder case, 1 malformed decoder case
        let slot = idx % 14;
        let round = idx / 14;
        match slot {
            0..=9 => gen_bitpack(rng, round * 10 + slot),
            10 => gen_bitpack_malformed(rng),
            11 => gen_fsst(rng, round),
            12 => gen_dec_synthetic(rng, false),
            _ => gen_dec_synthetic(rng, true),
        }
    }
    fn exec_case(&mut self, lines: &[String]) -> CaseResult {
        let mut res = CaseResult::default();
        // the last `fin` input of the case, for the oracle on `dec`
        let mut last_in: Option<(Vec<u8>, Vec<u64>)> = None;
        for (ln, line) in lines.iter().enumerate() {
            let t: Vec<&str> = line.split_whitespace().collect();
            let out = match t.as_slice() {
                ["pack", ts, ws, fill, outlen, xs] => (|| {
                    let (t, w, fill, outlen) =
                        (ts.parse::<usize>().ok()?, ws.parse::<usize>().ok()?, fill.parse::<u64>().ok()?, outlen.parse::<usize>().ok()?);
                    let xs = parse_nat_list(xs)?;
                    if ![8, 16, 32, 64].contains(&t) || fill > low_mask(t) || xs.iter().any(|&v| v > low_mask(t)) {
                        return None;
                    }
                    res.tags.push(format!("pack_u{t}"));
                    match pack_t(t, w, &xs, fill, outlen) {
                        None => {
                            res.tags.push("pack_panic".into());
                            Some("panic".to_string())
                        }
                        Some(p) => {
                            res.nontrivial = true;
                            res.tags.push(if w == 0 { "w0".into() } else if w == t { "w_eq_T".into() } else { "w_mid".to_string() });
                            // property oracle: unpack what was packed
                            match unpack_t(t, w, &p[..(1024 * w / t).min(p.len())], 0, 1024) {
                                None => res.failures.push(OracleFailure {
                                    what: format!("unchecked_unpack panicked on the output of unchecked_pack (T={t}, w={w})"),
                                    key: Some("bitpack_unpack_panic".into()),
                                    line: ln,
                                }),
                                Some(u) => {
                                    let m = low_mask(w);
                                    if let Some(i) = (0..1024).find(|&i| u[i] != xs[i] & m) {
                                        res.failures.push(OracleFailure {
                                            what: format!(
                                                "unpack(pack(xs)) differs from xs masked to {w} bits at element {i}: got {} expected {} (T={t})",
                                                u[i],
                                                xs[i] & m
                                            ),
                                            key: Some("bitpack_roundtrip".into()),
                                            line: ln,
                                        });
                                    }
                                    if xs.iter().any(|&v| v > m) {
                                        res.tags.push("unmasked_input".into());
                                    }
                                }
                            }
                            Some(format!("ok {}", show_nat_list(p.iter().copied())))
                        }
                    }
                })(),
                ["unpack", ts, ws, fill, outlen, wds] => (|| {
                    let (t, w, fill, outlen) =
                        (ts.parse::<usize>().ok()?, ws.parse::<usize>().ok()?, fill.parse::<u64>().ok()?, outlen.parse::<usize>().ok()?);
                    let wds = parse_nat_list(wds)?;
                    if ![8, 16, 32, 64].contains(&t) || fill > low_mask(t) || wds.iter().any(|&v| v > low_mask(t)) {
                        return None;
                    }
                    res.tags.push(format!("unpack_u{t}"));
                    match unpack_t(t, w, &wds, fill, outlen) {
                        None => {
                            res.tags.push("unpack_panic".into());
                            Some("panic".to_string())
                        }
                        Some(u) => {
                            res.nontrivial = true;
                            // property oracle (converse direction): unpacked values fit the width and pack back to the same words
                            if let Some(i) = u.iter().take(1024).position(|&v| v > low_mask(w)) {
                                res.failures.push(OracleFailure {
                                    what: format!("unpacked value {} at {i} does not fit {w} bits (T={t})", u[i]),
                                    key: Some("bitpack_unpack_range".into()),
                                    line: ln,
                                });
                            }
                            let plen = 1024 * w / t;
                            if let Some(p) = pack_t(t, w, &u[..1024.min(u.len())], 0, plen) {
                                if p[..] != wds[..plen.min(wds.len())] {
                                    res.failures.push(OracleFailure {
                                        what: format!("pack(unpack(ws)) differs from ws (T={t}, w={w})"),
                                        key: Some("bitpack_converse".into()),
                                        line: ln,
                                    });
                                }
                            }
                            Some(format!("ok {}", show_nat_list(u.iter().copied())))
                        }
                    }
                })(),
                [op @ ("fin" | "finmin"), o, buf, offs] => (|| {
                    let (cf, df) = if *op == "fin" { (2, 8) } else { (1, 3) };
                    let o = o.parse::<usize>().ok()?;
                    let buf = unhex(buf)?;
                    let offs = parse_nat_list(offs)?;
                    if (o != 32 && o != 64) || offs.is_empty() || !offsets_valid(buf.len(), &offs) {
                        return None;
                    }
                    res.nontrivial = true;
                    let copy = buf.len() < LEAST;
                    res.tags.push(format!("{op}_{}_{o}", if copy { "copy" } else { "fsst" }));
                    if offs.windows(2).all(|p| p[0] == p[1]) {
                        res.tags.push("no_bytes_referenced".into());
                    }
                    let line_out = match compress_any(o, &buf, &offs, cf) {
                        Comp::Panic => {
                            res.failures.push(OracleFailure {
                                what: format!("fsst::compress panicked ({} bytes, {} strings)", buf.len(), offs.len() - 1),
                                key: Some("fsst_compress_panic".into()),
                                line: ln,
                            });
                            "panic".to_string()
                        }
                        Comp::Err(e) => {
                            // allowed by the property ("reports an error")
                            res.tags.push("compress_err".into());
                            let _ = e;
                            if copy { "copy-err".to_string() } else { "fsst".to_string() }
                        }
                        Comp::Ok { st, out, offs: co } => {
                            // invariant oracle on the table the real encoder built
                            if !copy {
                                if buf.contains(&st[1]) {
                                    res.tags.push("terminator_in_data".into());
                                }
                                if let Some(i) = table_invariant_violation(&st) {
                                    res.failures.push(OracleFailure {
                                        what: format!(
                                            "symbol {i} of the table built by fsst::compress has >= 2 bytes and contains the terminator byte {} \
                                             (the sentinel behind a string can be matched as part of a symbol)",
                                            st[1]
                                        ),
                                        key: Some("fsst_symbol_contains_terminator".into()),
                                        line: ln,
                                    });
                                }
                            }
                            // property oracle: decompress gives back every string
                            let co_used = &co[..offs.len().min(co.len())];
                            match decompress_any(o, &st, &out, co_used, df) {
                                Dec::Err(k) => res.failures.push(OracleFailure {
                                    what: format!("fsst::decompress of fsst::compress output failed: {k}"),
                                    key: Some("fsst_decompress_fail".into()),
                                    line: ln,
                                }),
                                Dec::Ok { out: d, offs: doffs } => {
                                    let a = strings_of(&buf, &offs);
                                    let b = strings_of(&d, &doffs);
                                    if a.is_none() || a != b {
                                        res.failures.push(OracleFailure {
                                            what: format!(
                                                "decompress(compress(a)) != a ({} bytes, {} strings, {} compressed bytes)",
                                                buf.len(),
                                                offs.len() - 1,
                                                out.len()
                                            ),
                                            key: Some("fsst_roundtrip".into()),
                                            line: ln,
                                        });
                                    }
                                }
                            }
                            if copy {
                                format!("copy st={} out={} offs={}", fnv(&st), fnv(&out), show_nat_list(co_used.iter().copied()))
                            } else {
                                if out.len() > buf.len() {
                                    res.tags.push("fsst_expanded".into());
                                }
                                res.tags.push(format!("ratio_{}", (10 * out.len() / buf.len().max(1)).min(20)));
                                "fsst".to_string()
                            }
                        }
                    };
                    last_in = Some((buf, offs));
                    Some(line_out)
                })(),
                ["dec", o, st, codes, offs] => (|| {
                    let o = o.parse::<usize>().ok()?;
                    let st = unhex(st)?;
                    let codes = unhex(codes)?;
                    let offs = parse_nat_list(offs)?;
                    if o != 32 && o != 64 {
                        return None;
                    }
                    if !offsets_valid(codes.len(), &offs) {
                        // reading outside the buffer is undefined behaviour in decompress_bulk; not executed
                        return Some("err:unsupported".to_string());
                    }
                    res.nontrivial = true;
                    Some(match decompress_any(o, &st, &codes, &offs, 8) {
                        Dec::Err(k) => {
                            res.tags.push(format!("dec_{k}"));
                            if last_in.is_some() {
                                res.failures.push(OracleFailure {
                                    what: format!("fsst::decompress of the real compressor's output failed: {k}"),
                                    key: Some("fsst_decompress_fail".into()),
                                    line: ln,
                                });
                            }
                            k.to_string()
                        }
                        Dec::Ok { out, offs: doffs } => {
                            res.tags.push(if last_in.is_some() { "dec_real".into() } else { "dec_synth".to_string() });
                            if let Some((ib, io)) = &last_in {
                                if strings_of(ib, io) != strings_of(&out, &doffs) {
                                    res.failures.push(OracleFailure {
                                        what: "decompress of the compressed form in the op line differs from the input".into(),
                                        key: Some("fsst_roundtrip".into()),
                                        line: ln,
                                    });
                                }
                            }
                            let inv = table_invariant_violation(&st).is_none();
                            if last_in.is_some() && st[3] & 1 == 1 && !inv {
                                res.failures.push(OracleFailure {
                                    what: format!(
                                        "the symbol table in the op line (built by fsst::compress) has a multi-byte symbol containing the terminator byte {}",
                                        st[1]
                                    ),
                                    key: Some("fsst_symbol_contains_terminator".into()),
                                    line: ln,
                                });
                            }
                            format!("ok {} {} term={} termfree={}", hex(&out), show_nat_list(doffs.iter().copied()), st[1], inv)
                        }
                    })
                })(),
                _ => None,
            };
            res.outputs.push(out.unwrap_or_else(|| "bad-op".to_string()));
        }
        res
    }
    fn rule(&self) -> String {
        "of every 14 cases 10 are bit-packing blocks enumerating all 124 (lane type, width) pairs x 8 block kinds (zero, all-max, \
         alternating, random masked, random unmasked, ramp, single bit, sparse): pack on the real kernel, unpack of its output, \
         unpack of arbitrary words; 1 malformed bit-packing call (width > T, short slices); 1 byte-string array (11 kinds: small/copy \
         mode, vocabulary text, all 256 byte values, long repeats, incompressible, at the 32 KiB threshold, mostly-empty with 0xFF \
         bytes, one long string, no referenced byte, all 256 byte values with the rarest byte in a fixed context and strings ending \
         inside that context (twice per cycle), compressible strings of 2-4 chunks of 511 bytes with a shorter last chunk; i32 / i64 offsets; some sliced; a third with the minimum output buffers) through the real fsst::compress, whose output is decoded by both \
         sides; 1 synthetic symbol table + random clean code streams; 1 malformed decoder input (bad magic, wrong table size, \
         string ending inside an escape, no offsets). Non-trivial = a kernel ran to completion on the case."
            .into()
    }
}

fn main() {
    run_main(C28)
}
