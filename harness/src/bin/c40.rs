//! C40: Arrow helper transformations preserve logical values.
//!
//! Interpreter of the C40 line protocol against the real lance-arrow code
//! (`RecordBatchExt::{merge, merge_with_schema, project_by_schema, take}`, `deepcopy::*`,
//! `ListArrayExt::{filter_garbage_nulls, trimmed_values}`, `StructArrayExt::pushdown_nulls`), a generator of
//! physically adversarial arrays (value/offset/validity buffers with independent offsets, garbage behind nulls,
//! list offsets that neither start at 0 nor end at the end of the values) and the property oracle: the logical
//! value (`logical`, a 25-line recursive function) of every result equals the value-level specification of the
//! helper applied to the logical values of its inputs.
//!
//! Array literal (prefix tokens):
//!   P i|b <off> <len> <nulls> <vals>            Int32 / Boolean leaf over a value buffer
//!   L l|g <off> <len> <nulls> <offsets> <child> List / LargeList over an offsets buffer
//!   S <len> <nulls> <k> (<name> <child>)*k      Struct (arrow-rs form: children have exactly `len` rows)
//!   <nulls> = `-` | `<bitoff>:<bits>`            validity buffer + its own bit offset
//! Type literal: i | b | l <ty> | g <ty> | s <k> (<name> <ty>)*k ; a field list is `<k> (<name> <ty>)*k`.

use std::panic::{catch_unwind, AssertUnwindSafe};
use std::sync::Arc;

use arrow::array::{
    make_array, Array, ArrayData, ArrayRef, AsArray, BooleanArray, Int32Array, RecordBatch, StructArray, UInt32Array,
};
use arrow::buffer::{BooleanBuffer, Buffer, NullBuffer};
use arrow::datatypes::{DataType, Field, Fields, Schema};
use hcommon::*;
use lance_arrow::deepcopy::{deep_copy_array, deep_copy_array_sliced};
use lance_arrow::list::ListArrayExt;
use lance_arrow::r#struct::StructArrayExt;
use lance_arrow::RecordBatchExt;

// ---------------------------------------------------------------------------------------------
// logical values (the abstraction function) and their canonical text form
// ---------------------------------------------------------------------------------------------

#[derive(Clone, Debug, PartialEq)]
enum Val {
    Null,
    Int(i64),
    List(Vec<Val>),
    Struct(Vec<(String, Val)>),
}

/// the abstraction function: NULL-aware logical value of every row of an arrow array
fn logical(a: &dyn Array) -> Vec<Val> {
    let row = |i: usize, v: Val| if a.is_null(i) { Val::Null } else { v };
    match a.data_type() {
        DataType::Int32 => {
            let p = a.as_any().downcast_ref::<Int32Array>().unwrap();
            (0..a.len()).map(|i| row(i, Val::Int(p.value(i) as i64))).collect()
        }
        DataType::Boolean => {
            let p = a.as_any().downcast_ref::<BooleanArray>().unwrap();
            (0..a.len()).map(|i| row(i, Val::Int(p.value(i) as i64))).collect()
        }
        DataType::List(_) => {
            let l = a.as_list::<i32>();
            (0..a.len()).map(|i| row(i, Val::List(logical(l.value(i).as_ref())))).collect()
        }
        DataType::LargeList(_) => {
            let l = a.as_list::<i64>();
            (0..a.len()).map(|i| row(i, Val::List(logical(l.value(i).as_ref())))).collect()
        }
        DataType::Struct(fs) => {
            let s = a.as_struct();
            let cols: Vec<Vec<Val>> = s.columns().iter().map(|c| logical(c.as_ref())).collect();
            (0..a.len())
                .map(|i| row(i, Val::Struct(fs.iter().zip(&cols).map(|(f, c)| (f.name().clone(), c[i].clone())).collect())))
                .collect()
        }
        other => panic!("harness: unsupported type {other}"),
    }
}

fn show_val(v: &Val, o: &mut String) {
    match v {
        Val::Null => o.push('n'),
        Val::Int(i) => o.push_str(&i.to_string()),
        Val::List(vs) => show_vals(vs, o),
        Val::Struct(fs) => {
            o.push('{');
            for (i, (n, v)) in fs.iter().enumerate() {
                if i > 0 {
                    o.push(',');
                }
                o.push_str(n);
                o.push(':');
                show_val(v, o);
            }
            o.push('}');
        }
    }
}

fn show_vals(vs: &[Val], o: &mut String) {
    o.push('[');
    for (i, v) in vs.iter().enumerate() {
        if i > 0 {
            o.push(',');
        }
        show_val(v, o);
    }
    o.push(']');
}

fn show_logical(vs: &[Val]) -> String {
    let mut o = String::new();
    show_vals(vs, &mut o);
    o
}

// ---------------------------------------------------------------------------------------------
// types
// ---------------------------------------------------------------------------------------------

#[derive(Clone, Debug, PartialEq)]
enum Ty {
    I,
    B,
    L(bool, Box<Ty>),
    S(Vec<(String, Ty)>),
}

impl Ty {
    fn to_dt(&self) -> DataType {
        match self {
            Ty::I => DataType::Int32,
            Ty::B => DataType::Boolean,
            Ty::L(false, t) => DataType::List(Arc::new(Field::new("item", t.to_dt(), true))),
            Ty::L(true, t) => DataType::LargeList(Arc::new(Field::new("item", t.to_dt(), true))),
            Ty::S(fs) => DataType::Struct(fields_of(fs)),
        }
    }
    fn from_dt(dt: &DataType) -> Ty {
        match dt {
            DataType::Int32 => Ty::I,
            DataType::Boolean => Ty::B,
            DataType::List(f) => Ty::L(false, Box::new(Ty::from_dt(f.data_type()))),
            DataType::LargeList(f) => Ty::L(true, Box::new(Ty::from_dt(f.data_type()))),
            DataType::Struct(fs) => Ty::S(fs.iter().map(|f| (f.name().clone(), Ty::from_dt(f.data_type()))).collect()),
            other => panic!("harness: unsupported type {other}"),
        }
    }
    fn show(&self, o: &mut String) {
        match self {
            Ty::I => o.push('i'),
            Ty::B => o.push('b'),
            Ty::L(lg, t) => {
                o.push(if *lg { 'g' } else { 'l' });
                o.push('<');
                t.show(o);
                o.push('>');
            }
            Ty::S(fs) => {
                o.push_str("s{");
                for (i, (n, t)) in fs.iter().enumerate() {
                    if i > 0 {
                        o.push(',');
                    }
                    o.push_str(n);
                    o.push(':');
                    t.show(o);
                }
                o.push('}');
            }
        }
    }
    fn tokens(&self, o: &mut Vec<String>) {
        match self {
            Ty::I => o.push("i".into()),
            Ty::B => o.push("b".into()),
            Ty::L(lg, t) => {
                o.push(if *lg { "g" } else { "l" }.into());
                t.tokens(o);
            }
            Ty::S(fs) => {
                o.push("s".into());
                field_tokens(fs, o);
            }
        }
    }
    fn is_struct(&self) -> bool {
        matches!(self, Ty::S(_))
    }
}

fn field_tokens(fs: &[(String, Ty)], o: &mut Vec<String>) {
    o.push(fs.len().to_string());
    for (n, t) in fs {
        o.push(n.clone());
        t.tokens(o);
    }
}

fn fields_of(fs: &[(String, Ty)]) -> Fields {
    Fields::from(fs.iter().map(|(n, t)| Field::new(n, t.to_dt(), true)).collect::<Vec<_>>())
}

fn valid_name(s: &str) -> bool {
    !s.is_empty()
        && s.len() <= 8
        && s.chars().next().unwrap().is_ascii_lowercase()
        && s.chars().all(|c| c.is_ascii_lowercase() || c.is_ascii_digit())
}

fn parse_ty(t: &[&str], pos: &mut usize, depth: usize) -> Option<Ty> {
    if depth > 12 {
        return None;
    }
    let k = *t.get(*pos)?;
    *pos += 1;
    match k {
        "i" => Some(Ty::I),
        "b" => Some(Ty::B),
        "l" => Some(Ty::L(false, Box::new(parse_ty(t, pos, depth + 1)?))),
        "g" => Some(Ty::L(true, Box::new(parse_ty(t, pos, depth + 1)?))),
        "s" => Some(Ty::S(parse_fields(t, pos, depth + 1)?)),
        _ => None,
    }
}

fn parse_fields(t: &[&str], pos: &mut usize, depth: usize) -> Option<Vec<(String, Ty)>> {
    let k: usize = t.get(*pos)?.parse().ok()?;
    *pos += 1;
    if k > 64 {
        return None;
    }
    let mut fs = vec![];
    for _ in 0..k {
        let n = *t.get(*pos)?;
        if !valid_name(n) {
            return None;
        }
        *pos += 1;
        fs.push((n.to_string(), parse_ty(t, pos, depth)?));
    }
    Some(fs)
}

fn show_ty(t: &Ty) -> String {
    let mut o = String::new();
    t.show(&mut o);
    o
}

// ---------------------------------------------------------------------------------------------
// physical array literals
// ---------------------------------------------------------------------------------------------

type Nulls = Option<(usize, Vec<bool>)>;

#[derive(Clone, Debug)]
enum Phys {
    P { b: bool, off: usize, len: usize, nulls: Nulls, vals: Vec<i64> },
    L { large: bool, off: usize, len: usize, nulls: Nulls, offs: Vec<u64>, child: Box<Phys> },
    S { len: usize, nulls: Nulls, fields: Vec<(String, Phys)> },
}

fn nulls_tok(n: &Nulls) -> String {
    match n {
        None => "-".into(),
        Some((k, bits)) => format!("{k}:{}", bits.iter().map(|b| if *b { '1' } else { '0' }).collect::<String>()),
    }
}

fn int_list_tok(xs: &[i64]) -> String {
    if xs.is_empty() {
        "-".into()
    } else {
        xs.iter().map(|x| x.to_string()).collect::<Vec<_>>().join(",")
    }
}

impl Phys {
    fn len(&self) -> usize {
        match self {
            Phys::P { len, .. } | Phys::L { len, .. } | Phys::S { len, .. } => *len,
        }
    }
    fn tokens(&self, o: &mut Vec<String>) {
        match self {
            Phys::P { b, off, len, nulls, vals } => {
                o.push("P".into());
                o.push(if *b { "b" } else { "i" }.into());
                o.push(off.to_string());
                o.push(len.to_string());
                o.push(nulls_tok(nulls));
                o.push(int_list_tok(vals));
            }
            Phys::L { large, off, len, nulls, offs, child } => {
                o.push("L".into());
                o.push(if *large { "g" } else { "l" }.into());
                o.push(off.to_string());
                o.push(len.to_string());
                o.push(nulls_tok(nulls));
                o.push(show_nat_list(offs.iter().copied()));
                child.tokens(o);
            }
            Phys::S { len, nulls, fields } => {
                o.push("S".into());
                o.push(len.to_string());
                o.push(nulls_tok(nulls));
                o.push(fields.len().to_string());
                for (n, c) in fields {
                    o.push(n.clone());
                    c.tokens(o);
                }
            }
        }
    }
    fn text(&self) -> String {
        let mut o = vec![];
        self.tokens(&mut o);
        o.join(" ")
    }
    fn ty(&self) -> Ty {
        match self {
            Phys::P { b, .. } => {
                if *b {
                    Ty::B
                } else {
                    Ty::I
                }
            }
            Phys::L { large, child, .. } => Ty::L(*large, Box::new(child.ty())),
            Phys::S { fields, .. } => Ty::S(fields.iter().map(|(n, c)| (n.clone(), c.ty())).collect()),
        }
    }
    /// well-formedness; mirrors `wf` of the Lean model exactly
    fn wf(&self) -> bool {
        let nulls_ok = |n: &Nulls, len: usize| match n {
            None => true,
            Some((k, bits)) => k + len <= bits.len(),
        };
        match self {
            Phys::P { b, off, len, nulls, vals } => {
                off + len <= vals.len()
                    && nulls_ok(nulls, *len)
                    && vals.iter().all(|v| if *b { *v == 0 || *v == 1 } else { v.abs() <= 1_000_000 })
            }
            Phys::L { off, len, nulls, offs, child, .. } => {
                off + len + 1 <= offs.len()
                    && nulls_ok(nulls, *len)
                    && (0..*len).all(|i| offs[off + i] <= offs[off + i + 1])
                    && offs[off + len] as usize <= child.len()
                    && offs.iter().all(|o| *o <= 1_000_000)
                    && child.wf()
            }
            Phys::S { len, nulls, fields } => nulls_ok(nulls, *len) && fields.iter().all(|(_, c)| c.len() == *len && c.wf()),
        }
    }
}

fn parse_nulls(s: &str) -> Option<Nulls> {
    if s == "-" {
        return Some(None);
    }
    let (k, bits) = s.split_once(':')?;
    let k: usize = k.parse().ok()?;
    let mut v = vec![];
    for c in bits.chars() {
        match c {
            '0' => v.push(false),
            '1' => v.push(true),
            _ => return None,
        }
    }
    Some(Some((k, v)))
}

fn parse_int_list(s: &str) -> Option<Vec<i64>> {
    if s == "-" {
        return Some(vec![]);
    }
    s.split(',').map(|x| x.parse::<i64>().ok()).collect()
}

fn parse_phys(t: &[&str], pos: &mut usize, depth: usize) -> Option<Phys> {
    if depth > 12 {
        return None;
    }
    let k = *t.get(*pos)?;
    *pos += 1;
    match k {
        "P" => {
            let b = match *t.get(*pos)? {
                "i" => false,
                "b" => true,
                _ => return None,
            };
            let off = t.get(*pos + 1)?.parse().ok()?;
            let len = t.get(*pos + 2)?.parse().ok()?;
            let nulls = parse_nulls(t.get(*pos + 3)?)?;
            let vals = parse_int_list(t.get(*pos + 4)?)?;
            *pos += 5;
            Some(Phys::P { b, off, len, nulls, vals })
        }
        "L" => {
            let large = match *t.get(*pos)? {
                "l" => false,
                "g" => true,
                _ => return None,
            };
            let off = t.get(*pos + 1)?.parse().ok()?;
            let len = t.get(*pos + 2)?.parse().ok()?;
            let nulls = parse_nulls(t.get(*pos + 3)?)?;
            let offs = parse_nat_list(t.get(*pos + 4)?)?;
            *pos += 5;
            let child = parse_phys(t, pos, depth + 1)?;
            Some(Phys::L { large, off, len, nulls, offs, child: Box::new(child) })
        }
        "S" => {
            let len = t.get(*pos)?.parse().ok()?;
            let nulls = parse_nulls(t.get(*pos + 1)?)?;
            let k: usize = t.get(*pos + 2)?.parse().ok()?;
            *pos += 3;
            if k > 64 {
                return None;
            }
            let mut fields = vec![];
            for _ in 0..k {
                let n = *t.get(*pos)?;
                if !valid_name(n) {
                    return None;
                }
                *pos += 1;
                fields.push((n.to_string(), parse_phys(t, pos, depth + 1)?));
            }
            Some(Phys::S { len, nulls, fields })
        }
        _ => None,
    }
}

fn bits_buffer(bits: &[bool]) -> Buffer {
    let mut bytes = vec![0u8; bits.len().div_ceil(8).max(1)];
    for (i, b) in bits.iter().enumerate() {
        if *b {
            bytes[i / 8] |= 1 << (i % 8);
        }
    }
    Buffer::from_vec(bytes)
}

/// `pad`: `ArrayData::validate` wants the validity bytes to cover `array offset + len` bits although a NullBuffer has its
/// own offset; trailing zero bytes are never read
fn mk_nulls(n: &Nulls, len: usize, pad: usize) -> Option<NullBuffer> {
    n.as_ref().map(|(k, bits)| {
        let mut padded = bits.clone();
        padded.resize(bits.len().max(pad + len) + 8, false);
        NullBuffer::new(BooleanBuffer::new(bits_buffer(&padded), *k, len))
    })
}

/// build the arrow array of a (well-formed) literal with `ArrayData` builders, offsets and garbage included
fn build(p: &Phys) -> Result<ArrayRef, String> {
    let e = |x: arrow::error::ArrowError| x.to_string();
    match p {
        Phys::P { b, off, len, nulls, vals } => {
            let (dt, buf) = if *b {
                (DataType::Boolean, bits_buffer(&vals.iter().map(|v| *v != 0).collect::<Vec<_>>()))
            } else {
                (DataType::Int32, Buffer::from_vec(vals.iter().map(|v| *v as i32).collect::<Vec<i32>>()))
            };
            let d = ArrayData::builder(dt).len(*len).offset(*off).add_buffer(buf).nulls(mk_nulls(nulls, *len, *off)).build().map_err(e)?;
            d.validate_full().map_err(e)?;
            Ok(make_array(d))
        }
        Phys::L { large, off, len, nulls, offs, child } => {
            let c = build(child)?;
            let item = Arc::new(Field::new("item", c.data_type().clone(), true));
            let (dt, buf) = if *large {
                (DataType::LargeList(item), Buffer::from_vec(offs.iter().map(|o| *o as i64).collect::<Vec<i64>>()))
            } else {
                (DataType::List(item), Buffer::from_vec(offs.iter().map(|o| *o as i32).collect::<Vec<i32>>()))
            };
            let d = ArrayData::builder(dt)
                .len(*len)
                .offset(*off)
                .add_buffer(buf)
                .add_child_data(c.to_data())
                .nulls(mk_nulls(nulls, *len, *off))
                .build()
                .map_err(e)?;
            d.validate_full().map_err(e)?;
            Ok(make_array(d))
        }
        Phys::S { len, nulls, fields } => {
            let mut cols = vec![];
            let mut fs = vec![];
            for (n, c) in fields {
                let a = build(c)?;
                fs.push(Field::new(n, a.data_type().clone(), true));
                cols.push(a);
            }
            if fields.is_empty() {
                return Ok(Arc::new(StructArray::new_empty_fields(*len, mk_nulls(nulls, *len, 0))));
            }
            Ok(Arc::new(StructArray::try_new(Fields::from(fs), cols, mk_nulls(nulls, *len, 0)).map_err(e)?))
        }
    }
}

// ---------------------------------------------------------------------------------------------
// value-level specifications (the property oracle; independent of the Lean model)
// ---------------------------------------------------------------------------------------------

fn field_of(v: &Val, name: &str) -> Val {
    match v {
        Val::Struct(fs) => fs.iter().find(|(n, _)| n == name).map(|(_, v)| v.clone()).unwrap_or(Val::Null),
        _ => Val::Null,
    }
}

fn find_ty<'a>(fs: &'a [(String, Ty)], name: &str) -> Option<&'a Ty> {
    fs.iter().find(|(n, _)| n == name).map(|(_, t)| t)
}

/// project_by_schema, one row
fn spec_project(fields: &[(String, Ty)], v: &Val) -> Val {
    match v {
        Val::Struct(_) => Val::Struct(
            fields
                .iter()
                .map(|(n, t)| {
                    let c = field_of(v, n);
                    (n.clone(), if let Ty::S(sub) = t { spec_project(sub, &c) } else { c })
                })
                .collect(),
        ),
        _ => Val::Null,
    }
}

/// merge, one row of two struct columns of types `lt` / `rt`; None = outside the specified region
/// (two list-of-struct columns of different shape)
fn spec_merge(lt: &[(String, Ty)], rt: &[(String, Ty)], lv: &Val, rv: &Val) -> Option<Val> {
    if *lv == Val::Null && *rv == Val::Null {
        return Some(Val::Null);
    }
    let mut out = vec![];
    for (n, t) in lt {
        let l = field_of(lv, n);
        let v = match (t, find_ty(rt, n)) {
            (Ty::S(ls), Some(Ty::S(rs))) => spec_merge(ls, rs, &l, &field_of(rv, n))?,
            (Ty::L(false, li), Some(Ty::L(false, ri))) if li.is_struct() && ri.is_struct() => {
                if li == ri {
                    l
                } else {
                    let (Ty::S(ls), Ty::S(rs)) = (li.as_ref(), ri.as_ref()) else { unreachable!() };
                    spec_merge_list(ls, rs, &l, &field_of(rv, n))?
                }
            }
            _ => l,
        };
        out.push((n.clone(), v));
    }
    for (n, _) in rt {
        if find_ty(lt, n).is_none() {
            out.push((n.clone(), field_of(rv, n)));
        }
    }
    Some(Val::Struct(out))
}

/// two list<struct> cells that describe the same list (same nullness, same length): element-wise merge
fn spec_merge_list(ls: &[(String, Ty)], rs: &[(String, Ty)], l: &Val, r: &Val) -> Option<Val> {
    match (l, r) {
        (Val::Null, Val::Null) => Some(Val::Null),
        (Val::List(a), Val::List(b)) if a.len() == b.len() => {
            Some(Val::List(a.iter().zip(b).map(|(x, y)| spec_merge(ls, rs, x, y)).collect::<Option<Vec<_>>>()?))
        }
        _ => None,
    }
}

fn same_kind(a: &Ty, b: &Ty) -> bool {
    a.is_struct() == b.is_struct()
}

/// merge_with_schema, one row
fn spec_mws(fields: &[(String, Ty)], lt: &[(String, Ty)], rt: &[(String, Ty)], lv: &Val, rv: &Val) -> Option<Val> {
    if *lv == Val::Null && *rv == Val::Null {
        return Some(Val::Null);
    }
    let mut out = vec![];
    for (n, ft) in fields {
        let lm = lt.iter().find(|(m, t)| m == n && same_kind(t, ft));
        let rm = rt.iter().find(|(m, t)| m == n && same_kind(t, ft));
        let v = match (lm, rm) {
            (None, None) => continue,
            (None, Some(_)) => field_of(rv, n),
            (Some(_), None) => field_of(lv, n),
            (Some((_, l_ty)), Some((_, r_ty))) => spec_mws_cell(ft, l_ty, r_ty, &field_of(lv, n), &field_of(rv, n))?,
        };
        out.push((n.clone(), v));
    }
    Some(Val::Struct(out))
}

fn spec_mws_cell(ft: &Ty, lt: &Ty, rt: &Ty, l: &Val, r: &Val) -> Option<Val> {
    match (ft, lt, rt) {
        (Ty::S(fs), Ty::S(ls), Ty::S(rs)) => spec_mws(fs, ls, rs, l, r),
        (Ty::L(fl, fi), Ty::L(ll, li), Ty::L(rl, ri)) if fl == ll && fl == rl => match (l, r) {
            (Val::Null, Val::Null) => Some(Val::Null),
            (Val::List(a), Val::List(b)) if a.len() == b.len() => {
                Some(Val::List(a.iter().zip(b).map(|(x, y)| spec_mws_cell(fi, li, ri, x, y)).collect::<Option<Vec<_>>>()?))
            }
            _ => None,
        },
        (Ty::L(..), _, _) => None,
        _ => Some(l.clone()),
    }
}

// ---------------------------------------------------------------------------------------------
// interpreter
// ---------------------------------------------------------------------------------------------

struct C40 {
    regs: Vec<(String, ArrayRef)>,
}

fn show_arr(a: &dyn Array) -> String {
    format!("ok {} {}", show_ty(&Ty::from_dt(a.data_type())), show_logical(&logical(a)))
}

fn as_batch(a: &ArrayRef) -> Option<RecordBatch> {
    let s = a.as_any().downcast_ref::<StructArray>()?;
    if s.null_count() > 0 {
        return None;
    }
    Some(RecordBatch::from(s.clone()))
}

fn batch_arr(b: RecordBatch) -> ArrayRef {
    Arc::new(StructArray::from(b))
}

fn arrow_err(e: &arrow::error::ArrowError) -> &'static str {
    use arrow::error::ArrowError::*;
    match e {
        SchemaError(_) => "err:schema",
        InvalidArgumentError(_) => "err:invalid",
        _ => "err:other",
    }
}

impl C40 {
    fn get(&self, r: &str) -> Option<ArrayRef> {
        self.regs.iter().find(|(n, _)| n == r).map(|(_, a)| a.clone())
    }
    fn put(&mut self, r: &str, a: ArrayRef) {
        self.regs.retain(|(n, _)| n != r);
        self.regs.push((r.to_string(), a));
    }

    /// one op; Err(output) for lines that produce no register
    fn step(&mut self, line: &str, li: usize, res: &mut CaseResult) -> String {
        let t: Vec<&str> = line.split(' ').filter(|s| !s.is_empty()).collect();
        let mut fail = |what: String, key: &str| {
            res.failures.push(OracleFailure { what, key: Some(key.to_string()), line: li });
        };
        let bad = "bad-op".to_string();
        match t.as_slice() {
            ["arr", r, rest @ ..] => {
                let mut pos = 0;
                let Some(p) = parse_phys(rest, &mut pos, 0) else { return bad };
                if pos != rest.len() {
                    return bad;
                }
                if !p.wf() {
                    res.tags.push("arr:invalid".into());
                    return "invalid".into();
                }
                match build(&p) {
                    Ok(a) => {
                        let o = show_arr(a.as_ref());
                        self.put(r, a);
                        o
                    }
                    Err(e) => format!("invalid-arrow {e}"),
                }
            }
            ["slice", d, s, o, l] => {
                let (Some(a), Ok(o), Ok(l)) = (self.get(s), o.parse::<usize>(), l.parse::<usize>()) else { return bad };
                if o + l > a.len() {
                    return "err:oob".into();
                }
                let b = a.slice(o, l);
                if logical(b.as_ref())[..] != logical(a.as_ref())[o..o + l] {
                    fail(format!("slice({o},{l}) changed logical values"), "slice_values");
                }
                let out = show_arr(b.as_ref());
                self.put(d, b);
                out
            }
            ["trim", d, s] => {
                let Some(a) = self.get(s) else { return bad };
                let (b, raw): (ArrayRef, Vec<Val>) = match a.data_type() {
                    DataType::List(_) => {
                        let l = a.as_list::<i32>();
                        (l.trimmed_values(), (0..l.len()).flat_map(|i| logical(l.value(i).as_ref())).collect())
                    }
                    DataType::LargeList(_) => {
                        let l = a.as_list::<i64>();
                        (l.trimmed_values(), (0..l.len()).flat_map(|i| logical(l.value(i).as_ref())).collect())
                    }
                    _ => return "bad-type".into(),
                };
                if logical(b.as_ref()) != raw {
                    fail("trimmed_values is not the concatenation of the list entries".into(), "trimmed_values");
                }
                let out = show_arr(b.as_ref());
                self.put(d, b);
                out
            }
            ["fgn", d, s] => {
                let Some(a) = self.get(s) else { return bad };
                fn run<O: arrow::array::OffsetSizeTrait>(a: &ArrayRef) -> (ArrayRef, Vec<u64>, usize, bool) {
                    let l = a.as_list::<O>();
                    let f = l.filter_garbage_nulls();
                    let offs: Vec<u64> = f.offsets().iter().map(|o| o.as_usize() as u64).collect();
                    let clean = (0..f.len()).all(|i| f.is_valid(i) || f.value_length(i).as_usize() == 0);
                    let vlen = f.values().len();
                    (Arc::new(f), offs, vlen, clean)
                }
                let (b, offs, vlen, clean) = match a.data_type() {
                    DataType::List(_) => run::<i32>(&a),
                    DataType::LargeList(_) => run::<i64>(&a),
                    _ => return "bad-type".into(),
                };
                if logical(b.as_ref()) != logical(a.as_ref()) {
                    fail("filter_garbage_nulls changed logical values".into(), "fgn_values");
                }
                if a.null_count() > 0 && !(clean && offs[0] == 0 && *offs.last().unwrap() as usize == vlen) {
                    fail("filter_garbage_nulls left garbage behind a null / unreferenced values".into(), "fgn_garbage");
                }
                let out = format!("{} offs={} vlen={}", show_arr(b.as_ref()), show_nat_list(offs), vlen);
                self.put(d, b);
                out
            }
            ["dcopy", d, s] | ["dcopys", d, s] => {
                let Some(a) = self.get(s) else { return bad };
                let sliced = t[0] == "dcopys";
                let b = if sliced { deep_copy_array_sliced(a.as_ref()) } else { deep_copy_array(a.as_ref()) };
                if b.data_type() != a.data_type() || logical(b.as_ref()) != logical(a.as_ref()) {
                    fail(format!("{} changed logical values", t[0]), if sliced { "deep_copy_sliced_values" } else { "deep_copy_values" });
                }
                let out = show_arr(b.as_ref());
                self.put(d, b);
                out
            }
            ["pushdown", d, s] => {
                let Some(a) = self.get(s) else { return bad };
                let Some(st) = a.as_any().downcast_ref::<StructArray>() else { return "bad-type".into() };
                match st.pushdown_nulls() {
                    Ok(b) => {
                        if logical(&b) != logical(a.as_ref()) {
                            fail("pushdown_nulls changed logical values".into(), "pushdown_values");
                        }
                        let covered = b.columns().iter().all(|c| (0..b.len()).all(|i| b.is_valid(i) || c.is_null(i)));
                        if !covered {
                            fail("pushdown_nulls left a valid child under a null struct".into(), "pushdown_cover");
                        }
                        let nulls: Vec<String> = b.columns().iter().map(|c| c.null_count().to_string()).collect();
                        let out = format!("{} childnulls={}", show_arr(&b), if nulls.is_empty() { "-".into() } else { nulls.join(",") });
                        self.put(d, Arc::new(b));
                        out
                    }
                    Err(e) => {
                        fail(format!("pushdown_nulls failed on a well-formed struct array: {e}"), "pushdown_error");
                        arrow_err(&e).into()
                    }
                }
            }
            ["take", d, s, idx] => {
                let (Some(a), Some(idx)) = (self.get(s), parse_nat_list(idx)) else { return bad };
                let Some(batch) = as_batch(&a) else { return "bad-type".into() };
                if idx.iter().any(|i| *i as usize >= a.len()) {
                    return "err:oob".into();
                }
                let ix = UInt32Array::from(idx.iter().map(|i| *i as u32).collect::<Vec<_>>());
                match batch.take(&ix) {
                    Ok(b) => {
                        let b = batch_arr(b);
                        let src = logical(a.as_ref());
                        let want: Vec<Val> = idx.iter().map(|i| src[*i as usize].clone()).collect();
                        if logical(b.as_ref()) != want || b.data_type() != a.data_type() {
                            fail("take returned other rows than requested".into(), "take_values");
                        }
                        let out = show_arr(b.as_ref());
                        self.put(d, b);
                        out
                    }
                    Err(e) => arrow_err(&e).into(),
                }
            }
            ["proj", d, s, rest @ ..] => {
                let Some(a) = self.get(s) else { return bad };
                let mut pos = 0;
                let Some(fs) = parse_fields(rest, &mut pos, 0) else { return bad };
                if pos != rest.len() {
                    return bad;
                }
                let Some(batch) = as_batch(&a) else { return "bad-type".into() };
                let schema = Schema::new(fields_of(&fs));
                // a panic is only a failure when the request is a sub-schema of the batch (`as_struct()` on a column the
                // request calls a struct is a violated precondition)
                let valid_request = sub_schema(&fs, &Ty::from_dt(a.data_type()));
                let r = match catch_unwind(AssertUnwindSafe(|| batch.project_by_schema(&schema))) {
                    Ok(r) => r,
                    Err(_) => {
                        if valid_request {
                            fail("project_by_schema panicked on a sub-schema of the batch".into(), "proj_panic");
                        }
                        return "panic".into();
                    }
                };
                if valid_request && r.is_err() {
                    fail("project_by_schema failed on a sub-schema of the batch".into(), "proj_error");
                }
                match r {
                    Ok(b) => {
                        let b = batch_arr(b);
                        let want: Vec<Val> = logical(a.as_ref()).iter().map(|v| spec_project(&fs, v)).collect();
                        if logical(b.as_ref()) != want || Ty::from_dt(b.data_type()) != Ty::S(fs.clone()) {
                            fail("project_by_schema: rows differ from the row-wise projection".into(), "project_values");
                        }
                        let out = show_arr(b.as_ref());
                        self.put(d, b);
                        out
                    }
                    Err(e) => arrow_err(&e).into(),
                }
            }
            ["merge", d, l, r] => {
                let (Some(a), Some(b)) = (self.get(l), self.get(r)) else { return bad };
                let (Some(ba), Some(bb)) = (as_batch(&a), as_batch(&b)) else { return "bad-type".into() };
                if a.len() == b.len() && merge_unmodelled(&Ty::from_dt(a.data_type()), &Ty::from_dt(b.data_type())) {
                    // `merge` of two List<Struct> columns with different struct types (merge_list_struct) is outside the model
                    return "unmodelled".into();
                }
                match ba.merge(&bb) {
                    Ok(m) => {
                        let m = batch_arr(m);
                        let (Ty::S(lt), Ty::S(rt)) = (Ty::from_dt(a.data_type()), Ty::from_dt(b.data_type())) else { unreachable!() };
                        let want: Option<Vec<Val>> =
                            logical(a.as_ref()).iter().zip(logical(b.as_ref()).iter()).map(|(x, y)| spec_merge(&lt, &rt, x, y)).collect();
                        match want {
                            Some(w) => {
                                if logical(m.as_ref()) != w {
                                    fail(
                                        format!("merge: rows differ from the row-wise merge, want {}", show_logical(&w)),
                                        merge_key(a.as_ref(), b.as_ref()),
                                    );
                                }
                            }
                            None => res.tags.push("merge:unspecified-shape".into()),
                        }
                        let out = show_arr(m.as_ref());
                        self.put(d, m);
                        out
                    }
                    Err(e) => arrow_err(&e).into(),
                }
            }
            ["mergews", d, l, r, rest @ ..] => {
                let (Some(a), Some(b)) = (self.get(l), self.get(r)) else { return bad };
                let mut pos = 0;
                let Some(fs) = parse_fields(rest, &mut pos, 0) else { return bad };
                if pos != rest.len() {
                    return bad;
                }
                let (Some(ba), Some(bb)) = (as_batch(&a), as_batch(&b)) else { return "bad-type".into() };
                let schema = Schema::new(fields_of(&fs));
                match ba.merge_with_schema(&bb, &schema) {
                    Ok(m) => {
                        let m = batch_arr(m);
                        let (Ty::S(lt), Ty::S(rt)) = (Ty::from_dt(a.data_type()), Ty::from_dt(b.data_type())) else { unreachable!() };
                        let want: Option<Vec<Val>> =
                            logical(a.as_ref()).iter().zip(logical(b.as_ref()).iter()).map(|(x, y)| spec_mws(&fs, &lt, &rt, x, y)).collect();
                        match want {
                            Some(w) => {
                                if logical(m.as_ref()) != w {
                                    fail(
                                        format!("merge_with_schema: rows differ from the row-wise merge, want {}", show_logical(&w)),
                                        merge_key(a.as_ref(), b.as_ref()),
                                    );
                                }
                            }
                            None => res.tags.push("mergews:unspecified-shape".into()),
                        }
                        let out = show_arr(m.as_ref());
                        self.put(d, m);
                        out
                    }
                    Err(e) => arrow_err(&e).into(),
                }
            }
            ["dump", r] => match self.get(r) {
                Some(a) => show_arr(a.as_ref()),
                None => bad,
            },
            _ => bad,
        }
    }
}

/// `fs` names existing columns with their types; a struct column may be narrowed recursively
fn sub_schema(fs: &[(String, Ty)], of: &Ty) -> bool {
    let Ty::S(cols) = of else { return false };
    fs.iter().all(|(n, t)| match (t, find_ty(cols, n)) {
        (Ty::S(sub), Some(ct @ Ty::S(_))) => sub_schema(sub, ct),
        (t, Some(ct)) => t == ct,
        (_, None) => false,
    })
}

/// some pair of same-named columns reached by the struct recursion of `merge` are both List<Struct> (not LargeList) of
/// different types
fn merge_unmodelled(l: &Ty, r: &Ty) -> bool {
    let (Ty::S(ls), Ty::S(rs)) = (l, r) else { return false };
    ls.iter().any(|(n, t)| match (t, find_ty(rs, n)) {
        (Ty::S(_), Some(u @ Ty::S(_))) => merge_unmodelled(t, u),
        (Ty::L(false, li), Some(Ty::L(false, ri))) => li.is_struct() && ri.is_struct() && li != ri,
        _ => false,
    })
}

/// classification of a merge mismatch (one class: every validity-rule defect found so far is fixed)
fn merge_key(_a: &dyn Array, _b: &dyn Array) -> &'static str {
    "merge_values"
}

// ---------------------------------------------------------------------------------------------
// generator
// ---------------------------------------------------------------------------------------------

fn gen_name(r: &mut Rng, used: &[String]) -> String {
    loop {
        let n = format!("{}", (b'a' + r.below(6) as u8) as char);
        if !used.contains(&n) {
            return n;
        }
        let n = format!("{}{}", (b'a' + r.below(6) as u8) as char, r.below(10));
        if !used.contains(&n) {
            return n;
        }
    }
}

fn gen_ty(r: &mut Rng, depth: usize) -> Ty {
    let k = if depth == 0 { r.below(2) } else { r.below(5) };
    match k {
        0 => Ty::I,
        1 => {
            if r.chance(1, 3) {
                Ty::B
            } else {
                Ty::I
            }
        }
        2 | 3 => Ty::L(r.chance(1, 3), Box::new(gen_ty(r, depth - 1))),
        _ => gen_struct_ty(r, depth - 1),
    }
}

fn gen_struct_ty(r: &mut Rng, depth: usize) -> Ty {
    let k = r.range(1, 3) as usize;
    let mut fs: Vec<(String, Ty)> = vec![];
    for _ in 0..k {
        let names: Vec<String> = fs.iter().map(|f| f.0.clone()).collect();
        fs.push((gen_name(r, &names), gen_ty(r, depth)));
    }
    Ty::S(fs)
}

fn gen_nulls(r: &mut Rng, len: usize, p_none: u64) -> Nulls {
    if r.chance(p_none, 10) {
        return None;
    }
    let k = r.below(4) as usize;
    let extra = r.below(3) as usize;
    let mode = r.below(6);
    let bits = (0..k + len + extra)
        .map(|_| match mode {
            0 => false,
            1 => true,
            _ => r.chance(2, 3),
        })
        .collect();
    Some((k, bits))
}

/// physical array of `len` visible rows; every buffer gets its own leading/trailing slack and offsets
fn gen_phys(r: &mut Rng, ty: &Ty, len: usize, top_nulls: bool) -> Phys {
    match ty {
        Ty::I | Ty::B => {
            let off = if r.chance(1, 2) { r.below(4) as usize } else { 0 };
            let extra = r.below(3) as usize;
            let b = *ty == Ty::B;
            let vals = (0..off + len + extra).map(|_| if b { r.below(2) as i64 } else { r.below(19) as i64 - 4 }).collect();
            Phys::P { b, off, len, nulls: if top_nulls { gen_nulls(r, len, 4) } else { None }, vals }
        }
        Ty::L(large, item) => {
            let off = if r.chance(1, 2) { r.below(3) as usize } else { 0 };
            let extra = r.below(2) as usize;
            let mut cur = if r.chance(1, 2) { r.below(4) } else { 0 };
            let mut offs = vec![];
            for _ in 0..off + len + 1 + extra {
                offs.push(cur);
                cur += if r.chance(1, 4) { 0 } else { r.below(4) };
            }
            let last_visible = offs[off + len] as usize;
            let child_len = last_visible + if r.chance(1, 2) { r.below(3) as usize } else { 0 };
            let child = gen_phys(r, item, child_len, true);
            Phys::L { large: *large, off, len, nulls: if top_nulls { gen_nulls(r, len, 3) } else { None }, offs, child: Box::new(child) }
        }
        Ty::S(fs) => Phys::S {
            len,
            nulls: if top_nulls { gen_nulls(r, len, 3) } else { None },
            fields: fs.iter().map(|(n, t)| (n.clone(), gen_phys(r, t, len, true))).collect(),
        },
    }
}

/// keep a random non-empty subset of the leaves below a struct (the same list structure stays on both sides);
/// `None` when nothing is kept
fn prune(r: &mut Rng, p: &Phys, keep_pct: u64, top: bool) -> Option<Phys> {
    match p {
        Phys::P { .. } => {
            if r.chance(keep_pct, 100) {
                Some(p.clone())
            } else {
                None
            }
        }
        Phys::L { large, off, len, nulls, offs, child } => {
            let c = if matches!(child.as_ref(), Phys::P { .. }) {
                if r.chance(keep_pct, 100) {
                    Some(child.as_ref().clone())
                } else {
                    None
                }
            } else {
                prune(r, child, keep_pct, false)
            }?;
            Some(Phys::L { large: *large, off: *off, len: *len, nulls: nulls.clone(), offs: offs.clone(), child: Box::new(c) })
        }
        Phys::S { len, nulls, fields } => {
            let fs: Vec<(String, Phys)> = fields.iter().filter_map(|(n, c)| prune(r, c, keep_pct, false).map(|c| (n.clone(), c))).collect();
            if fs.is_empty() && !top {
                return None;
            }
            Some(Phys::S { len: *len, nulls: nulls.clone(), fields: fs })
        }
    }
}

/// give the struct nodes (not the lists) fresh validity: the "different validity" rule of merge
fn revalidate(r: &mut Rng, p: &mut Phys, top: bool) {
    match p {
        Phys::P { .. } => {}
        Phys::L { child, .. } => revalidate(r, child, false),
        Phys::S { len, nulls, fields } => {
            if !top && r.chance(1, 2) {
                *nulls = gen_nulls(r, *len, 3);
            }
            for (_, c) in fields {
                revalidate(r, c, false);
            }
        }
    }
}

fn shuffle<T>(r: &mut Rng, v: &mut [T]) {
    for i in (1..v.len()).rev() {
        v.swap(i, r.usize(i + 1));
    }
}

/// a reference schema for merge_with_schema: the union of both sides in a random order
fn union_ty(r: &mut Rng, a: &Ty, b: &Ty) -> Ty {
    match (a, b) {
        (Ty::S(x), Ty::S(y)) => {
            let mut out: Vec<(String, Ty)> = vec![];
            for (n, t) in x {
                match find_ty(y, n) {
                    Some(u) => out.push((n.clone(), union_ty(r, t, u))),
                    None => out.push((n.clone(), t.clone())),
                }
            }
            for (n, t) in y {
                if find_ty(x, n).is_none() {
                    out.push((n.clone(), t.clone()));
                }
            }
            shuffle(r, &mut out);
            Ty::S(out)
        }
        (Ty::L(l, x), Ty::L(_, y)) => Ty::L(*l, Box::new(union_ty(r, x, y))),
        _ => a.clone(),
    }
}

fn random_fields(r: &mut Rng, ty: &Ty, malformed: bool) -> Vec<(String, Ty)> {
    let Ty::S(fs) = ty else { return vec![] };
    let mut out: Vec<(String, Ty)> = vec![];
    for (n, t) in fs {
        if r.chance(2, 3) {
            let t = match t {
                Ty::S(_) if r.chance(3, 4) => Ty::S(random_fields(r, t, malformed)),
                _ => t.clone(),
            };
            out.push((n.clone(), t));
        }
    }
    if malformed {
        match r.below(3) {
            0 => out.push(("zz".into(), Ty::I)),
            1 => {
                if let Some(f) = out.first_mut() {
                    f.1 = if f.1 == Ty::I { Ty::B } else { Ty::I };
                }
            }
            _ => {
                if let Some(f) = out.first_mut() {
                    f.1 = Ty::L(false, Box::new(f.1.clone()));
                }
            }
        }
    }
    shuffle(r, &mut out);
    out
}

impl Prop for C40 {
    fn id(&self) -> &'static str {
        "C40"
    }
    fn budget(&self, tier: Tier) -> usize {
        match tier {
            Tier::Quick => 2500,
            Tier::Thorough => 60000,
            Tier::Search => 20000,
        }
    }
    fn gen_case(&mut self, r: &mut Rng, _tier: Tier, _idx: usize) -> Vec<String> {
        let mut l = vec![];
        let len = match r.below(10) {
            0 => 0,
            1 => 1,
            _ => r.range(2, 6) as usize,
        };
        let malformed = r.chance(1, 10);
        match r.below(10) {
            // list helpers + deep copy on a list array (priority 1)
            0..=3 => {
                let ty = Ty::L(r.chance(1, 3), Box::new(gen_ty(r, 2)));
                let mut p = gen_phys(r, &ty, len, true);
                if malformed {
                    if let Phys::L { offs, off, .. } = &mut p {
                        let k = *off + r.usize(offs.len() - *off);
                        match r.below(3) {
                            0 => offs[k] += 40,
                            1 => offs.truncate(k),
                            _ => offs[k] = 0,
                        }
                    }
                }
                l.push(format!("arr a {}", p.text()));
                let mut cur = "a";
                if len > 0 && r.chance(1, 2) {
                    let o = r.usize(len);
                    let n = r.usize(len - o + 1);
                    l.push(format!("slice b a {o} {n}"));
                    cur = "b";
                }
                l.push(format!("fgn c {cur}"));
                l.push(format!("trim d {cur}"));
                l.push(format!("dcopy e {cur}"));
                l.push(format!("dcopys f {cur}"));
                l.push("trim g c".into());
                l.push("fgn h c".into());
                l.push("dcopys i d".into());
                if malformed {
                    l.push(format!("slice j {cur} {} 2", len));
                }
            }
            // deep copy / slices of arbitrary arrays
            4 => {
                let ty = gen_ty(r, 3);
                let p = gen_phys(r, &ty, len, true);
                l.push(format!("arr a {}", p.text()));
                let mut cur = "a".to_string();
                let mut cl = len;
                for reg in ["b", "c"] {
                    if cl > 0 && r.chance(2, 3) {
                        let o = r.usize(cl);
                        let n = r.usize(cl - o + 1);
                        l.push(format!("slice {reg} {cur} {o} {n}"));
                        cur = reg.to_string();
                        cl = n;
                    }
                }
                l.push(format!("dcopy d {cur}"));
                l.push(format!("dcopys e {cur}"));
                l.push(format!("pushdown f {cur}"));
                l.push("dcopys g f".into());
            }
            // batch helpers: take / project / pushdown
            5 | 6 => {
                let ty = gen_struct_ty(r, 2);
                let p = gen_phys(r, &ty, len, false);
                l.push(format!("arr a {}", p.text()));
                let mut cur = "a";
                let mut clen = len;
                if len > 0 && r.chance(1, 2) {
                    let o = r.usize(len);
                    clen = r.usize(len - o + 1);
                    l.push(format!("slice b a {o} {clen}"));
                    cur = "b";
                }
                let n = r.below(6) as usize;
                let idx: Vec<u64> = (0..n).map(|_| if malformed && r.chance(1, 3) { clen as u64 + r.below(2) } else { r.below(clen.max(1) as u64) }).collect();
                l.push(format!("take c {cur} {}", show_nat_list(idx)));
                let fs = random_fields(r, &ty, malformed);
                let mut o = vec![];
                field_tokens(&fs, &mut o);
                l.push(format!("proj d {cur} {}", o.join(" ")));
                l.push("dcopys e d".into());
                l.push(format!("pushdown f {cur}"));
                if let Ty::S(fs) = &ty {
                    if let Some((n, Ty::S(sub))) = fs.iter().find(|f| f.1.is_struct()) {
                        let _ = sub;
                        l.push(format!("proj g {cur} 1 {n} s 0"));
                    }
                }
            }
            // merge / merge_with_schema of two prunings of one table (priority 2)
            _ => {
                let ty = gen_struct_ty(r, 3);
                let full = gen_phys(r, &ty, len, false);
                let keep = *r.pick(&[35u64, 50, 65, 100]);
                let mut a = prune(r, &full, keep, true).unwrap();
                let mut b = prune(r, &full, keep, true).unwrap();
                if r.chance(2, 3) {
                    revalidate(r, &mut b, true);
                }
                if r.chance(1, 4) {
                    revalidate(r, &mut a, true);
                }
                if malformed {
                    if let Phys::S { len, fields, .. } = &mut b {
                        *len += 1;
                        let l2 = *len;
                        for f in fields.iter_mut() {
                            f.1 = gen_phys(r, &f.1.ty(), l2, true);
                        }
                    }
                }
                l.push(format!("arr a {}", a.text()));
                l.push(format!("arr b {}", b.text()));
                let (mut x, mut y) = ("a", "b");
                if len > 0 && !malformed && r.chance(1, 2) {
                    let o = r.usize(len);
                    let n = r.usize(len - o + 1);
                    l.push(format!("slice c a {o} {n}"));
                    l.push(format!("slice d b {o} {n}"));
                    x = "c";
                    y = "d";
                }
                l.push(format!("merge m {x} {y}"));
                let u = union_ty(r, &a.ty(), &b.ty());
                let Ty::S(ufs) = &u else { unreachable!() };
                let mut o = vec![];
                field_tokens(ufs, &mut o);
                l.push(format!("mergews n {x} {y} {}", o.join(" ")));
                l.push(format!("merge p {y} {x}"));
                l.push("dcopys q n".into());
            }
        }
        if malformed && r.chance(1, 3) {
            l.push("frob a b".into());
        }
        l
    }
    fn exec_case(&mut self, lines: &[String]) -> CaseResult {
        self.regs.clear();
        let mut res = CaseResult::default();
        for (li, line) in lines.iter().enumerate() {
            let op = line.split(' ').next().unwrap_or("").to_string();
            let mut sub = CaseResult::default();
            let out = catch_unwind(AssertUnwindSafe(|| self.step(line, li, &mut sub)));
            let out = match out {
                Ok(o) => o,
                Err(e) => {
                    let msg = e.downcast_ref::<String>().cloned().or_else(|| e.downcast_ref::<&str>().map(|s| s.to_string())).unwrap_or_default();
                    if msg.starts_with("harness:") {
                        panic!("{msg}");
                    }
                    sub.failures.push(OracleFailure { what: format!("{op} panicked: {msg}"), key: Some(format!("{op}_panic")), line: li });
                    "panic".into()
                }
            };
            let kind = if out.starts_with("ok") { "ok" } else { out.split(' ').next().unwrap_or("") };
            res.tags.push(format!("{op}:{kind}"));
            if out.starts_with("ok") && out.contains('n') {
                res.nontrivial = true;
            }
            res.tags.append(&mut sub.tags);
            res.failures.append(&mut sub.failures);
            res.outputs.push(out);
        }
        res
    }
    fn rule(&self) -> String {
        "typed random nested arrays (Int32/Boolean leaves, List, LargeList, Struct, depth <= 3) written as physical literals: every \
         value/offset/validity buffer has its own offset and slack, values behind NULLs are garbage, list offsets need not start at 0 \
         nor end at the end of the values; ops: slice, filter_garbage_nulls, trimmed_values, deep_copy_array(_sliced), pushdown_nulls, \
         take, project_by_schema, merge, merge_with_schema (two prunings of one table with re-drawn struct validity); ~10% malformed \
         (broken offsets, out-of-range indices, unknown/ill-typed projection fields, row-count mismatch, unknown op). \
         Non-trivial = some result contains a NULL"
            .into()
    }
}

fn main() {
    run_main(C40 { regs: vec![] })
}
