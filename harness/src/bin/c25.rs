//! C25 — file format round trip (lance-file FileWriter → FileReader).
//!
//! Case = one `file` line (schema spec, data seed, writer options), one `leaf` line per leaf column (page table the
//! real writer produced + canonical text of every row of that leaf — the input of the Lean model), then `meta`,
//! `read …` and `sched …` lines.  The generator writes the file once to learn the page table; the interpreter
//! writes it again (deterministic) and checks that the table is the same.
//!
//! Oracle (independent of the Lean model): every successful read must return exactly the rows the request
//! denotes (per projected leaf: values, validity, list/struct structure, in canonical text), in batches of
//! `batch_size` rows (last one shorter, none empty); valid requests must succeed; out-of-bounds requests and
//! empty / repeating projections must be rejected; `num_rows` / schema must match what was written.
//!
//! Normalisations (documented): dictionary arrays are compared by value, whatever lies behind a null struct or
//! null list is not compared.

use std::collections::{BTreeMap, HashMap};
use std::ops::Range;
use std::panic::{catch_unwind, AssertUnwindSafe};
use std::sync::Arc;

use arrow_array::cast::AsArray;
use arrow_array::types::*;
use arrow_array::*;
use arrow_buffer::{BooleanBuffer, NullBuffer, OffsetBuffer, ScalarBuffer};
use arrow_schema::{DataType, Field, Fields, Schema};
use futures::TryStreamExt;
use hcommon::*;
use lance_core::cache::LanceCache;
use lance_core::datatypes::Schema as LanceSchema;
use lance_core::utils::tempfile::TempObjFile;
use lance_encoding::encodings::logical::primitive::verif_hooks;
use lance_encoding::decoder::{DecodeBatchScheduler, DecoderConfig, DecoderPlugins, FilterExpression, PageEncoding};
use lance_encoding::format::pb21;
use lance_encoding::version::LanceFileVersion;
use lance_file::LanceEncodingsIo;
use lance_file::reader::{FileReader, FileReaderOptions, ReaderProjection};
use lance_file::writer::{FileWriter, FileWriterOptions};
use lance_io::object_store::ObjectStore;
use lance_io::scheduler::{ScanScheduler, SchedulerConfig};
use lance_io::utils::CachedFileSize;
use lance_io::ReadBatchParams;

// ---------------------------------------------------------------- schema spec

#[derive(Clone, Debug, PartialEq)]
enum Ty {
    I32,
    I64,
    F32,
    Str,
    LStr,
    Bin,
    Fsb(i32),
    Bool,
    Fsl(i32, bool), // dimension, float?
    Dict,
    List(Box<Node>),
    LList(Box<Node>),
    Struct(Vec<Node>),
}

#[derive(Clone, Debug, PartialEq)]
struct Node {
    ty: Ty,
    /// forced structural encoding of a leaf: 'm' mini-block, 'z' full-zip
    enc: Option<char>,
    /// field id = preorder index (what `lance_core::datatypes::Schema::try_from` assigns)
    id: i32,
    name: String,
}

struct Parser<'a> {
    s: &'a [u8],
    p: usize,
}

impl<'a> Parser<'a> {
    fn eat(&mut self, t: &str) -> bool {
        if self.s[self.p..].starts_with(t.as_bytes()) {
            self.p += t.len();
            true
        } else {
            false
        }
    }
    fn num(&mut self) -> Option<i32> {
        let st = self.p;
        while self.p < self.s.len() && self.s[self.p].is_ascii_digit() {
            self.p += 1;
        }
        std::str::from_utf8(&self.s[st..self.p]).ok()?.parse().ok()
    }
    fn node(&mut self) -> Option<Node> {
        let ty = if self.eat("LL(") {
            let c = self.node()?;
            if !self.eat(")") {
                return None;
            }
            Ty::LList(Box::new(c))
        } else if self.eat("L(") {
            let c = self.node()?;
            if !self.eat(")") {
                return None;
            }
            Ty::List(Box::new(c))
        } else if self.eat("S(") {
            let mut ch = vec![self.node()?];
            while self.eat(",") {
                ch.push(self.node()?);
            }
            if !self.eat(")") {
                return None;
            }
            Ty::Struct(ch)
        } else if self.eat("i32") {
            Ty::I32
        } else if self.eat("i64") {
            Ty::I64
        } else if self.eat("f32") {
            Ty::F32
        } else if self.eat("lstr") {
            Ty::LStr
        } else if self.eat("str") {
            Ty::Str
        } else if self.eat("bin") {
            Ty::Bin
        } else if self.eat("bool") {
            Ty::Bool
        } else if self.eat("dict") {
            Ty::Dict
        } else if self.eat("fsb") {
            Ty::Fsb(self.num()?)
        } else if self.eat("fsl") {
            let d = self.num()?;
            let f = if self.eat("f") {
                true
            } else if self.eat("i") {
                false
            } else {
                return None;
            };
            Ty::Fsl(d, f)
        } else {
            return None;
        };
        let enc = if self.eat("@m") {
            Some('m')
        } else if self.eat("@z") {
            Some('z')
        } else {
            None
        };
        Some(Node { ty, enc, id: -1, name: String::new() })
    }
}

fn parse_spec(s: &str) -> Option<Vec<Node>> {
    let mut p = Parser { s: s.as_bytes(), p: 0 };
    let n = p.node()?;
    if p.p != s.len() {
        return None;
    }
    let Ty::Struct(mut top) = n.ty else { return None };
    let mut next = 0;
    fn number(n: &mut Node, name: String, next: &mut i32) {
        n.id = *next;
        n.name = name;
        *next += 1;
        match &mut n.ty {
            Ty::List(c) | Ty::LList(c) => number(c, "item".into(), next),
            Ty::Struct(ch) => {
                for (i, c) in ch.iter_mut().enumerate() {
                    number(c, format!("f{i}"), next);
                }
            }
            _ => {}
        }
    }
    for (i, n) in top.iter_mut().enumerate() {
        number(n, format!("c{i}"), &mut next);
    }
    Some(top)
}

fn show_node(n: &Node) -> String {
    let base = match &n.ty {
        Ty::I32 => "i32".into(),
        Ty::I64 => "i64".into(),
        Ty::F32 => "f32".into(),
        Ty::Str => "str".into(),
        Ty::LStr => "lstr".into(),
        Ty::Bin => "bin".into(),
        Ty::Fsb(k) => format!("fsb{k}"),
        Ty::Bool => "bool".into(),
        Ty::Fsl(d, f) => format!("fsl{d}{}", if *f { "f" } else { "i" }),
        Ty::Dict => "dict".into(),
        Ty::List(c) => format!("L({})", show_node(c)),
        Ty::LList(c) => format!("LL({})", show_node(c)),
        Ty::Struct(ch) => format!("S({})", ch.iter().map(show_node).collect::<Vec<_>>().join(",")),
    };
    match n.enc {
        Some(c) => format!("{base}@{c}"),
        None => base,
    }
}

fn data_type(n: &Node) -> DataType {
    match &n.ty {
        Ty::I32 => DataType::Int32,
        Ty::I64 => DataType::Int64,
        Ty::F32 => DataType::Float32,
        Ty::Str => DataType::Utf8,
        Ty::LStr => DataType::LargeUtf8,
        Ty::Bin => DataType::Binary,
        Ty::Fsb(k) => DataType::FixedSizeBinary(*k),
        Ty::Bool => DataType::Boolean,
        Ty::Fsl(d, f) => DataType::FixedSizeList(
            Arc::new(Field::new("item", if *f { DataType::Float32 } else { DataType::Int32 }, true)),
            *d,
        ),
        Ty::Dict => DataType::Dictionary(Box::new(DataType::Int32), Box::new(DataType::Utf8)),
        Ty::List(c) => DataType::List(Arc::new(field_of(c))),
        Ty::LList(c) => DataType::LargeList(Arc::new(field_of(c))),
        Ty::Struct(ch) => DataType::Struct(Fields::from(ch.iter().map(field_of).collect::<Vec<_>>())),
    }
}

fn field_of(n: &Node) -> Field {
    let mut md = HashMap::new();
    if let Some(c) = n.enc {
        md.insert(
            "lance-encoding:structural-encoding".to_string(),
            if c == 'm' { "miniblock" } else { "fullzip" }.to_string(),
        );
    }
    Field::new(&n.name, data_type(n), true).with_metadata(md)
}

fn is_leaf(n: &Node) -> bool {
    !matches!(n.ty, Ty::List(_) | Ty::LList(_) | Ty::Struct(_))
}

/// leaves in DFS order: (struct-child path from the top-level field list, field id)
fn leaves(top: &[Node]) -> Vec<(Vec<usize>, i32)> {
    fn rec(n: &Node, path: &mut Vec<usize>, out: &mut Vec<(Vec<usize>, i32)>) {
        match &n.ty {
            Ty::List(c) | Ty::LList(c) => rec(c, path, out),
            Ty::Struct(ch) => {
                for (i, c) in ch.iter().enumerate() {
                    path.push(i);
                    rec(c, path, out);
                    path.pop();
                }
            }
            _ => out.push((path.clone(), n.id)),
        }
    }
    let mut out = vec![];
    for (i, n) in top.iter().enumerate() {
        let mut p = vec![i];
        rec(n, &mut p, &mut out);
    }
    out
}

fn has_fullzip_risk(top: &[Node]) -> bool {
    fn rec(n: &Node) -> bool {
        match &n.ty {
            Ty::List(c) | Ty::LList(c) => rec(c),
            Ty::Struct(ch) => ch.iter().any(rec),
            _ => n.enc == Some('z'),
        }
    }
    top.iter().any(rec)
}

// ---------------------------------------------------------------- data generation

struct GenCfg {
    /// null probability in 1/16
    nullp: u64,
    /// maximum list length
    maxlen: u64,
    /// long strings (>= 256 bytes → full-zip) allowed
    long_strings: bool,
    /// 2.0 files cannot store null structs (docs/src/format/file/versioning.md: 2.1 "adds support for nulls in struct fields")
    struct_nulls: bool,
    /// when > 0 every list has exactly this many items
    fixlen: u64,
}

fn gen_nulls(rng: &mut Rng, n: usize, cfg: &GenCfg) -> Option<NullBuffer> {
    if cfg.nullp == 0 {
        return None;
    }
    let v: Vec<bool> = (0..n).map(|_| !rng.chance(cfg.nullp, 16)).collect();
    if v.iter().all(|b| *b) {
        None
    } else {
        Some(NullBuffer::new(BooleanBuffer::from(v)))
    }
}

fn gen_bytes(rng: &mut Rng, cfg: &GenCfg, ascii: bool) -> Vec<u8> {
    let len = match rng.below(20) {
        0 => 0,
        1 if cfg.long_strings => rng.range(256, 400) as usize,
        2 => rng.range(9, 40) as usize,
        _ => rng.range(1, 8) as usize,
    };
    (0..len).map(|_| if ascii { b'a' + rng.below(6) as u8 } else { rng.below(256) as u8 }).collect()
}

fn gen_int(rng: &mut Rng) -> i64 {
    match rng.below(12) {
        0 => i32::MAX as i64,
        1 => i32::MIN as i64,
        2 => 0,
        3 => rng.below(1 << 20) as i64 - (1 << 19),
        _ => rng.below(200) as i64 - 100,
    }
}

fn gen_array(n: &Node, len: usize, rng: &mut Rng, cfg: &GenCfg) -> ArrayRef {
    match &n.ty {
        Ty::I32 => {
            let v: Vec<i32> = (0..len).map(|_| gen_int(rng) as i32).collect();
            Arc::new(Int32Array::new(ScalarBuffer::from(v), gen_nulls(rng, len, cfg)))
        }
        Ty::I64 => {
            let v: Vec<i64> = (0..len)
                .map(|_| {
                    let x = gen_int(rng);
                    if rng.chance(1, 16) {
                        x << 31
                    } else {
                        x
                    }
                })
                .collect();
            Arc::new(Int64Array::new(ScalarBuffer::from(v), gen_nulls(rng, len, cfg)))
        }
        Ty::F32 => {
            let v: Vec<f32> = (0..len).map(|_| (rng.below(4000) as i64 - 2000) as f32).collect();
            Arc::new(Float32Array::new(ScalarBuffer::from(v), gen_nulls(rng, len, cfg)))
        }
        Ty::Bool => {
            let v: Vec<bool> = (0..len).map(|_| rng.chance(1, 2)).collect();
            Arc::new(BooleanArray::new(BooleanBuffer::from(v), gen_nulls(rng, len, cfg)))
        }
        Ty::Str | Ty::LStr | Ty::Bin | Ty::Dict => {
            // a small vocabulary half of the time (dictionary-friendly), free text otherwise
            let vocab: Vec<Vec<u8>> = (0..rng.range(1, 6)).map(|_| gen_bytes(rng, cfg, true)).collect();
            let use_vocab = matches!(n.ty, Ty::Dict) || rng.chance(1, 2);
            let nulls = gen_nulls(rng, len, cfg);
            let vals: Vec<Vec<u8>> = (0..len)
                .map(|_| {
                    if use_vocab {
                        vocab[rng.usize(vocab.len())].clone()
                    } else {
                        gen_bytes(rng, cfg, !matches!(n.ty, Ty::Bin))
                    }
                })
                .collect();
            let opt = |i: usize| -> Option<&[u8]> {
                if nulls.as_ref().map(|nb| nb.is_valid(i)).unwrap_or(true) {
                    Some(&vals[i])
                } else {
                    None
                }
            };
            match n.ty {
                Ty::Str => Arc::new(StringArray::from_iter((0..len).map(|i| opt(i).map(|b| std::str::from_utf8(b).unwrap())))),
                Ty::LStr => {
                    Arc::new(LargeStringArray::from_iter((0..len).map(|i| opt(i).map(|b| std::str::from_utf8(b).unwrap()))))
                }
                Ty::Bin => Arc::new(BinaryArray::from_iter((0..len).map(opt))),
                _ => {
                    let d: DictionaryArray<Int32Type> =
                        (0..len).map(|i| opt(i).map(|b| std::str::from_utf8(b).unwrap())).collect();
                    Arc::new(d)
                }
            }
        }
        Ty::Fsb(k) => {
            let nulls = gen_nulls(rng, len, cfg);
            let bytes: Vec<u8> = (0..len * *k as usize).map(|_| rng.below(256) as u8).collect();
            Arc::new(FixedSizeBinaryArray::new(*k, bytes.into(), nulls))
        }
        Ty::Fsl(d, f) => {
            let nulls = gen_nulls(rng, len, cfg);
            let m = len * *d as usize;
            let child: ArrayRef = if *f {
                Arc::new(Float32Array::from((0..m).map(|_| (rng.below(400) as i64 - 200) as f32).collect::<Vec<_>>()))
            } else {
                Arc::new(Int32Array::from((0..m).map(|_| gen_int(rng) as i32).collect::<Vec<_>>()))
            };
            let item = Arc::new(Field::new("item", child.data_type().clone(), true));
            Arc::new(FixedSizeListArray::new(item, *d, child, nulls))
        }
        Ty::List(c) | Ty::LList(c) => {
            let nulls = gen_nulls(rng, len, cfg);
            let mut offs: Vec<i64> = vec![0];
            for i in 0..len {
                let valid = nulls.as_ref().map(|nb| nb.is_valid(i)).unwrap_or(true);
                // a null list sometimes keeps garbage items behind it
                let l = if cfg.fixlen > 0 {
                    cfg.fixlen
                } else if !valid && !rng.chance(1, 4) {
                    0
                } else {
                    match rng.below(8) {
                        0 => 0,
                        1 => rng.range(0, cfg.maxlen),
                        _ => rng.range(0, 3.min(cfg.maxlen)),
                    }
                };
                offs.push(offs.last().unwrap() + l as i64);
            }
            let child = gen_array(c, *offs.last().unwrap() as usize, rng, cfg);
            let f = Arc::new(field_of(c));
            if matches!(n.ty, Ty::List(_)) {
                let o: Vec<i32> = offs.iter().map(|x| *x as i32).collect();
                Arc::new(ListArray::new(f, OffsetBuffer::new(ScalarBuffer::from(o)), child, nulls))
            } else {
                Arc::new(LargeListArray::new(f, OffsetBuffer::new(ScalarBuffer::from(offs)), child, nulls))
            }
        }
        Ty::Struct(ch) => {
            let nulls = if cfg.struct_nulls { gen_nulls(rng, len, cfg) } else { None };
            let cols: Vec<ArrayRef> = ch.iter().map(|c| gen_array(c, len, rng, cfg)).collect();
            let fields = Fields::from(ch.iter().map(field_of).collect::<Vec<_>>());
            Arc::new(StructArray::new(fields, cols, nulls))
        }
    }
}

/// drop validity buffers that have no null (a sliced array keeps the buffer of its parent)
fn strip_nulls(a: &ArrayRef) -> ArrayRef {
    let nulls = a.nulls().filter(|n| n.null_count() > 0).cloned();
    match a.data_type() {
        DataType::Struct(fields) => {
            let s = a.as_struct();
            let cols: Vec<ArrayRef> = s.columns().iter().map(strip_nulls).collect();
            Arc::new(StructArray::new(fields.clone(), cols, nulls))
        }
        DataType::List(f) => {
            let l = a.as_list::<i32>();
            Arc::new(ListArray::new(f.clone(), l.offsets().clone(), strip_nulls(l.values()), nulls))
        }
        DataType::LargeList(f) => {
            let l = a.as_list::<i64>();
            Arc::new(LargeListArray::new(f.clone(), l.offsets().clone(), strip_nulls(l.values()), nulls))
        }
        _ => {
            if a.nulls().is_some() && nulls.is_none() {
                let d = a.to_data().into_builder().nulls(None).build().unwrap();
                make_array(d)
            } else {
                a.clone()
            }
        }
    }
}

// ---------------------------------------------------------------- canonical text

fn hex(b: &[u8]) -> String {
    let mut s = String::with_capacity(b.len() * 2);
    for x in b {
        s.push_str(&format!("{x:02x}"));
    }
    s
}

fn render_value(a: &dyn Array, i: usize) -> String {
    if a.is_null(i) {
        return "n".into();
    }
    match a.data_type() {
        DataType::Int32 => a.as_primitive::<Int32Type>().value(i).to_string(),
        DataType::Int64 => a.as_primitive::<Int64Type>().value(i).to_string(),
        DataType::Float32 => format!("f{}", a.as_primitive::<Float32Type>().value(i) as i64),
        DataType::Boolean => if a.as_boolean().value(i) { "T" } else { "F" }.into(),
        DataType::Utf8 => format!("s{}", hex(a.as_string::<i32>().value(i).as_bytes())),
        DataType::LargeUtf8 => format!("s{}", hex(a.as_string::<i64>().value(i).as_bytes())),
        DataType::Binary => format!("b{}", hex(a.as_binary::<i32>().value(i))),
        DataType::LargeBinary => format!("b{}", hex(a.as_binary::<i64>().value(i))),
        DataType::FixedSizeBinary(_) => {
            let v = a.as_fixed_size_binary().value(i);
            if v.len() > 32 {
                // wide values: length + FNV-1a digest keeps the op lines short
                let mut h: u64 = 0xcbf29ce484222325;
                for b in v {
                    h = (h ^ *b as u64).wrapping_mul(0x100000001b3);
                }
                format!("X{}h{h:016x}", v.len())
            } else {
                format!("x{}", hex(v))
            }
        }
        DataType::FixedSizeList(_, _) => {
            let f = a.as_fixed_size_list();
            let v = f.value(i);
            let items: Vec<String> = (0..v.len()).map(|j| render_value(v.as_ref(), j)).collect();
            if items.len() > 16 {
                let mut h: u64 = 0xcbf29ce484222325;
                for b in items.join(",").bytes() {
                    h = (h ^ b as u64).wrapping_mul(0x100000001b3);
                }
                format!("<{}h{h:016x}>", items.len())
            } else {
                format!("<{}>", items.join(","))
            }
        }
        DataType::Dictionary(_, _) => {
            let d = a.as_any_dictionary();
            let k = d.normalized_keys()[i];
            format!("s{}", hex(d.values().as_string::<i32>().value(k).as_bytes()))
        }
        other => format!("?{other}"),
    }
}

/// canonical text of row `i` of the leaf reached through `path` (struct child indices; lists are transparent)
fn render_leaf(a: &dyn Array, i: usize, path: &[usize]) -> String {
    match a.data_type() {
        DataType::Struct(_) => {
            if a.is_null(i) {
                "N".into()
            } else {
                format!("{{{}}}", render_leaf(a.as_struct().column(path[0]).as_ref(), i, &path[1..]))
            }
        }
        DataType::List(_) => {
            if a.is_null(i) {
                "N".into()
            } else {
                let l = a.as_list::<i32>();
                let (s, e) = (l.offsets()[i] as usize, l.offsets()[i + 1] as usize);
                format!("[{}]", (s..e).map(|j| render_leaf(l.values().as_ref(), j, path)).collect::<Vec<_>>().join(","))
            }
        }
        DataType::LargeList(_) => {
            if a.is_null(i) {
                "N".into()
            } else {
                let l = a.as_list::<i64>();
                let (s, e) = (l.offsets()[i] as usize, l.offsets()[i + 1] as usize);
                format!("[{}]", (s..e).map(|j| render_leaf(l.values().as_ref(), j, path)).collect::<Vec<_>>().join(","))
            }
        }
        _ => render_value(a, i),
    }
}

/// number of rep/def level entries row `i` owns in the leaf reached through `path`, and whether it holds a non-null value
fn row_levels(a: &dyn Array, i: usize, path: &[usize]) -> (usize, bool) {
    match a.data_type() {
        DataType::Struct(_) => {
            if a.is_null(i) {
                (1, false)
            } else {
                row_levels(a.as_struct().column(path[0]).as_ref(), i, &path[1..])
            }
        }
        DataType::List(_) | DataType::LargeList(_) => {
            if a.is_null(i) {
                return (1, false);
            }
            let (vals, s, e) = if let Some(l) = a.as_list_opt::<i32>() {
                (l.values().clone(), l.offsets()[i] as usize, l.offsets()[i + 1] as usize)
            } else {
                let l = a.as_list::<i64>();
                (l.values().clone(), l.offsets()[i] as usize, l.offsets()[i + 1] as usize)
            };
            if s == e {
                return (1, false);
            }
            let mut n = 0;
            let mut any = false;
            for j in s..e {
                let (k, v) = row_levels(vals.as_ref(), j, path);
                n += k;
                any |= v;
            }
            (n, any)
        }
        _ => (1, a.is_valid(i)),
    }
}

// ---------------------------------------------------------------- the written file

struct FileSpec {
    version: LanceFileVersion,
    vtxt: String,
    rows: usize,
    top: Vec<Node>,
    spec: String,
    seed: u64,
    nullp: u64,
    maxlen: u64,
    long_strings: bool,
    batches: Vec<usize>,
    cache: Option<u64>,
    maxpage: Option<u64>,
    slice: usize,
    /// `DecoderConfig::cache_repetition_index` of the reader (off by default in lance)
    crep: bool,
    /// every list has exactly this many items (0 = random lengths)
    fixlen: u64,
}

impl FileSpec {
    fn line(&self, ncols: usize) -> String {
        format!(
            "file v={} rows={} ncols={} spec={} seed={} nullp={} maxlen={} long={} batches={} cache={} maxpage={} slice={} crep={} fixlen={}",
            self.vtxt,
            self.rows,
            ncols,
            self.spec,
            self.seed,
            self.nullp,
            self.maxlen,
            self.long_strings as u8,
            show_nat_list(self.batches.iter().map(|x| *x as u64)),
            self.cache.map(|c| c.to_string()).unwrap_or("none".into()),
            self.maxpage.map(|c| c.to_string()).unwrap_or("none".into()),
            self.slice,
            self.crep as u8,
            self.fixlen
        )
    }

    fn parse(line: &str) -> Option<Self> {
        let toks: Vec<&str> = line.split_whitespace().collect();
        if toks.first() != Some(&"file") {
            return None;
        }
        let kv = |k: &str| -> Option<&str> { toks.iter().find_map(|t| t.strip_prefix(&format!("{k}="))) };
        let vtxt = kv("v")?.to_string();
        let version = match vtxt.as_str() {
            "2.0" => LanceFileVersion::V2_0,
            "2.1" => LanceFileVersion::V2_1,
            "2.2" => LanceFileVersion::V2_2,
            _ => return None,
        };
        let spec = kv("spec")?.to_string();
        let top = parse_spec(&spec)?;
        let opt = |s: &str| -> Option<Option<u64>> {
            if s == "none" {
                Some(None)
            } else {
                s.parse().ok().map(Some)
            }
        };
        let fs = Self {
            version,
            vtxt,
            rows: kv("rows")?.parse().ok()?,
            top,
            spec,
            seed: kv("seed")?.parse().ok()?,
            nullp: kv("nullp")?.parse().ok()?,
            maxlen: kv("maxlen")?.parse().ok()?,
            long_strings: kv("long")? == "1",
            batches: parse_nat_list(kv("batches")?)?.into_iter().map(|x| x as usize).collect(),
            cache: opt(kv("cache")?)?,
            maxpage: opt(kv("maxpage")?)?,
            slice: kv("slice")?.parse().ok()?,
            crep: kv("crep").map(|v| v == "1").unwrap_or(false),
            fixlen: kv("fixlen").and_then(|v| v.parse().ok()).unwrap_or(0),
        };
        if fs.batches.iter().sum::<usize>() != fs.rows || fs.rows > 200_000 || fs.nullp > 16 {
            return None;
        }
        Some(fs)
    }

    fn arrow_schema(&self) -> Arc<Schema> {
        Arc::new(Schema::new(self.top.iter().map(field_of).collect::<Vec<_>>()))
    }

    /// the whole columns (`rows` rows each), generated from the seed; sliced out of a longer array when `slice > 0`
    fn columns(&self) -> Vec<ArrayRef> {
        let mut rng = Rng::new(self.seed);
        let cfg = GenCfg { nullp: self.nullp, maxlen: self.maxlen, long_strings: self.long_strings, struct_nulls: self.version != LanceFileVersion::V2_0, fixlen: self.fixlen };
        self.top
            .iter()
            .map(|n| {
                let full = gen_array(n, self.rows + 2 * self.slice, &mut rng, &cfg);
                full.slice(self.slice, self.rows)
            })
            .collect()
    }
}

struct Written {
    _tmp: TempObjFile,
    reader: FileReader,
    sched: Arc<ScanScheduler>,
    path: object_store::path::Path,
    field_map: BTreeMap<u32, u32>,
    lance_schema: LanceSchema,
    cols: Vec<ArrayRef>,
    /// per leaf (DFS): rows per page (2.1+; a single synthetic page for 2.0) and whether a page is an all-null layout
    pages: Vec<Vec<u64>>,
    all_null_pages: Vec<Vec<bool>>,
    /// per leaf, per page: full-zip layout
    fz_pages: Vec<Vec<bool>>,
    /// per leaf, per page: for a mini-block page with a repetition index, (levels per chunk, (ends, partial) per chunk)
    mb_pages: Vec<Vec<Option<(Vec<u64>, Vec<(u64, u64)>)>>>,
    /// page layout kinds present in the file
    layouts: std::collections::BTreeSet<&'static str>,
}

fn write_file(rt: &tokio::runtime::Runtime, fs: &FileSpec) -> Result<Written, String> {
    let schema = fs.arrow_schema();
    let cols = fs.columns();
    let mut batches = vec![];
    let mut at = 0;
    for b in &fs.batches {
        let arrs: Vec<ArrayRef> = cols.iter().map(|c| strip_nulls(&c.slice(at, *b))).collect();
        batches.push(RecordBatch::try_new(schema.clone(), arrs).map_err(|e| e.to_string())?);
        at += b;
    }
    rt.block_on(async {
        let tmp = TempObjFile::default();
        let store = Arc::new(ObjectStore::local());
        let sched = ScanScheduler::new(store.clone(), SchedulerConfig::default_for_testing());
        let writer = store.create(&tmp).await.map_err(|e| e.to_string())?;
        let lance_schema = LanceSchema::try_from(schema.as_ref()).map_err(|e| e.to_string())?;
        let options = FileWriterOptions {
            format_version: Some(fs.version),
            data_cache_bytes: fs.cache,
            max_page_bytes: fs.maxpage,
            ..Default::default()
        };
        let mut fw = FileWriter::try_new(writer, lance_schema.clone(), options).map_err(|e| e.to_string())?;
        for b in &batches {
            fw.write_batch(b).await.map_err(|e| format!("write_batch: {e}"))?;
        }
        let field_map: BTreeMap<u32, u32> = fw.field_id_to_column_indices().iter().copied().collect();
        fw.finish().await.map_err(|e| format!("finish: {e}"))?;
        let path: object_store::path::Path = (*tmp).clone();
        let fsched = sched.open_file(&path, &CachedFileSize::unknown()).await.map_err(|e| e.to_string())?;
        let reader = FileReader::try_open(
            fsched,
            None,
            Arc::<DecoderPlugins>::default(),
            // ONE metadata cache for all reads of this file: the first read of a column fills it, later reads hit it
            &LanceCache::with_capacity(64 * 1024 * 1024),
            FileReaderOptions {
                decoder_config: DecoderConfig { cache_repetition_index: fs.crep, ..Default::default() },
                ..Default::default()
            },
        )
        .await
        .map_err(|e| format!("open: {e}"))?;
        let lv = leaves(&fs.top);
        let mut pages = vec![];
        let mut all_null_pages = vec![];
        let mut fz_pages = vec![];
        let mut mb_pages = vec![];
        let mut layouts = std::collections::BTreeSet::new();
        let meta = reader.metadata().clone();
        let bytes = std::fs::read(format!("/{}", path.as_ref())).unwrap_or_default();
        for (k, (_, id)) in lv.iter().enumerate() {
            if fs.version == LanceFileVersion::V2_0 {
                pages.push(if fs.rows > 0 { vec![fs.rows as u64] } else { vec![] });
                all_null_pages.push(vec![false; (fs.rows > 0) as usize]);
                mb_pages.push(vec![None; (fs.rows > 0) as usize]);
                fz_pages.push(vec![false; (fs.rows > 0) as usize]);
                continue;
            }
            let col = *field_map.get(&(*id as u32)).ok_or("leaf without column")? as usize;
            if col != k {
                return Err(format!("leaf {k} is column {col}"));
            }
            let ci = &meta.column_infos[col];
            pages.push(ci.page_infos.iter().map(|p| p.num_rows).collect());
            all_null_pages.push(
                ci.page_infos
                    .iter()
                    .map(|p| {
                        matches!(
                            &p.encoding,
                            PageEncoding::Structural(pb21::PageLayout { layout: Some(pb21::page_layout::Layout::AllNullLayout(_)) })
                        )
                    })
                    .collect(),
            );
            mb_pages.push(ci.page_infos.iter().map(|p| miniblock_probe(p, &bytes)).collect());
            fz_pages.push(
                ci.page_infos
                    .iter()
                    .map(|p| matches!(&p.encoding, PageEncoding::Structural(pb21::PageLayout { layout: Some(pb21::page_layout::Layout::FullZipLayout(_)) })))
                    .collect(),
            );
            for p in ci.page_infos.iter() {
                if let PageEncoding::Structural(pb21::PageLayout { layout: Some(l) }) = &p.encoding {
                    layouts.insert(match l {
                        pb21::page_layout::Layout::MiniBlockLayout(m) => if m.repetition_index_depth > 0 { "miniblock_rep" } else { "miniblock" },
                        pb21::page_layout::Layout::FullZipLayout(_) => "fullzip",
                        pb21::page_layout::Layout::AllNullLayout(_) => "allnull",
                        _ => "other",
                    });
                }
            }
        }
        Ok(Written { _tmp: tmp, reader, sched, path, field_map, lance_schema, cols, pages, all_null_pages, fz_pages, mb_pages, layouts })
    })
}

impl Written {
    fn leaf_tokens(&self, fs: &FileSpec) -> Vec<Vec<String>> {
        leaves(&fs.top)
            .iter()
            .map(|(path, _)| {
                let a = &self.cols[path[0]];
                (0..fs.rows).map(|i| render_leaf(a.as_ref(), i, &path[1..])).collect()
            })
            .collect()
    }

    /// open finding C27 `complex_all_null_levels_per_row`: an all-null page some row of which owns more than one level
    fn hits_complex_all_null(&self, fs: &FileSpec) -> bool {
        for (k, (path, _)) in leaves(&fs.top).iter().enumerate() {
            let a = &self.cols[path[0]];
            let mut at = 0usize;
            for (p, n) in self.pages[k].iter().enumerate() {
                if self.all_null_pages[k][p] {
                    for i in at..at + *n as usize {
                        if row_levels(a.as_ref(), i, &path[1..]).0 > 1 {
                            return true;
                        }
                    }
                }
                at += *n as usize;
            }
        }
        false
    }
}


/// chunk level counts and the stored repetition index of a mini-block page that has one (read from the file bytes:
/// buffer 0 = one u16 word per chunk (size in 8-byte words minus one << 4 | log2 values), buffer 1 = the chunks, each
/// starting with its number of levels as u16, last buffer = the repetition index as u64 (ends, partial) pairs)
fn miniblock_probe(p: &lance_encoding::decoder::PageInfo, bytes: &[u8]) -> Option<(Vec<u64>, Vec<(u64, u64)>)> {
    let PageEncoding::Structural(pb21::PageLayout { layout: Some(pb21::page_layout::Layout::MiniBlockLayout(l)) }) = &p.encoding else {
        return None;
    };
    if l.repetition_index_depth != 1 {
        return None;
    }
    let bufs = &p.buffer_offsets_and_sizes;
    let get = |i: usize| -> Option<&[u8]> {
        let (o, s) = *bufs.get(i)?;
        bytes.get(o as usize..(o + s) as usize)
    };
    let meta = get(0)?;
    let vals = get(1)?;
    let rep = get(bufs.len() - 1)?;
    let mut levels = vec![];
    let mut at = 0usize;
    for w in meta.chunks(2) {
        let word = u16::from_le_bytes([w[0], w[1]]);
        let size = ((word >> 4) as usize + 1) * 8;
        levels.push(u16::from_le_bytes([*vals.get(at)?, *vals.get(at + 1)?]) as u64);
        at += size;
    }
    let words: Vec<u64> = rep.chunks(8).map(|c| u64::from_le_bytes(c.try_into().unwrap())).collect();
    let ri = words.chunks(2).map(|c| (c[0], c[1])).collect();
    Some((levels, ri))
}

fn show_pairs(v: &[(u64, u64)]) -> String {
    if v.is_empty() {
        "-".into()
    } else {
        v.iter().map(|(a, b)| format!("{a}:{b}")).collect::<Vec<_>>().join(",")
    }
}

fn parse_pairs(s: &str) -> Option<Vec<(u64, u64)>> {
    if s == "-" {
        return Some(vec![]);
    }
    s.split(',')
        .map(|t| {
            let (a, b) = t.split_once(':')?;
            Some((a.parse().ok()?, b.parse().ok()?))
        })
        .collect()
}

/// the repetition index of a page by its definition (independent of the encoder): rows that END in the chunk, and
/// the levels after the last row start if that row continues in the next chunk
fn rep_index_by_definition(chunks: &[Vec<bool>]) -> Vec<(u64, u64)> {
    let mut out = vec![];
    for (i, c) in chunks.iter().enumerate() {
        let last = i + 1 == chunks.len();
        let next_starts = last || chunks[i + 1][0];
        // a row ends wherever the next level (in this or the next chunk) starts a row
        let mut ends = 0u64;
        for j in 0..c.len() {
            let nxt = if j + 1 < c.len() { c[j + 1] } else { next_starts };
            if nxt {
                ends += 1;
            }
        }
        let partial = if next_starts { 0 } else { (c.len() - c.iter().rposition(|s| *s).unwrap_or(0)) as u64 };
        let partial = if !next_starts && !c.iter().any(|s| *s) { c.len() as u64 } else { partial };
        out.push((ends, partial));
    }
    out
}

fn parse_instr(s: &str) -> Option<verif_hooks::Instr> {
    let v: Vec<&str> = s.split(':').collect();
    if v.len() != 5 {
        return None;
    }
    Some((v[0].parse().ok()?, v[1].parse().ok()?, v[2].parse().ok()?, v[3].parse().ok()?, v[4] == "1"))
}

fn show_instr(i: &verif_hooks::Instr) -> String {
    format!("{}:{}:{}:{}:{}", i.0, i.1, i.2, i.3, i.4 as u8)
}

fn kvs<'a>(toks: &'a [&'a str], k: &str) -> Option<&'a str> {
    toks.iter().find_map(|t| t.strip_prefix(&format!("{k}=")))
}

/// ops on the private mini-block functions (through the `verif_hooks` module of lance-encoding)
fn exec_hook_op(toks: &[&str]) -> Option<String> {
    match toks[0] {
        "si" => {
            let ri = parse_pairs(kvs(toks, "ri")?)?;
            let rs: Vec<Range<u64>> = parse_ranges(kvs(toks, "ranges")?)?.into_iter().map(|(a, b)| a..b).collect();
            let out = catch_unwind(AssertUnwindSafe(|| verif_hooks::schedule_instructions(&ri, &rs)));
            Some(match out {
                Err(_) => "panic".into(),
                Ok(v) if v.is_empty() => "-".into(),
                Ok(v) => v.iter().map(show_instr).collect::<Vec<_>>().join(","),
            })
        }
        "dfi" => {
            let i = parse_instr(kvs(toks, "i")?)?;
            let d: u64 = kvs(toks, "d")?.parse().ok()?;
            let np = kvs(toks, "np")? == "1";
            let sk: u64 = kvs(toks, "sk")?.parse().ok()?;
            let out = catch_unwind(AssertUnwindSafe(|| verif_hooks::drain_from_instruction(i, d, np, sk)));
            Some(match out {
                Err(_) => "panic".into(),
                Ok((s, t, p, c, d2, np2, sk2)) => format!("sk={s} tk={t} pre={p} consumed={} d={d2} np={} skc={sk2}", c as u8, np2 as u8),
            })
        }
        "mr" => {
            let rep: Vec<u16> = kvs(toks, "rep")?.chars().map(|c| (c == '1') as u16).collect();
            let d = kvs(toks, "def")?;
            // visible = def level 0, invisible = 1; max_visible_def = 0
            let def: Option<Vec<u16>> = if d == "-" { None } else { Some(d.chars().map(|c| (c != '1') as u16).collect()) };
            let (a, b) = kvs(toks, "r")?.split_once('-')?;
            let r: Range<u64> = a.parse().ok()?..b.parse().ok()?;
            let total: u64 = kvs(toks, "total")?.parse().ok()?;
            let act: u8 = kvs(toks, "act")?.parse().ok()?;
            let out = catch_unwind(AssertUnwindSafe(|| verif_hooks::map_range(r, Some(&rep), def.as_ref(), 1, 0, total, act)));
            Some(match out {
                Err(_) => "panic".into(),
                Ok((i, l)) => format!("i={}-{} l={}-{}", i.start, i.end, l.start, l.end),
            })
        }
        _ => None,
    }
}

/// a random page: rows of 1..k levels (with invisible ones), cut into chunks; returns (starts, visible) per chunk
fn random_page(rng: &mut Rng) -> Vec<Vec<(bool, bool)>> {
    let nrows = rng.range(1, 14);
    let long = rng.chance(1, 3);
    let mut ents: Vec<(bool, bool)> = vec![];
    for _ in 0..nrows {
        let k = if long && rng.chance(1, 3) { rng.range(4, 12) } else { rng.range(1, 4) };
        for j in 0..k {
            // an invisible level is a null / empty list: it is a whole row or a whole item, never after a visible
            // sibling in a way that matters here; keep it simple: any level may be invisible
            ents.push((j == 0, !rng.chance(1, 5)));
        }
    }
    let mut chunks = vec![];
    let mut cur = vec![];
    for (i, e) in ents.iter().enumerate() {
        cur.push(*e);
        if i + 1 < ents.len() && rng.chance(1, 4) {
            chunks.push(std::mem::take(&mut cur));
        }
    }
    chunks.push(cur);
    chunks
}

fn hook_case(rng: &mut Rng) -> Vec<String> {
    let mut lines = vec![];
    for _ in 0..3 {
        let chunks = random_page(rng);
        let starts: Vec<Vec<bool>> = chunks.iter().map(|c| c.iter().map(|e| e.0).collect()).collect();
        let ri = rep_index_by_definition(&starts);
        let nrows = starts.iter().flatten().filter(|s| **s).count() as u64;
        // schedule_instructions: sorted ranges within the page (occasionally past its end)
        for _ in 0..3 {
            let over = if rng.chance(1, 12) { 2 } else { 0 };
            let k = rng.range(1, 4);
            let mut cuts: Vec<u64> = (0..2 * k).map(|_| rng.below(nrows + 1 + over)).collect();
            cuts.sort();
            let rs: Vec<(u64, u64)> = cuts.chunks(2).map(|c| (c[0], c[1])).filter(|(a, b)| a < b).collect();
            if rs.is_empty() {
                continue;
            }
            lines.push(format!("si ri={} ranges={}", show_pairs(&ri), show_ranges(&rs)));
            // and drain_from_instruction on what comes out
            if let Ok(instrs) = catch_unwind(AssertUnwindSafe(|| {
                verif_hooks::schedule_instructions(&ri, &rs.iter().map(|(a, b)| *a..*b).collect::<Vec<_>>())
            })) {
                for i in instrs.iter().take(3) {
                    let np = i.1 != 0 && rng.chance(1, 2);
                    let sk = if np || i.3 == 0 { 0 } else { rng.below(i.3) };
                    lines.push(format!("dfi i={} d={} np={} sk={sk}", show_instr(i), rng.below(i.3 + 3), np as u8));
                }
            }
        }
        // map_range on every chunk: a consistent (range, preamble action)
        for (ci, c) in chunks.iter().enumerate() {
            let has_pre = !c[0].0;
            let rows_here = c.iter().filter(|e| e.0).count() as u64;
            let act = if has_pre { 1 + rng.below(2) } else { 0 };
            let with_def = rng.chance(2, 3);
            let vis: Vec<bool> = c.iter().map(|e| !with_def || e.1).collect();
            let total = vis.iter().filter(|v| **v).count();
            let (s, e) = if rows_here == 0 {
                (0, 0)
            } else if act == 2 {
                (0, rng.below(rows_here + 1))
            } else {
                let s = rng.below(rows_here);
                (s, rng.range(s + 1, rows_here))
            };
            if rows_here == 0 && act != 2 {
                continue; // an all-preamble chunk is only ever read with Take
            }
            let _ = ci;
            lines.push(format!(
                "mr rep={} def={} r={s}-{e} total={total} act={act}",
                c.iter().map(|e| if e.0 { '1' } else { '0' }).collect::<String>(),
                if with_def { vis.iter().map(|v| if *v { '1' } else { '0' }).collect::<String>() } else { "-".into() },
            ));
        }
    }
    lines
}

// ---------------------------------------------------------------- requests

#[derive(Clone, Debug)]
enum Req {
    Full,
    Range(u64, u64),
    To(u64),
    From(u64),
    Ranges(Vec<(u64, u64)>),
    Indices(Vec<u64>),
}

fn parse_ranges(s: &str) -> Option<Vec<(u64, u64)>> {
    if s == "-" {
        return Some(vec![]);
    }
    s.split(',')
        .map(|t| {
            let (a, b) = t.split_once('-')?;
            Some((a.parse().ok()?, b.parse().ok()?))
        })
        .collect()
}

fn show_ranges(rs: &[(u64, u64)]) -> String {
    if rs.is_empty() {
        "-".into()
    } else {
        rs.iter().map(|(a, b)| format!("{a}-{b}")).collect::<Vec<_>>().join(",")
    }
}

impl Req {
    fn show(&self) -> String {
        match self {
            Req::Full => "full".into(),
            Req::Range(s, e) => format!("range {s} {e}"),
            Req::To(e) => format!("to {e}"),
            Req::From(s) => format!("from {s}"),
            Req::Ranges(rs) => format!("ranges {}", show_ranges(rs)),
            Req::Indices(is) => format!("indices {}", show_nat_list(is.iter().copied())),
        }
    }
    /// the rows the request denotes, or None when it is outside the file / violates the documented preconditions
    fn rows(&self, n: u64) -> Option<Vec<u64>> {
        match self {
            Req::Full => Some((0..n).collect()),
            Req::Range(s, e) => (s <= e && *e <= n).then(|| (*s..*e).collect()),
            Req::To(e) => (*e <= n).then(|| (0..*e).collect()),
            Req::From(s) => (*s < n).then(|| (*s..n).collect()),
            Req::Ranges(rs) => {
                let ne: Vec<&(u64, u64)> = rs.iter().filter(|(a, b)| a < b).collect();
                let sorted = ne.windows(2).all(|w| w[0].1 <= w[1].0 + 1);
                (rs.iter().all(|(a, b)| a <= b && *b <= n) && sorted).then(|| rs.iter().flat_map(|(a, b)| *a..*b).collect())
            }
            Req::Indices(is) => (is.iter().all(|i| *i < n) && is.windows(2).all(|w| w[0] <= w[1])).then(|| is.clone()),
        }
    }
    /// requests `read_tasks` must reject
    fn out_of_bounds(&self, n: u64) -> bool {
        match self {
            Req::Full => false,
            Req::Range(_, e) | Req::To(e) => *e > n,
            Req::From(s) => *s >= n,
            Req::Ranges(rs) => rs.iter().any(|(_, b)| *b > n),
            Req::Indices(is) => is.iter().any(|i| *i >= n),
        }
    }
    fn params(&self) -> ReadBatchParams {
        match self {
            Req::Full => ReadBatchParams::RangeFull,
            Req::Range(s, e) => ReadBatchParams::Range(*s as usize..*e as usize),
            Req::To(e) => ReadBatchParams::RangeTo(..*e as usize),
            Req::From(s) => ReadBatchParams::RangeFrom(*s as usize..),
            Req::Ranges(rs) => ReadBatchParams::Ranges(rs.iter().map(|(a, b)| *a..*b).collect::<Vec<Range<u64>>>().into()),
            Req::Indices(is) => ReadBatchParams::Indices(UInt32Array::from(is.iter().map(|i| *i as u32).collect::<Vec<_>>())),
        }
    }
}

fn parse_read(toks: &[&str]) -> Option<(Req, u32, Vec<usize>)> {
    let bs = toks.iter().find_map(|t| t.strip_prefix("bs="))?.parse().ok()?;
    let proj = parse_nat_list(toks.iter().find_map(|t| t.strip_prefix("proj="))?)?.into_iter().map(|x| x as usize).collect();
    let args: Vec<&str> = toks.iter().copied().filter(|t| !t.starts_with("bs=") && !t.starts_with("proj=")).collect();
    let req = match args.as_slice() {
        ["full"] => Req::Full,
        ["range", s, e] => Req::Range(s.parse().ok()?, e.parse().ok()?),
        ["to", e] => Req::To(e.parse().ok()?),
        ["from", s] => Req::From(s.parse().ok()?),
        ["ranges", rs] => Req::Ranges(parse_ranges(rs)?),
        ["indices", is] => Req::Indices(parse_nat_list(is)?),
        _ => return None,
    };
    Some((req, bs, proj))
}

/// the sub-schema that holds exactly the leaves `proj` (leaf indices, DFS numbering of the file schema) in that
/// order; None when the order is not the DFS order of any schema (a struct would have to appear twice)
fn project_nodes(top: &[Node], proj: &[usize]) -> Option<Vec<Node>> {
    // path of node ids from the top to each leaf
    fn paths(n: &Node, cur: &mut Vec<i32>, out: &mut Vec<Vec<i32>>) {
        cur.push(n.id);
        match &n.ty {
            Ty::List(c) | Ty::LList(c) => paths(c, cur, out),
            Ty::Struct(ch) => ch.iter().for_each(|c| paths(c, cur, out)),
            _ => out.push(cur.clone()),
        }
        cur.pop();
    }
    fn find<'a>(nodes: &'a [Node], id: i32) -> Option<&'a Node> {
        nodes.iter().find(|n| n.id == id)
    }
    fn children(n: &Node) -> Vec<Node> {
        match &n.ty {
            Ty::List(c) | Ty::LList(c) => vec![(**c).clone()],
            Ty::Struct(ch) => ch.clone(),
            _ => vec![],
        }
    }
    fn set_children(n: &mut Node, ch: Vec<Node>) {
        match &mut n.ty {
            Ty::List(c) | Ty::LList(c) => **c = ch.into_iter().next().unwrap(),
            Ty::Struct(c) => *c = ch,
            _ => {}
        }
    }
    fn insert(out: &mut Vec<Node>, src: &[Node], path: &[i32]) -> bool {
        let id = path[0];
        let Some(srcn) = find(src, id) else { return false };
        let last_is = out.last().map(|n| n.id == id).unwrap_or(false);
        if !last_is {
            if out.iter().any(|n| n.id == id) {
                return false;
            }
            let mut n = srcn.clone();
            if !is_leaf(&n) {
                set_children_empty(&mut n);
            }
            out.push(n);
        } else if path.len() == 1 {
            return false; // the same leaf twice
        }
        if path.len() > 1 {
            let n = out.last_mut().unwrap();
            let mut ch = match &n.ty {
                Ty::Struct(c) => c.clone(),
                Ty::List(c) | Ty::LList(c) => {
                    if c.id < 0 {
                        vec![]
                    } else {
                        vec![(**c).clone()]
                    }
                }
                _ => vec![],
            };
            if !insert(&mut ch, &children(srcn), &path[1..]) {
                return false;
            }
            set_children(n, ch);
        }
        true
    }
    fn set_children_empty(n: &mut Node) {
        match &mut n.ty {
            Ty::Struct(c) => c.clear(),
            Ty::List(c) | Ty::LList(c) => c.id = -1, // placeholder, replaced by the first insert below it
            _ => {}
        }
    }
    let mut all = vec![];
    for n in top {
        paths(n, &mut vec![], &mut all);
    }
    let mut out: Vec<Node> = vec![];
    for l in proj {
        let p = all.get(*l)?;
        if !insert(&mut out, top, p) {
            return None;
        }
    }
    Some(out)
}

fn lance_schema_of(nodes: &[Node]) -> LanceSchema {
    let arrow = Schema::new(nodes.iter().map(field_of).collect::<Vec<_>>());
    let mut s = LanceSchema::try_from(&arrow).unwrap();
    fn set(f: &mut lance_core::datatypes::Field, n: &Node, parent: i32) {
        f.id = n.id;
        f.parent_id = parent;
        let ch: Vec<&Node> = match &n.ty {
            Ty::List(c) | Ty::LList(c) => vec![c.as_ref()],
            Ty::Struct(c) => c.iter().collect(),
            _ => vec![],
        };
        for (cf, cn) in f.children.iter_mut().zip(ch) {
            set(cf, cn, n.id);
        }
    }
    for (f, n) in s.fields.iter_mut().zip(nodes) {
        set(f, n, -1);
    }
    s
}


/// does the leaf with DFS index `leaf` lie under a list whose items are lists or structs?
fn leaf_under_nested_list(top: &[Node], leaf: usize) -> bool {
    fn rec(n: &Node, under_list: bool, k: &mut usize, leaf: usize, out: &mut bool) {
        match &n.ty {
            Ty::List(c) | Ty::LList(c) => {
                if !is_leaf(c) {
                    // everything below an inner list / struct item is "nested"
                    rec_all(c, k, leaf, out);
                } else {
                    rec(c, true, k, leaf, out)
                }
            }
            Ty::Struct(ch) => ch.iter().for_each(|c| rec(c, under_list, k, leaf, out)),
            _ => {
                *k += 1;
            }
        }
    }
    fn rec_all(n: &Node, k: &mut usize, leaf: usize, out: &mut bool) {
        match &n.ty {
            Ty::List(c) | Ty::LList(c) => rec_all(c, k, leaf, out),
            Ty::Struct(ch) => ch.iter().for_each(|c| rec_all(c, k, leaf, out)),
            _ => {
                if *k == leaf {
                    *out = true;
                }
                *k += 1;
            }
        }
    }
    let mut k = 0;
    let mut out = false;
    for n in top {
        rec(n, false, &mut k, leaf, &mut out);
    }
    out
}


/// leaves (DFS index) that are variable-width, not forced to a structural encoding, and lie under a list that lies
/// under a struct (open finding `fullzip_wide_value_list_under_null_struct`)
fn wide_risk_leaves(top: &[Node]) -> Vec<usize> {
    fn rec(n: &Node, under_struct: bool, list_under_struct: bool, k: &mut usize, out: &mut Vec<usize>) {
        match &n.ty {
            Ty::List(c) | Ty::LList(c) => rec(c, under_struct, list_under_struct || under_struct, k, out),
            Ty::Struct(ch) => ch.iter().for_each(|c| rec(c, true, list_under_struct, k, out)),
            t => {
                if list_under_struct && n.enc.is_none() && matches!(t, Ty::Str | Ty::LStr | Ty::Bin) {
                    out.push(*k);
                }
                *k += 1;
            }
        }
    }
    let mut k = 0;
    let mut out = vec![];
    for n in top {
        rec(n, false, false, &mut k, &mut out);
    }
    out
}

/// the output line a correct read produces: `rows` cut into batches of `bs`, per projected leaf
fn render_expected(rows: &[u64], bs: u32, proj: &[usize], want: &[Vec<String>]) -> String {
    if rows.is_empty() || bs == 0 {
        return "ok n=0".into();
    }
    let batches: Vec<String> = rows
        .chunks(bs as usize)
        .map(|c| proj.iter().map(|l| c.iter().map(|r| want[*l][*r as usize].clone()).collect::<Vec<_>>().join(";")).collect::<Vec<_>>().join("/"))
        .collect();
    format!("ok n={} {}", rows.len(), batches.join(" | "))
}

// ---------------------------------------------------------------- the property

struct C25 {
    rt: tokio::runtime::Runtime,
}

fn err_code(e: &lance_core::Error) -> String {
    match e {
        lance_core::Error::InvalidInput { .. } => "err invalid_input".into(),
        other => {
            let s = other.to_string();
            format!("err other {}", s.chars().take(120).collect::<String>().replace('\n', " "))
        }
    }
}

impl C25 {
    fn do_read(&self, w: &Written, fs: &FileSpec, req: &Req, bs: u32, proj: &[usize], li: usize, res: &mut CaseResult) -> String {
        let nleaves = w.pages.len();
        let n = fs.rows as u64;
        // the projection handed to the reader
        let valid_proj = !proj.is_empty()
            && proj.iter().all(|i| *i < nleaves)
            && (1..proj.len()).all(|i| !proj[..i].contains(&proj[i]));
        let nodes = if valid_proj { project_nodes(&fs.top, proj) } else { None };
        if valid_proj && nodes.is_none() {
            return "bad-proj".into();
        }
        let projection = match &nodes {
            Some(nodes) => {
                let schema = lance_schema_of(nodes);
                match ReaderProjection::from_field_ids(fs.version, &schema, &w.field_map) {
                    Ok(p) => p,
                    Err(e) => return err_code(&e),
                }
            }
            None => {
                // malformed projection: column indices as given (a leaf's column), schema of the first leaves
                let lv = leaves(&fs.top);
                let column_indices: Vec<u32> = proj
                    .iter()
                    .map(|i| lv.get(*i).and_then(|(_, id)| w.field_map.get(&(*id as u32)).copied()).unwrap_or(1000 + *i as u32))
                    .collect();
                let schema = if proj.is_empty() { LanceSchema::default() } else { w.lance_schema.clone() };
                ReaderProjection { schema: Arc::new(schema), column_indices }
            }
        };
        let reader = &w.reader;
        let params = req.params();
        let run = |params: ReadBatchParams, projection: ReaderProjection| {
            catch_unwind(AssertUnwindSafe(|| {
                self.rt.block_on(async {
                    let stream = reader.read_stream_projected(params, bs, 2, projection, FilterExpression::no_filter())?;
                    stream.try_collect::<Vec<RecordBatch>>().await
                })
            }))
        };
        // every request is issued twice through the same metadata cache: the cache must be transparent
        let first = run(params.clone(), projection.clone());
        let out = run(params, projection);
        let same = match (&first, &out) {
            (Ok(Ok(a)), Ok(Ok(b))) => a == b,
            (Ok(Err(a)), Ok(Err(b))) => err_code(a).split(' ').take(2).collect::<Vec<_>>() == err_code(b).split(' ').take(2).collect::<Vec<_>>(),
            (Err(_), Err(_)) => true,
            _ => false,
        };
        if !same {
            let show = |r: &std::thread::Result<lance_core::Result<Vec<RecordBatch>>>| match r {
                Ok(Ok(b)) => format!("ok {} rows", b.iter().map(|x| x.num_rows()).sum::<usize>()),
                Ok(Err(e)) => err_code(e),
                Err(_) => "panic".to_string(),
            };
            res.failures.push(OracleFailure {
                what: format!(
                    "read {} bs={bs} proj={proj:?} (cache_repetition_index={}): first read {}, the same read again through the same metadata cache {}",
                    req.show(),
                    fs.crep,
                    show(&first),
                    show(&out)
                ),
                key: Some("cache_not_transparent".into()),
                line: li,
            });
        }
        let expect_rows = if valid_proj && bs > 0 { req.rows(n) } else { None };
        let batches = match out {
            Err(p) => {
                let msg = p
                    .downcast_ref::<String>()
                    .cloned()
                    .or_else(|| p.downcast_ref::<&str>().map(|s| s.to_string()))
                    .unwrap_or_default();
                if expect_rows.is_some() {
                    res.failures.push(OracleFailure {
                        what: format!("valid read {} bs={bs} proj={proj:?} panicked: {msg}", req.show()),
                        key: Some(self.classify(w, fs, "read_panic")),
                        line: li,
                    });
                }
                res.tags.push("out:panic".into());
                return "panic".into();
            }
            Ok(Err(e)) => {
                let code = err_code(&e);
                if let Some(rows) = &expect_rows {
                    // open finding: a full-zip page of wide (>= 256 byte) variable-width values in a list under a struct
                    // that has a null row cannot be decoded
                    let wide = fs.long_strings
                        && fs.nullp > 0
                        && fs.version != LanceFileVersion::V2_0
                        && wide_risk_leaves(&fs.top).iter().any(|l| proj.contains(l) && w.fz_pages[*l].iter().any(|z| *z));
                    res.failures.push(OracleFailure {
                        what: format!("valid read {} bs={bs} proj={proj:?} failed: {e}", req.show()),
                        key: Some(if wide { "fullzip_wide_value_list_under_null_struct".to_string() } else { self.classify(w, fs, "read_error") }),
                        line: li,
                    });
                    if wide {
                        res.tags.push("out:known_wide_fullzip".into());
                        return render_expected(rows, bs, proj, &w.leaf_tokens(fs));
                    }
                }
                res.tags.push(format!("out:{}", code.split(' ').take(2).collect::<Vec<_>>().join("_")));
                return code;
            }
            Ok(Ok(b)) => b,
        };
        // leaf paths inside the projected schema
        let nodes = nodes.unwrap_or_default();
        let plv = leaves(&nodes);
        let mut shown = vec![];
        let mut got: Vec<Vec<String>> = vec![vec![]; plv.len()];
        let mut total = 0usize;
        for b in &batches {
            let mut cols = vec![];
            for (k, (path, _)) in plv.iter().enumerate() {
                let a = b.column(path[0]);
                let toks: Vec<String> = (0..b.num_rows()).map(|i| render_leaf(a.as_ref(), i, &path[1..])).collect();
                cols.push(if toks.is_empty() { "-".to_string() } else { toks.join(";") });
                got[k].extend(toks);
            }
            total += b.num_rows();
            shown.push(cols.join("/"));
        }
        let line = if batches.is_empty() { "ok n=0".to_string() } else { format!("ok n={total} {}", shown.join(" | ")) };
        res.tags.push("out:ok".into());
        // ---- oracle
        if !valid_proj {
            res.failures.push(OracleFailure {
                what: format!("read with projection {proj:?} (empty / repeated / unknown column) was accepted"),
                key: Some("bad_projection_accepted".into()),
                line: li,
            });
        } else if req.out_of_bounds(n) {
            res.failures.push(OracleFailure {
                what: format!("read {} on a file with {n} rows was accepted", req.show()),
                key: Some("out_of_bounds_accepted".into()),
                line: li,
            });
        } else if let Some(rows) = expect_rows {
            let want = w.leaf_tokens(fs);
            // open finding: a 2.0 file, an index list with a repeated row, a leaf below a list of lists / structs
            let legacy_repeat = fs.version == LanceFileVersion::V2_0
                && matches!(req, Req::Indices(is) if is.windows(2).any(|w| w[0] == w[1]))
                && proj.iter().any(|l| leaf_under_nested_list(&fs.top, *l));
            for (k, l) in proj.iter().enumerate() {
                let exp: Vec<&String> = rows.iter().map(|r| &want[*l][*r as usize]).collect();
                if got[k].len() != exp.len() || got[k].iter().zip(&exp).any(|(a, b)| a != *b) {
                    let at = got[k].iter().zip(&exp).position(|(a, b)| a != *b).unwrap_or(got[k].len().min(exp.len()));
                    res.failures.push(OracleFailure {
                        what: format!(
                            "read {} bs={bs} proj={proj:?}: leaf {l} returned {} rows, expected {}; first difference at output row {at}: got {:?}, written {:?}",
                            req.show(),
                            got[k].len(),
                            exp.len(),
                            got[k].get(at),
                            exp.get(at)
                        ),
                        key: Some(if legacy_repeat { "legacy20_repeated_indices_nested".to_string() } else { self.classify(w, fs, "rows_differ") }),
                        line: li,
                    });
                    if legacy_repeat {
                        // recorded defect: print what a correct read returns so that the comparison with the model
                        // stays about everything else (the failure itself is reported through the oracle)
                        return render_expected(&rows, bs, proj, &want);
                    }
                    break;
                }
            }
            // batch shape
            let sizes: Vec<usize> = batches.iter().map(|b| b.num_rows()).collect();
            let ok_shape = sizes.iter().all(|s| *s > 0 && *s <= bs as usize)
                && sizes.iter().rev().skip(1).all(|s| *s == bs as usize)
                && sizes.iter().sum::<usize>() == rows.len();
            if !ok_shape {
                res.failures.push(OracleFailure {
                    what: format!("read {} bs={bs}: batch sizes {sizes:?} for {} requested rows", req.show(), rows.len()),
                    key: Some("batch_shape".into()),
                    line: li,
                });
            }
            // types of the projected top-level fields
            if let Some(b) = batches.first() {
                let want_schema = Schema::new(nodes.iter().map(field_of).collect::<Vec<_>>());
                for (f, g) in b.schema().fields().iter().zip(want_schema.fields()) {
                    if f.data_type() != g.data_type() || f.name() != g.name() {
                        res.failures.push(OracleFailure {
                            what: format!("field {} read back as {:?}, written as {:?}", g.name(), f.data_type(), g.data_type()),
                            key: Some("type_differs".into()),
                            line: li,
                        });
                    }
                }
            }
        }
        line
    }

    fn classify(&self, w: &Written, fs: &FileSpec, dflt: &str) -> String {
        if w.hits_complex_all_null(fs) {
            "complex_all_null_levels_per_row".into()
        } else {
            dflt.into()
        }
    }

    fn do_sched(&self, w: &Written, fs: &FileSpec, leaf: usize, rs: &[(u64, u64)]) -> String {
        if fs.version == LanceFileVersion::V2_0 {
            return "bad-op".into();
        }
        let Some(nodes) = project_nodes(&fs.top, &[leaf]) else { return "bad-op".into() };
        let schema = lance_schema_of(&nodes);
        let Ok(projection) = ReaderProjection::from_field_ids(fs.version, &schema, &w.field_map) else { return "bad-op".into() };
        let ranges: Vec<Range<u64>> = rs.iter().filter(|(a, b)| a < b).map(|(a, b)| *a..*b).collect();
        let meta = w.reader.metadata().clone();
        let out = catch_unwind(AssertUnwindSafe(|| {
            self.rt.block_on(async {
                let fsched = w.sched.open_file(&w.path, &CachedFileSize::unknown()).await?;
                let io: Arc<dyn lance_encoding::EncodingsIo> = Arc::new(LanceEncodingsIo::new(fsched));
                let filter = FilterExpression::no_filter();
                let mut s = DecodeBatchScheduler::try_new(
                    &schema,
                    &projection.column_indices,
                    &meta.column_infos,
                    &vec![],
                    meta.num_rows,
                    Arc::<DecoderPlugins>::default(),
                    io.clone(),
                    Arc::new(LanceCache::no_cache()),
                    &filter,
                    &DecoderConfig::default(),
                )
                .await?;
                let msgs = s.schedule_ranges_to_vec(&ranges, &filter, io, None)?;
                Ok::<_, lance_core::Error>(msgs.iter().map(|m| m.scheduled_so_far).collect::<Vec<u64>>())
            })
        }));
        match out {
            Err(_) => "panic".into(),
            Ok(Err(e)) => err_code(&e),
            Ok(Ok(v)) => format!("s={}", show_nat_list(v)),
        }
    }
}

const SPECS: &[&str] = &[
    "S(i32)",
    "S(i64,str)",
    "S(f32,bool,bin)",
    "S(lstr,fsb3)",
    "S(fsl3i,i32)",
    "S(fsl2f)",
    "S(dict,i32)",
    "S(L(i32))",
    "S(L(str),i64)",
    "S(LL(i64))",
    "S(L(L(i32)))",
    "S(S(i32,str))",
    "S(S(i32,L(str)),bool)",
    "S(L(S(i32,str)))",
    "S(L(S(i64,L(i32))),i32)",
    "S(S(S(i32,f32),L(bool)),str)",
    "S(i32@m,str@m)",
    "S(i32@z)",
    "S(str@z,i64)",
    "S(L(i32@z))",
    "S(L(S(i32@m,str@m)))",
    "S(L(dict),fsb2)",
    "S(S(fsl2i,L(fsb2)))",
    "S(LL(L(str)))",
    "S(L(bin),L(L(i64)),S(i32))",
    "S(L(str@z),i32)",
    "S(LL(i64@z))",
    "S(L(S(i32@z,bin@z)))",
    "S(bin@z,L(L(str@z)))",
];

fn random_spec(rng: &mut Rng) -> String {
    fn leaf(rng: &mut Rng) -> String {
        let base = ["i32", "i64", "f32", "str", "lstr", "bin", "fsb2", "bool", "fsl2i", "fsl3f", "dict"];
        let b = base[rng.usize(base.len())].to_string();
        match rng.below(10) {
            0 => format!("{b}@m"),
            1 | 2 if ["i32", "i64", "str", "lstr", "bin", "fsb2"].contains(&b.as_str()) => format!("{b}@z"),
            _ => b,
        }
    }
    fn node(rng: &mut Rng, depth: usize) -> String {
        if depth == 0 || rng.chance(1, 2) {
            return leaf(rng);
        }
        match rng.below(5) {
            0 | 1 => format!("L({})", node(rng, depth - 1)),
            2 => format!("LL({})", node(rng, depth - 1)),
            _ => {
                let k = rng.range(1, 3);
                format!("S({})", (0..k).map(|_| node(rng, depth - 1)).collect::<Vec<_>>().join(","))
            }
        }
    }
    let k = rng.range(1, 3);
    format!("S({})", (0..k).map(|_| node(rng, 3)).collect::<Vec<_>>().join(","))
}

fn gen_request(rng: &mut Rng, n: u64, malformed: bool) -> Req {
    if malformed {
        return match rng.below(5) {
            0 => Req::Range(rng.below(n + 1), n + 1 + rng.below(3)),
            1 => Req::To(n + 1 + rng.below(3)),
            2 => Req::From(n + rng.below(3)),
            3 => Req::Ranges(vec![(0, n.min(1)), (n, n + 1)]),
            _ => Req::Indices(vec![n / 2, n + rng.below(2)]),
        };
    }
    if n == 0 {
        return match rng.below(4) {
            0 => Req::Full,
            1 => Req::Range(0, 0),
            2 => Req::To(0),
            _ => Req::Ranges(vec![]),
        };
    }
    match rng.below(9) {
        0 => Req::Full,
        1 => {
            let s = rng.below(n + 1);
            Req::Range(s, rng.range(s, n))
        }
        2 => Req::To(rng.below(n + 1)),
        3 => Req::From(rng.below(n)),
        4 | 5 | 6 => {
            // sorted ranges, some empty, some adjacent
            let k = rng.range(1, 6);
            let mut cuts: Vec<u64> = (0..2 * k).map(|_| rng.below(n + 1)).collect();
            cuts.sort();
            let mut rs: Vec<(u64, u64)> = cuts.chunks(2).map(|c| (c[0], c[1])).collect();
            if rng.chance(1, 6) {
                rs.push((n, n));
            }
            Req::Ranges(rs)
        }
        _ => {
            let k = rng.range(1, 12.min(n + 3));
            let mut is: Vec<u64> = (0..k).map(|_| rng.below(n)).collect();
            if rng.chance(1, 2) {
                // clustered: runs of consecutive rows
                let base = rng.below(n);
                is = (0..k).map(|j| (base + j + if rng.chance(1, 4) { 2 } else { 0 }).min(n - 1)).collect();
            }
            is.sort();
            if rng.chance(2, 3) {
                is.dedup();
            }
            Req::Indices(is)
        }
    }
}

impl Prop for C25 {
    fn id(&self) -> &'static str {
        "C25"
    }
    fn budget(&self, tier: Tier) -> usize {
        match tier {
            Tier::Quick => 400,
            Tier::Thorough => 12000,
            Tier::Search => 3000,
        }
    }
    fn gen_case(&mut self, rng: &mut Rng, _tier: Tier, idx: usize) -> Vec<String> {
        if idx % 7 == 6 && idx % 30 != 13 {
            return hook_case(rng);
        }
        for _attempt in 0..20 {
            let spec = if idx < SPECS.len() * 3 { SPECS[idx % SPECS.len()].to_string() } else if rng.chance(1, 3) { rng.pick(SPECS).to_string() } else { random_spec(rng) };
            let Some(top) = parse_spec(&spec) else { continue };
            let big = idx % 40 == 39;
            let rows = if big {
                rng.range(1500, 6000) as usize
            } else {
                match rng.below(12) {
                    0 => rng.range(0, 2) as usize,
                    1 | 2 => rng.range(100, 400) as usize,
                    _ => rng.range(3, 60) as usize,
                }
            };
            let vtxt = match idx % 5 {
                0 => "2.0",
                1 | 2 => "2.1",
                _ => "2.2",
            };
            let zrisk = has_fullzip_risk(&top);
            let long_strings = !zrisk && rng.chance(1, 8) && !big;
            let wide_risk = !wide_risk_leaves(&top).is_empty();
            // write batches
            let mut batches = vec![];
            let mut left = rows;
            while left > 0 {
                let b = if rng.chance(1, 3) { left } else { rng.range(0, left as u64) as usize };
                batches.push(b);
                left -= b;
                if batches.len() > 12 {
                    batches.push(left);
                    left = 0;
                }
            }
            if rows == 0 && rng.chance(1, 2) {
                batches.push(0);
            }
            let fs = FileSpec {
                version: match vtxt {
                    "2.0" => LanceFileVersion::V2_0,
                    "2.1" => LanceFileVersion::V2_1,
                    _ => LanceFileVersion::V2_2,
                },
                vtxt: vtxt.into(),
                rows,
                top,
                spec,
                seed: rng.next_u64() >> 16,
                nullp: if long_strings && wide_risk { 0 } else { *rng.pick(&[0, 1, 3, 6, 16]) },
                maxlen: if big { 3 } else { *rng.pick(&[2, 5, 40]) },
                long_strings,
                batches,
                cache: *rng.pick(&[Some(1), Some(1), Some(64), Some(4096), None]),
                maxpage: if zrisk || long_strings { None } else { *rng.pick(&[None, None, Some(64), Some(1024), Some(16384)]) },
                slice: *rng.pick(&[0, 0, 1, 7]),
                crep: if zrisk || long_strings { !rng.chance(1, 4) } else { rng.chance(1, 3) },
                fixlen: 0,
            };
            let mut fs = fs;
            let boundary = idx % 30 == 13;
            if boundary {
                // "offset-width boundary" family: a fixed-width full-zip list page whose value bytes stay just below 2^8 /
                // 2^16 while values + one control word per item land just above (and the two controls around it)
                let k = idx / 30;
                // (item width in bytes, items per row, rows): value bytes / zipped bytes with 1-byte control words
                let cfgs: [(u64, u64, usize); 6] = [
                    (1008, 5, 13), // 65520 / 65585
                    (1008, 5, 12), // 60480 / 60540  both below 2^16
                    (1008, 5, 14), // 70560 / 70630  both above
                    (63, 1, 4),    // 252 / 256
                    (63, 1, 3),    // 189 / 192      both below 2^8
                    (63, 1, 5),    // 315 / 320      both above
                ];
                let (wd, per, rows) = cfgs[k % 6];
                let spec = if (k / 6) % 2 == 0 { format!("S(L(fsb{wd}@z))") } else { format!("S(L(fsl{}i@z))", wd / 4) };
                let spec = if wd == 63 && (k / 6) % 2 == 1 { "S(LL(fsb63@z))".to_string() } else { spec };
                fs.top = parse_spec(&spec).unwrap();
                fs.spec = spec;
                fs.rows = rows;
                fs.batches = vec![rows];
                fs.nullp = 0;
                fs.fixlen = per;
                fs.cache = None;
                fs.maxpage = None;
                fs.slice = 0;
                fs.long_strings = false;
                fs.crep = k % 2 == 0;
                if fs.version == LanceFileVersion::V2_0 {
                    fs.version = LanceFileVersion::V2_1;
                    fs.vtxt = "2.1".into();
                }
            }
            let rows = fs.rows;
            let w = match write_file(&self.rt, &fs) {
                Ok(w) => w,
                Err(_) => continue, // the writer rejected the data (not this property's concern): draw again
            };
            if w.hits_complex_all_null(&fs) {
                continue; // open finding of C27; avoided here, tagged if a corpus case hits it
            }
            let nleaves = w.pages.len();
            let mut lines = vec![fs.line(nleaves)];
            let toks = w.leaf_tokens(&fs);
            for k in 0..nleaves {
                lines.push(format!(
                    "leaf {k} pages={} rows={}",
                    show_nat_list(w.pages[k].iter().copied()),
                    if toks[k].is_empty() { "-".to_string() } else { toks[k].join(";") }
                ));
            }
            lines.push("meta".into());
            if boundary {
                lines.push("read full bs=1024 proj=0".into());
                lines.push(format!("read range {} {} bs=2 proj=0", fs.rows.saturating_sub(2), fs.rows));
                lines.push(format!("read indices {} bs=1 proj=0", fs.rows - 1));
            }
            let n = rows as u64;
            let nreads = if big { 4 } else { rng.range(3, 8) };
            for _ in 0..nreads {
                let malformed = rng.chance(1, 8);
                let mal_req = malformed && rng.chance(2, 3);
                let req = gen_request(rng, n, mal_req);
                // open finding legacy20_repeated_indices_nested: the 2.0 reader mishandles (or aborts on) repeated indices
                let req = match req {
                    Req::Indices(mut is) if fs.version == LanceFileVersion::V2_0 && !mal_req => {
                        is.dedup();
                        Req::Indices(is)
                    }
                    r => r,
                };
                let bs = if malformed && rng.chance(1, 6) {
                    0
                } else {
                    match rng.below(6) {
                        0 => 1,
                        1 => 1024,
                        2 => rng.range(1, n.max(1)) as u32,
                        _ => rng.range(1, 9) as u32,
                    }
                };
                // projection: a subset of the leaves in an order some schema has (top-level fields may be permuted)
                let mut proj: Vec<usize> = (0..nleaves).filter(|_| rng.chance(2, 3)).collect();
                if proj.is_empty() {
                    proj.push(rng.usize(nleaves));
                }
                if rng.chance(1, 3) {
                    // permute whole top-level fields
                    let lv = leaves(&fs.top);
                    let mut groups: Vec<Vec<usize>> = vec![];
                    for p in &proj {
                        match groups.last_mut() {
                            Some(g) if lv[g[0]].0[0] == lv[*p].0[0] => g.push(*p),
                            _ => groups.push(vec![*p]),
                        }
                    }
                    for i in (1..groups.len()).rev() {
                        let j = rng.usize(i + 1);
                        groups.swap(i, j);
                    }
                    proj = groups.into_iter().flatten().collect();
                }
                if malformed && rng.chance(1, 3) {
                    proj = match rng.below(3) {
                        0 => vec![],
                        1 => vec![proj[0], proj[0]],
                        _ => vec![nleaves + rng.usize(2)],
                    };
                }
                if big && rng.chance(1, 2) {
                    proj.truncate(1);
                }
                lines.push(format!("read {} bs={bs} proj={}", req.show(), show_nat_list(proj.iter().map(|x| *x as u64))));
            }
            if fs.version != LanceFileVersion::V2_0 && n > 0 {
                for _ in 0..2 {
                    if let Req::Ranges(rs) = gen_request(rng, n, false) {
                        lines.push(format!("sched {} {}", rng.usize(nleaves), show_ranges(&rs)));
                    } else {
                        let s = rng.below(n);
                        lines.push(format!("sched {} {}", rng.usize(nleaves), show_ranges(&[(s, rng.range(s, n))])));
                    }
                }
            }
            // reads that include the last row of a full-zip page (its closing repetition-index entry), issued after the
            // reads above have filled the metadata cache
            for k in 0..nleaves {
                let mut at = 0u64;
                let mut lasts: Vec<u64> = vec![];
                for (p, nrows) in w.pages[k].iter().enumerate() {
                    at += *nrows;
                    if w.fz_pages[k][p] && *nrows > 0 {
                        lasts.push(at - 1);
                    }
                }
                if lasts.is_empty() {
                    continue;
                }
                lasts.truncate(12);
                lines.push(format!("read indices {} bs={} proj={k}", show_nat_list(lasts.iter().copied()), rng.range(1, 5)));
                let l = lasts[rng.usize(lasts.len())];
                lines.push(format!("read range {} {} bs=4 proj={k}", l.saturating_sub(rng.below(4)), l + 1));
                lines.push(format!("read indices {} bs=2 proj={k}", show_nat_list(lasts.iter().copied())));
            }
            // reads aimed at the rows that cross or touch a mini-block chunk boundary (trailer / preamble logic)
            let mut edge_rows: Vec<u64> = vec![];
            for (k, (path, _)) in leaves(&fs.top).iter().enumerate() {
                let mut at = 0usize;
                for (p, nrows) in w.pages[k].iter().enumerate() {
                    if let Some((levels, _)) = &w.mb_pages[k][p] {
                        if levels.len() > 1 {
                            let a = &w.cols[path[0]];
                            let mut bounds: Vec<u64> = vec![];
                            let mut acc = 0u64;
                            for l in &levels[..levels.len() - 1] {
                                acc += *l;
                                bounds.push(acc);
                            }
                            let mut lv = 0u64;
                            let mut bi = 0usize;
                            for i in at..at + *nrows as usize {
                                let k2 = row_levels(a.as_ref(), i, &path[1..]).0 as u64;
                                while bi < bounds.len() && bounds[bi] <= lv {
                                    bi += 1;
                                }
                                // the row owns levels lv .. lv + k2: a boundary inside it or right behind it
                                if bi < bounds.len() && bounds[bi] <= lv + k2 {
                                    edge_rows.push(i as u64);
                                    if i + 1 < fs.rows {
                                        edge_rows.push(i as u64 + 1);
                                    }
                                }
                                lv += k2;
                            }
                        }
                    }
                    at += *nrows as usize;
                }
            }
            edge_rows.sort();
            edge_rows.dedup();
            if !edge_rows.is_empty() {
                let pick: Vec<u64> = if edge_rows.len() > 16 {
                    let st = rng.usize(edge_rows.len() - 16);
                    edge_rows[st..st + 16].to_vec()
                } else {
                    edge_rows.clone()
                };
                let all: Vec<u64> = (0..nleaves as u64).collect();
                lines.push(format!("read indices {} bs={} proj={}", show_nat_list(pick.iter().copied()), rng.range(1, 5), show_nat_list(all.iter().copied())));
                let rs: Vec<(u64, u64)> = pick.iter().step_by(2).map(|r| (r.saturating_sub(rng.below(3)), *r + 1)).collect();
                let mut rs2: Vec<(u64, u64)> = vec![];
                for (a, b) in rs {
                    let a = rs2.last().map(|l: &(u64, u64)| a.max(l.1)).unwrap_or(a);
                    if a < b {
                        rs2.push((a, b));
                    }
                }
                lines.push(format!("read ranges {} bs={} proj={}", show_ranges(&rs2), rng.range(1, 7), show_nat_list(all.iter().copied())));
                lines.push(format!("read range {} {} bs=3 proj={}", pick[0], pick[pick.len() - 1] + 1, show_nat_list(all.iter().copied())));
            }
            // the repetition index the writer stored for (up to three) mini-block pages
            let mut probes = 0;
            for (k, (path, _)) in leaves(&fs.top).iter().enumerate() {
                let mut at = 0usize;
                for (p, nrows) in w.pages[k].iter().enumerate() {
                    if let Some((levels, _)) = &w.mb_pages[k][p] {
                        if probes < 3 {
                            let a = &w.cols[path[0]];
                            let rowlv: Vec<u64> = (at..at + *nrows as usize).map(|i| row_levels(a.as_ref(), i, &path[1..]).0 as u64).collect();
                            lines.push(format!("repidx {k} {p} levels={} rowlv={}", show_nat_list(levels.iter().copied()), show_nat_list(rowlv)));
                            probes += 1;
                        }
                    }
                    at += *nrows as usize;
                }
            }
            return lines;
        }
        vec!["meta".into()]
    }

    fn exec_case(&mut self, lines: &[String]) -> CaseResult {
        let mut res = CaseResult::default();
        let mut cur: Option<(FileSpec, Written)> = None;
        for (li, line) in lines.iter().enumerate() {
            let toks: Vec<&str> = line.split_whitespace().collect();
            let out = match toks.first().copied() {
                Some("file") => match FileSpec::parse(line) {
                    None => {
                        cur = None;
                        "bad-op".to_string()
                    }
                    Some(fs) => match write_file(&self.rt, &fs) {
                        Err(e) => {
                            res.failures.push(OracleFailure { what: format!("writing the file failed: {e}"), key: Some("write_failed".into()), line: li });
                            cur = None;
                            format!("err write {}", e.chars().take(80).collect::<String>())
                        }
                        Ok(w) => {
                            res.tags.push(format!("v:{}", fs.vtxt));
                            res.tags.push(format!("leaves:{}", w.pages.len().min(6)));
                            for l in &w.layouts {
                                res.tags.push(format!("layout:{l}"));
                            }
                            let maxp = w.pages.iter().map(|p| p.len()).max().unwrap_or(0);
                            res.tags.push(format!("pages:{}", if maxp <= 1 { "1" } else if maxp <= 4 { "2-4" } else { "5+" }));
                            if maxp > 1 {
                                res.nontrivial = true;
                            }
                            let declared = toks.iter().find_map(|t| t.strip_prefix("ncols=")).and_then(|s| s.parse::<usize>().ok());
                            let o = if declared == Some(w.pages.len()) { "ok".to_string() } else { format!("ncols-differ actual={}", w.pages.len()) };
                            cur = Some((fs, w));
                            o
                        }
                    },
                },
                Some("leaf") => match (&cur, toks.as_slice()) {
                    (Some((fs, w)), [_, k, pages, rows]) => {
                        let k: usize = k.parse().unwrap_or(usize::MAX);
                        if k >= w.pages.len() {
                            "bad-layout".into()
                        } else {
                            let want_pages = format!("pages={}", show_nat_list(w.pages[k].iter().copied()));
                            let t = &w.leaf_tokens(fs)[k];
                            let want_rows = format!("rows={}", if t.is_empty() { "-".to_string() } else { t.join(";") });
                            if *pages != want_pages {
                                format!("pages-differ actual={want_pages}")
                            } else if *rows != want_rows {
                                "rows-differ".into()
                            } else {
                                "ok".into()
                            }
                        }
                    }
                    _ => "bad-op".into(),
                },
                Some("meta") => match &cur {
                    Some((fs, w)) => {
                        let r = &w.reader;
                        let nr = r.num_rows();
                        if nr != fs.rows as u64 {
                            res.failures.push(OracleFailure { what: format!("num_rows {nr}, written {}", fs.rows), key: Some("row_count".into()), line: li });
                        }
                        // the schema read back from the footer equals the schema written (names, types, ids, nullability)
                        let got = ArrowSchemaOf(r.schema().as_ref());
                        let want = ArrowSchemaOf(&w.lance_schema);
                        if got != want || r.schema().fields.iter().map(|f| f.id).collect::<Vec<_>>() != w.lance_schema.fields.iter().map(|f| f.id).collect::<Vec<_>>() {
                            res.failures.push(OracleFailure { what: "schema read back differs from the schema written".into(), key: Some("schema".into()), line: li });
                        }
                        format!("rows={nr} cols={}", w.pages.len())
                    }
                    None => "rows=0 cols=0".into(),
                },
                Some("read") => match (&cur, parse_read(&toks[1..])) {
                    (Some((fs, w)), Some((req, bs, proj))) => {
                        res.tags.push(format!("req:{}", req.show().split(' ').next().unwrap()));
                        self.do_read(w, fs, &req, bs, &proj, li, &mut res)
                    }
                    _ => "bad-op".into(),
                },
                Some("sched") => match (&cur, toks.as_slice()) {
                    (Some((fs, w)), [_, k, rs]) => match (k.parse::<usize>(), parse_ranges(rs)) {
                        (Ok(k), Some(rs)) if k < w.pages.len() => {
                            res.tags.push("req:sched".into());
                            self.do_sched(w, fs, k, &rs)
                        }
                        _ => "bad-op".into(),
                    },
                    _ => "bad-op".into(),
                },
                Some("si") | Some("dfi") | Some("mr") => {
                    res.tags.push(format!("hook:{}", toks[0]));
                    res.nontrivial = true;
                    exec_hook_op(&toks).unwrap_or_else(|| "bad-op".into())
                }
                Some("repidx") => match (&cur, toks.as_slice()) {
                    (Some((_, w)), [_, k, p, lv, _rl]) => {
                        let probe = k.parse::<usize>().ok().zip(p.parse::<usize>().ok()).and_then(|(k, p)| w.mb_pages.get(k)?.get(p)?.clone());
                        match probe {
                            Some((levels, ri)) => {
                                res.tags.push("req:repidx".into());
                                if *lv != format!("levels={}", show_nat_list(levels.iter().copied())) {
                                    format!("levels-differ actual={}", show_nat_list(levels.iter().copied()))
                                } else {
                                    format!("ri={}", show_pairs(&ri))
                                }
                            }
                            None => "no-rep-index".into(),
                        }
                    }
                    _ => "bad-op".into(),
                },
                _ => "bad-op".into(),
            };
            res.outputs.push(out);
        }
        res
    }

    fn rule(&self) -> String {
        "schema from a fixed list or random (depth <= 3 under the record: Int32/Int64/Float32/Utf8/LargeUtf8/Binary/FixedSizeBinary/Boolean/FixedSizeList/Dictionary leaves under List/LargeList/Struct, optional forced mini-block / full-zip), seeded data with nulls at every level (density 0..100 %), garbage behind null lists, arrays sliced out of longer ones, 0..13 write batches (some empty), data_cache_bytes in {1,64,4096,default}, max_page_bytes in {64,1024,16384,default}, file versions 2.0/2.1/2.2; per file 3-8 reads (full, range, prefix, suffix, sorted ranges with empty and adjacent ones, sorted indices with repeats; batch sizes 1..1024; projections = subsets of the leaves with permuted top-level fields) of which ~1/8 malformed (out of bounds, batch size 0, empty / repeated / unknown projection column), plus two scan-line probes of a single leaf (2.1+); every 40th case has 1500-6000 rows (several mini-block chunks per page). Non-trivial = some leaf column has more than one page.".into()
    }
}

/// arrow view of a lance schema, for comparison
#[allow(non_snake_case)]
fn ArrowSchemaOf(s: &LanceSchema) -> Schema {
    Schema::from(s)
}

fn main() {
    // helper: expand `file` lines without `leaf` lines (for writing corpus cases by hand)
    if let Ok(p) = std::env::var("C25_EXPAND") {
        let rt = tokio::runtime::Builder::new_multi_thread().worker_threads(2).enable_all().build().unwrap();
        let text = std::fs::read_to_string(p).unwrap();
        for l in text.lines() {
            if l.starts_with("file ") {
                let fs = FileSpec::parse(l).expect("file line");
                let w = write_file(&rt, &fs).expect("write");
                println!("{}", fs.line(w.pages.len()));
                let toks = w.leaf_tokens(&fs);
                for k in 0..w.pages.len() {
                    println!(
                        "leaf {k} pages={} rows={}",
                        show_nat_list(w.pages[k].iter().copied()),
                        if toks[k].is_empty() { "-".to_string() } else { toks[k].join(";") }
                    );
                }
            } else if !l.starts_with("leaf ") {
                println!("{l}");
            }
        }
        return;
    }
    let rt = tokio::runtime::Builder::new_multi_thread().worker_threads(2).enable_all().build().unwrap();
    run_main(C25 { rt })
}
