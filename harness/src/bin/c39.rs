//! C39: the MemWAL index follows its state machine, also under concurrent writers.
//!
//! Interpreter of the C39 op lines against the REAL lance code (`lance::index::mem_wal::*`,
//! `MergeInsertBuilder::mark_mem_wal_as_merged`, `Dataset::write(Append)`, `create_index`) on an in-memory dataset with
//! four `Dataset` handles that go stale unless re-synced, a seeded generator (sequential histories, rounds of 2–3 writers
//! from a common read version in every commit order, an enumerated pair table) and the property oracle.
//!
//! Every case starts from a fresh 5-row table (`c0`,`c1` Int64) at version 1 with all four handles at version 1.
//! Names: region n = "r<n>", owner n = "o<n>", MemTable location n = "mt<n>", WAL location n = "wal<n>".
//!
//! ```text
//! sync h                          handle h := checkout_latest
//! adv h r mt wal exp|- newowner   advance_mem_wal_generation(handle h, region r, mt, wal, expected owner | None, new owner)
//! create h r g mt wal owner       create_mem_wal_generation (unvalidated low-level call; tie only, oracle skips the case)
//! app h r g entry owner           append_mem_wal_entry
//! seal|flush|merge h r g owner    mark_mem_wal_as_sealed / _flushed / _merged
//! own h r g newowner mt|-         update_mem_wal_owner
//! trim h                          trim_mem_wal_index
//! mi h r g owner                  merge_insert of one fresh row with mark_mem_wal_as_merged((r,g), owner), conflict_retries(0)
//! ins h                           merge_insert of one fresh row, conflict_retries(0)
//! appd h                          Dataset::write(Append) of one fresh row through handle h
//! cidx c                          create_index(BTree, name "i<c>", replace) on column c (0|1) through an up-to-date handle
//! ```
//! Output: `ok v=<latest version> rows=<count_rows> mw=<none | - | r/g:S:owner:mt:wal:entries:lu;… in list order> idx=<- | c:dv,…>`
//! (the LATEST table after the op) or `err invalid|not_supported|conflict|retryable|internal|other`; `bad-op` for a line
//! outside the grammar (both sides).
//!
//! Oracle (independent of the Lean model), on the latest MemWAL list after every successful commit:
//! ids unique; only the largest generation of a region may be Open; a generation never moves backwards in
//! Open < Sealed < Flushed < Merged (against the highest state it was ever seen in); a generation that disappeared never
//! comes back; a new id is generation 0 of a region never seen or the successor of the largest generation ever seen;
//! two commits that both touch one generation (added / updated / merged by merge_insert) are never concurrent (the second
//! one's read version older than the first one's commit); `count_rows` is 5 + the number of committed data writes.

use std::collections::{BTreeMap, BTreeSet};
use std::sync::Arc;

use hcommon::*;
use lance::dataset::{MergeInsertBuilder, WhenMatched, WhenNotMatched};
use lance::index::mem_wal::*;
use lance::Dataset;
use lance_index::mem_wal::{MemWalId, MemWalIndexDetails, State, MEM_WAL_INDEX_NAME};
use lance_index::scalar::ScalarIndexParams;
use lance_index::{DatasetIndexExt, IndexType};
use lance_table::format::pb;

#[path = "../tablekit.rs"]
#[allow(dead_code)]
mod tablekit;
use tablekit::*;

const NH: usize = 4;

#[derive(Clone, Debug, PartialEq, Eq)]
struct Rec {
    region: u64,
    gen: u64,
    state: u8,
    owner: String,
    mt: String,
    wal: String,
    entries: Vec<u64>,
    lu: u64,
}

#[derive(Clone, Debug, Default)]
struct View {
    version: u64,
    rows: usize,
    mw: Option<Vec<Rec>>,
    idx: Vec<(u64, u64)>,
}

fn strip_num(s: &str, p: &str) -> String {
    // names made by this harness are "<prefix><n>"; anything else is printed raw with '?' (cannot happen)
    match s.strip_prefix(p) {
        Some(n) if !n.is_empty() && n.bytes().all(|b| b.is_ascii_digit()) => n.to_string(),
        _ => format!("?{s}"),
    }
}

fn state_rank(s: &State) -> u8 {
    match s {
        State::Open => 0,
        State::Sealed => 1,
        State::Flushed => 2,
        State::Merged => 3,
    }
}

fn show_view(v: &View) -> String {
    let mw = match &v.mw {
        None => "none".to_string(),
        Some(l) if l.is_empty() => "-".to_string(),
        Some(l) => l
            .iter()
            .map(|m| {
                format!(
                    "{}/{}:{}:{}:{}:{}:{}:{}",
                    m.region,
                    m.gen,
                    ["O", "S", "F", "M"][m.state as usize],
                    m.owner,
                    m.mt,
                    m.wal,
                    show_nat_list(m.entries.iter().copied()),
                    m.lu
                )
            })
            .collect::<Vec<_>>()
            .join(";"),
    };
    let mut idx = v.idx.clone();
    idx.sort();
    let idx = if idx.is_empty() {
        "-".to_string()
    } else {
        idx.iter().map(|(c, d)| format!("{c}:{d}")).collect::<Vec<_>>().join(",")
    };
    format!("v={} rows={} mw={} idx={}", v.version, v.rows, mw, idx)
}

async fn observe(ds: &Dataset) -> Result<View, lance::Error> {
    let indices = ds.load_indices().await?;
    let mut v = View { version: ds.manifest().version, rows: ds.count_rows(None).await?, mw: None, idx: vec![] };
    for i in indices.iter() {
        if i.name == MEM_WAL_INDEX_NAME {
            let any = i.index_details.as_ref().expect("MemWAL index without details");
            let d = MemWalIndexDetails::try_from(any.to_msg::<pb::MemWalIndexDetails>()?)?;
            let l = d
                .mem_wal_list
                .iter()
                .map(|m| Rec {
                    region: strip_num(&m.id.region, "r").parse().unwrap_or(u64::MAX),
                    gen: m.id.generation,
                    state: state_rank(&m.state),
                    owner: strip_num(&m.owner_id, "o"),
                    mt: strip_num(&m.mem_table_location, "mt"),
                    wal: strip_num(&m.wal_location, "wal"),
                    entries: m.wal_entries().iter().collect(),
                    lu: m.last_updated_dataset_version,
                })
                .collect();
            v.mw = Some(l);
        } else if let Some(c) = i.name.strip_prefix('i').and_then(|c| c.parse::<u64>().ok()) {
            v.idx.push((c, i.dataset_version));
        }
    }
    Ok(v)
}

fn cls(e: &lance::Error) -> &'static str {
    use lance::Error as E;
    match e {
        E::InvalidInput { .. } => "invalid",
        E::NotSupported { .. } => "not_supported",
        E::CommitConflict { .. } => "conflict",
        E::RetryableCommitConflict { .. } | E::TooMuchWriteContention { .. } => "retryable",
        E::Internal { .. } => "internal",
        _ => "other",
    }
}

#[derive(Clone, Debug, PartialEq)]
enum Op {
    Sync(usize),
    Adv { h: usize, r: u64, mt: u64, wal: u64, exp: Option<u64>, no: u64 },
    Create { h: usize, r: u64, g: u64, mt: u64, wal: u64, o: u64 },
    App { h: usize, r: u64, g: u64, e: u64, o: u64 },
    Seal { h: usize, r: u64, g: u64, o: u64 },
    Flush { h: usize, r: u64, g: u64, o: u64 },
    Merge { h: usize, r: u64, g: u64, o: u64 },
    Own { h: usize, r: u64, g: u64, no: u64, nm: Option<u64> },
    Trim(usize),
    Mi { h: usize, r: u64, g: u64, o: u64 },
    Ins(usize),
    Appd(usize),
    Cidx(u64),
}

fn opt(x: &Option<u64>) -> String {
    match x {
        Some(v) => v.to_string(),
        None => "-".into(),
    }
}

fn show_op(op: &Op) -> String {
    match op {
        Op::Sync(h) => format!("sync {h}"),
        Op::Adv { h, r, mt, wal, exp, no } => format!("adv {h} {r} {mt} {wal} {} {no}", opt(exp)),
        Op::Create { h, r, g, mt, wal, o } => format!("create {h} {r} {g} {mt} {wal} {o}"),
        Op::App { h, r, g, e, o } => format!("app {h} {r} {g} {e} {o}"),
        Op::Seal { h, r, g, o } => format!("seal {h} {r} {g} {o}"),
        Op::Flush { h, r, g, o } => format!("flush {h} {r} {g} {o}"),
        Op::Merge { h, r, g, o } => format!("merge {h} {r} {g} {o}"),
        Op::Own { h, r, g, no, nm } => format!("own {h} {r} {g} {no} {}", opt(nm)),
        Op::Trim(h) => format!("trim {h}"),
        Op::Mi { h, r, g, o } => format!("mi {h} {r} {g} {o}"),
        Op::Ins(h) => format!("ins {h}"),
        Op::Appd(h) => format!("appd {h}"),
        Op::Cidx(c) => format!("cidx {c}"),
    }
}

fn nat(s: &str) -> Option<u64> {
    if s.is_empty() || s.len() > 9 || !s.bytes().all(|b| b.is_ascii_digit()) {
        return None;
    }
    s.parse().ok()
}

fn onat(s: &str) -> Option<Option<u64>> {
    if s == "-" {
        Some(None)
    } else {
        nat(s).map(Some)
    }
}

fn hnd(s: &str) -> Option<usize> {
    let h = nat(s)? as usize;
    if h < NH {
        Some(h)
    } else {
        None
    }
}

fn parse_op(line: &str) -> Option<Op> {
    let t: Vec<&str> = line.trim().split(' ').filter(|s| !s.is_empty()).collect();
    Some(match t.as_slice() {
        ["sync", h] => Op::Sync(hnd(h)?),
        ["adv", h, r, mt, wal, exp, no] => {
            // the driver validates tokens left to right only in the sense that any bad token gives bad-op
            Op::Adv { h: hnd(h)?, r: nat(r)?, mt: nat(mt)?, wal: nat(wal)?, exp: onat(exp)?, no: nat(no)? }
        }
        ["create", h, r, g, mt, wal, o] => {
            Op::Create { h: hnd(h)?, r: nat(r)?, g: nat(g)?, mt: nat(mt)?, wal: nat(wal)?, o: nat(o)? }
        }
        ["app", h, r, g, e, o] => Op::App { h: hnd(h)?, r: nat(r)?, g: nat(g)?, e: nat(e)?, o: nat(o)? },
        ["seal", h, r, g, o] => Op::Seal { h: hnd(h)?, r: nat(r)?, g: nat(g)?, o: nat(o)? },
        ["flush", h, r, g, o] => Op::Flush { h: hnd(h)?, r: nat(r)?, g: nat(g)?, o: nat(o)? },
        ["merge", h, r, g, o] => Op::Merge { h: hnd(h)?, r: nat(r)?, g: nat(g)?, o: nat(o)? },
        ["own", h, r, g, no, nm] => Op::Own { h: hnd(h)?, r: nat(r)?, g: nat(g)?, no: nat(no)?, nm: onat(nm)? },
        ["trim", h] => Op::Trim(hnd(h)?),
        ["mi", h, r, g, o] => Op::Mi { h: hnd(h)?, r: nat(r)?, g: nat(g)?, o: nat(o)? },
        ["ins", h] => Op::Ins(hnd(h)?),
        ["appd", h] => Op::Appd(hnd(h)?),
        ["cidx", c] => {
            let c = nat(c)?;
            if c < 2 {
                Op::Cidx(c)
            } else {
                return None;
            }
        }
        _ => return None,
    })
}

fn handle_of(op: &Op) -> Option<usize> {
    match op {
        Op::Sync(h) | Op::Trim(h) | Op::Ins(h) | Op::Appd(h) => Some(*h),
        Op::Adv { h, .. }
        | Op::Create { h, .. }
        | Op::App { h, .. }
        | Op::Seal { h, .. }
        | Op::Flush { h, .. }
        | Op::Merge { h, .. }
        | Op::Own { h, .. }
        | Op::Mi { h, .. } => Some(*h),
        Op::Cidx(_) => None,
    }
}

fn kind_of(op: &Op) -> &'static str {
    match op {
        Op::Sync(_) => "sync",
        Op::Adv { .. } => "adv",
        Op::Create { .. } => "create",
        Op::App { .. } => "app",
        Op::Seal { .. } => "seal",
        Op::Flush { .. } => "flush",
        Op::Merge { .. } => "merge",
        Op::Own { .. } => "own",
        Op::Trim(_) => "trim",
        Op::Mi { .. } => "mi",
        Op::Ins(_) => "ins",
        Op::Appd(_) => "appd",
        Op::Cidx(_) => "cidx",
    }
}

// ------------------------------------------------------------------------------------------------
// the generator's shadow of the table (sequential semantics, good enough to pick mostly-valid arguments)
// ------------------------------------------------------------------------------------------------

#[derive(Clone, Debug)]
struct SGen {
    gen: u64,
    state: u8,
    owner: u64,
    mt: u64,
    wal: u64,
    last: Option<u64>,
}

#[derive(Clone, Debug, Default)]
struct Shadow {
    regions: BTreeMap<u64, Vec<SGen>>,
    has_index: bool,
    next_loc: u64,
}

impl Shadow {
    fn latest(&self, r: u64) -> Option<&SGen> {
        self.regions.get(&r).and_then(|v| v.iter().max_by_key(|g| g.gen))
    }
    fn get_mut(&mut self, r: u64, g: u64) -> Option<&mut SGen> {
        self.regions.get_mut(&r).and_then(|v| v.iter_mut().find(|x| x.gen == g))
    }
    fn get(&self, r: u64, g: u64) -> Option<&SGen> {
        self.regions.get(&r).and_then(|v| v.iter().find(|x| x.gen == g))
    }
    fn fresh_loc(&mut self) -> u64 {
        self.next_loc += 1;
        self.next_loc
    }
    /// apply with sequential semantics; returns whether the shadow thinks it succeeds
    fn apply(&mut self, op: &Op) -> bool {
        match op {
            Op::Adv { r, mt, wal, exp, no, .. } => {
                let lat = self.latest(*r).cloned();
                match lat {
                    None => {
                        if exp.is_some() {
                            return false;
                        }
                        self.has_index = true;
                        self.regions.entry(*r).or_default().push(SGen { gen: 0, state: 0, owner: *no, mt: *mt, wal: *wal, last: None });
                        true
                    }
                    Some(m) => {
                        if m.wal == *wal || m.mt == *mt || *exp != Some(m.owner) {
                            return false;
                        }
                        if m.state == 0 {
                            self.get_mut(*r, m.gen).unwrap().state = 1;
                        }
                        self.regions.get_mut(r).unwrap().push(SGen { gen: m.gen + 1, state: 0, owner: *no, mt: *mt, wal: *wal, last: None });
                        true
                    }
                }
            }
            Op::App { r, g, e, o, .. } => match self.get_mut(*r, *g) {
                Some(m) if m.state == 0 && m.owner == *o && m.last.map_or(true, |l| *e > l) => {
                    m.last = Some(*e);
                    true
                }
                _ => false,
            },
            Op::Seal { r, g, o, .. } => self.mark(*r, *g, *o, 0, 1),
            Op::Flush { r, g, o, .. } => self.mark(*r, *g, *o, 1, 2),
            Op::Merge { r, g, o, .. } | Op::Mi { r, g, o, .. } => self.mark(*r, *g, *o, 2, 3),
            Op::Own { r, g, no, nm, .. } => match self.get_mut(*r, *g) {
                Some(m) if m.owner != *no && nm.map_or(true, |x| x != m.mt) => {
                    m.owner = *no;
                    if let Some(x) = nm {
                        m.mt = *x;
                    }
                    true
                }
                _ => false,
            },
            Op::Trim(_) => {
                if !self.has_index {
                    return false;
                }
                for v in self.regions.values_mut() {
                    v.retain(|g| g.state != 3);
                }
                self.regions.retain(|_, v| !v.is_empty());
                true
            }
            _ => true,
        }
    }
    fn mark(&mut self, r: u64, g: u64, o: u64, src: u8, dst: u8) -> bool {
        match self.get_mut(r, g) {
            Some(m) if m.state == src && m.owner == o => {
                m.state = dst;
                true
            }
            _ => false,
        }
    }

    /// a (mostly) valid op through handle `h`
    fn gen_op(&mut self, rng: &mut Rng, h: usize, nregions: u64, wrong: bool) -> Op {
        let r = rng.below(nregions);
        let lat = self.latest(r).cloned();
        let Some(lat) = lat else {
            let (mt, wal) = (self.fresh_loc(), self.fresh_loc());
            let exp = if wrong && rng.chance(1, 2) { Some(rng.below(3)) } else { None };
            return Op::Adv { h, r, mt, wal, exp, no: rng.below(3) };
        };
        // choose a generation: mostly one for which something can be done
        let gens: Vec<SGen> = self.regions[&r].clone();
        let pick = gens[rng.usize(gens.len())].clone();
        let owner_of = |m: &SGen, rng: &mut Rng| if wrong && rng.chance(1, 3) { (m.owner + 1) % 4 } else { m.owner };
        match rng.below(24) {
            0..=4 => {
                let (mt, wal) = if wrong && rng.chance(1, 4) { (lat.mt, lat.wal) } else { (self.fresh_loc(), self.fresh_loc()) };
                let exp = if wrong && rng.chance(1, 4) { None } else { Some(owner_of(&lat, rng)) };
                Op::Adv { h, r, mt, wal, exp, no: rng.below(4) }
            }
            5..=8 => {
                let tgt = if rng.chance(4, 5) { lat.clone() } else { pick.clone() };
                let e = match tgt.last {
                    Some(l) if wrong && rng.chance(1, 3) => l.saturating_sub(rng.below(2)),
                    Some(l) => l + 1 + rng.below(3),
                    None => rng.below(5),
                };
                Op::App { h, r, g: tgt.gen, e, o: owner_of(&tgt, rng) }
            }
            9..=10 => {
                let tgt = if rng.chance(3, 4) { lat.clone() } else { pick.clone() };
                Op::Seal { h, r, g: tgt.gen, o: owner_of(&tgt, rng) }
            }
            11..=13 => {
                let tgt = gens.iter().find(|g| g.state == 1).cloned().unwrap_or(pick.clone());
                Op::Flush { h, r, g: tgt.gen, o: owner_of(&tgt, rng) }
            }
            14..=15 => {
                let tgt = gens.iter().find(|g| g.state == 2).cloned().unwrap_or(pick.clone());
                Op::Merge { h, r, g: tgt.gen, o: owner_of(&tgt, rng) }
            }
            16..=17 => {
                let tgt = gens.iter().find(|g| g.state == 2).cloned().unwrap_or(pick.clone());
                Op::Mi { h, r, g: tgt.gen, o: owner_of(&tgt, rng) }
            }
            18..=19 => {
                let no = if wrong && rng.chance(1, 3) { pick.owner } else { (pick.owner + 1 + rng.below(3)) % 4 };
                let nm = if rng.chance(1, 2) { None } else if wrong && rng.chance(1, 3) { Some(pick.mt) } else { Some(self.fresh_loc()) };
                Op::Own { h, r, g: if wrong && rng.chance(1, 4) { pick.gen + 3 } else { pick.gen }, no, nm }
            }
            20..=21 => Op::Trim(h),
            22 => {
                if rng.chance(1, 2) {
                    Op::Ins(h)
                } else {
                    Op::Appd(h)
                }
            }
            _ => {
                if rng.chance(1, 2) {
                    Op::Cidx(rng.below(2))
                } else {
                    Op::Trim(h)
                }
            }
        }
    }
}

// ------------------------------------------------------------------------------------------------
// enumerated pair table: setups x menu x menu, committed in both orders (the second order is the swapped pair)
// ------------------------------------------------------------------------------------------------

/// setups: scripts through handle 0 that leave region 0 in a characteristic state (owner of gen g is g)
fn setups() -> Vec<(&'static str, Vec<&'static str>)> {
    vec![
        ("g0open", vec!["adv 0 0 10 10 - 0", "app 0 0 0 3 0"]),
        ("g0sealed_g1open", vec!["adv 0 0 10 10 - 0", "app 0 0 0 3 0", "adv 0 0 11 11 0 1"]),
        ("g0flushed_g1open", vec!["adv 0 0 10 10 - 0", "adv 0 0 11 11 0 1", "flush 0 0 0 0"]),
        ("g0merged_g1open", vec!["adv 0 0 10 10 - 0", "adv 0 0 11 11 0 1", "flush 0 0 0 0", "merge 0 0 0 0"]),
        ("g0sealed_only", vec!["adv 0 0 10 10 - 0", "seal 0 0 0 0"]),
        ("g0flushed_only", vec!["adv 0 0 10 10 - 0", "seal 0 0 0 0", "flush 0 0 0 0"]),
        ("g0merged_only", vec!["adv 0 0 10 10 - 0", "seal 0 0 0 0", "flush 0 0 0 0", "merge 0 0 0 0"]),
        ("g0merged_g1flushed_g2open", vec![
            "adv 0 0 10 10 - 0", "adv 0 0 11 11 0 1", "adv 0 0 12 12 1 2", "flush 0 0 0 0", "merge 0 0 0 0", "flush 0 0 1 1",
        ]),
        ("empty", vec![]),
    ]
}

/// the menu: ops with `H` standing for the handle and `L`/`LO` for the latest generation of region 0 and its owner
fn menu(setup: &str) -> Vec<String> {
    let (l, lo): (i64, i64) = match setup {
        "g0open" | "g0sealed_only" | "g0flushed_only" | "g0merged_only" => (0, 0),
        "g0sealed_g1open" | "g0flushed_g1open" | "g0merged_g1open" => (1, 1),
        "g0merged_g1flushed_g2open" => (2, 2),
        _ => (-1, -1),
    };
    let mut m: Vec<String> = vec![];
    if l >= 0 {
        m.push(format!("adv H 0 2H 2H {lo} 3"));
        m.push(format!("app H 0 {l} 9 {lo}"));
        m.push(format!("seal H 0 {l} {lo}"));
        m.push(format!("flush H 0 {l} {lo}"));
        m.push(format!("own H 0 {l} 3 -"));
        m.push("own H 0 0 3 3H".to_string());
        m.push("flush H 0 0 0".to_string());
        m.push("merge H 0 0 0".to_string());
        m.push("mi H 0 0 0".to_string());
        if l >= 2 {
            m.push("mi H 0 1 1".to_string());
            m.push("merge H 0 1 1".to_string());
            m.push("own H 0 1 3 -".to_string());
        }
    } else {
        m.push("adv H 0 2H 2H - 3".to_string());
    }
    m.push("adv H 1 3H 3H - 2".to_string());
    m.push("trim H".to_string());
    m.push("ins H".to_string());
    m.push("appd H".to_string());
    m
}

fn pair_table() -> Vec<Vec<String>> {
    let mut out = vec![];
    for (name, script) in setups() {
        let m = menu(name);
        for a in &m {
            for b in &m {
                let mut c: Vec<String> = script.iter().map(|s| s.to_string()).collect();
                c.push("sync 1".into());
                c.push("sync 2".into());
                c.push(a.replace('H', "1"));
                c.push(b.replace('H', "2"));
                c.push("sync 0".into());
                c.push("trim 0".into());
                c.push("adv 0 0 40 40 - 0".into());
                out.push(c);
            }
        }
    }
    out
}

struct C39 {
    kit: Kit,
    pairs: Vec<Vec<String>>,
}

struct Run {
    handles: Vec<Dataset>,
    next_key: i64,
}

/// the oracle's memory of one case
#[derive(Default)]
struct Hist {
    /// highest state every id was ever seen in
    max_state: BTreeMap<(u64, u64), u8>,
    /// ids seen once and later absent
    gone: BTreeSet<(u64, u64)>,
    /// largest generation ever seen per region
    max_gen: BTreeMap<u64, u64>,
    /// successful commits: (read version, committed version, kind, touched ids)
    commits: Vec<(u64, u64, &'static str, Vec<(u64, u64)>)>,
    data_commits: usize,
}

impl C39 {
    fn knobs() -> Knobs {
        Knobs::parse(&["f=d", "g=d", "b=d", "v=d", "s=0"]).expect("knobs")
    }

    fn latest(&self, run: &Run) -> Result<View, lance::Error> {
        self.kit.block_on(async {
            let mut l = run.handles[0].clone();
            l.checkout_latest().await?;
            observe(&l).await
        })
    }

    /// run one op on the real code; Ok(()) = committed
    fn exec(&self, run: &mut Run, op: &Op) -> Result<(), String> {
        let kit = &self.kit;
        let spec = SchemaSpec::ints(2);
        let r_ = |r: &u64| format!("r{r}");
        let o_ = |o: &u64| format!("o{o}");
        let mt_ = |m: &u64| format!("mt{m}");
        let wal_ = |w: &u64| format!("wal{w}");
        let e = |e: lance::Error| cls(&e).to_string();
        match op {
            Op::Sync(h) => kit.block_on(run.handles[*h].checkout_latest()).map(|_| ()).map_err(e),
            Op::Adv { h, r, mt, wal, exp, no } => {
                let exp = exp.as_ref().map(o_);
                kit.block_on(advance_mem_wal_generation(&mut run.handles[*h], &r_(r), &mt_(mt), &wal_(wal), exp.as_deref(), &o_(no)))
                    .map_err(e)
            }
            Op::Create { h, r, g, mt, wal, o } => kit
                .block_on(create_mem_wal_generation(&mut run.handles[*h], &r_(r), *g, &mt_(mt), &wal_(wal), &o_(o)))
                .map(|_| ())
                .map_err(e),
            Op::App { h, r, g, e: ent, o } => {
                kit.block_on(append_mem_wal_entry(&mut run.handles[*h], &r_(r), *g, *ent, &o_(o))).map(|_| ()).map_err(e)
            }
            Op::Seal { h, r, g, o } => kit.block_on(mark_mem_wal_as_sealed(&mut run.handles[*h], &r_(r), *g, &o_(o))).map(|_| ()).map_err(e),
            Op::Flush { h, r, g, o } => kit.block_on(mark_mem_wal_as_flushed(&mut run.handles[*h], &r_(r), *g, &o_(o))).map(|_| ()).map_err(e),
            Op::Merge { h, r, g, o } => kit.block_on(mark_mem_wal_as_merged(&mut run.handles[*h], &r_(r), *g, &o_(o))).map(|_| ()).map_err(e),
            Op::Own { h, r, g, no, nm } => {
                let nm = nm.as_ref().map(mt_);
                kit.block_on(update_mem_wal_owner(&mut run.handles[*h], &r_(r), *g, &o_(no), nm.as_deref())).map(|_| ()).map_err(e)
            }
            Op::Trim(h) => kit.block_on(trim_mem_wal_index(&mut run.handles[*h])).map_err(e),
            Op::Mi { h, .. } | Op::Ins(h) => {
                let key = run.next_key;
                run.next_key += 1;
                let ds = Arc::new(run.handles[*h].clone());
                let batch = spec.batch(&[vec![Some(key), Some(key)]]);
                let schema = batch.schema();
                let res = kit.block_on(async {
                    let mut b = MergeInsertBuilder::try_new(ds, vec!["c0".to_string()])?;
                    b.when_matched(WhenMatched::UpdateAll).when_not_matched(WhenNotMatched::InsertAll).conflict_retries(0);
                    if let Op::Mi { r, g, o, .. } = op {
                        b.mark_mem_wal_as_merged(MemWalId::new(&r_(r), *g), &o_(o)).await?;
                    }
                    let job = b.try_build()?;
                    let reader = arrow_array::RecordBatchIterator::new(vec![Ok(batch)].into_iter(), schema);
                    job.execute_reader(Box::new(reader) as Box<dyn arrow_array::RecordBatchReader + Send>).await
                });
                match res {
                    Ok((ds, _)) => {
                        run.handles[*h] = (*ds).clone();
                        Ok(())
                    }
                    Err(er) => Err(e(er)),
                }
            }
            Op::Appd(h) => {
                let key = run.next_key;
                run.next_key += 1;
                match kit.append(&run.handles[*h], &spec, &[vec![vec![Some(key), Some(key)]]], &Self::knobs()) {
                    Ok(ds) => {
                        run.handles[*h] = ds;
                        Ok(())
                    }
                    Err(ke) => Err(match ke.kind.as_str() {
                        "conflict_incompatible" => "conflict".to_string(),
                        "conflict_retryable" => "retryable".to_string(),
                        "invalid_input" => "invalid".to_string(),
                        _ => "other".to_string(),
                    }),
                }
            }
            Op::Cidx(c) => kit.block_on(async {
                let mut l = run.handles[0].clone();
                l.checkout_latest().await.map_err(e)?;
                let col = format!("c{c}");
                l.create_index(&[col.as_str()], IndexType::BTree, Some(format!("i{c}")), &ScalarIndexParams::default(), true)
                    .await
                    .map_err(e)
            }),
        }
    }
}

fn touched(op: &Op, before: &Option<Vec<Rec>>, after: &Option<Vec<Rec>>) -> Vec<(u64, u64)> {
    match op {
        Op::App { r, g, .. } | Op::Seal { r, g, .. } | Op::Flush { r, g, .. } | Op::Merge { r, g, .. } | Op::Own { r, g, .. } | Op::Mi { r, g, .. } => {
            vec![(*r, *g)]
        }
        Op::Adv { r, .. } => {
            // the new generation, and the previous latest when this commit stamped it (lu = new version)
            let b: BTreeSet<(u64, u64)> = before.iter().flatten().map(|m| (m.region, m.gen)).collect();
            let mut t = vec![];
            let newv = after.iter().flatten().map(|m| m.lu).max().unwrap_or(0);
            for m in after.iter().flatten() {
                if m.region == *r && m.lu == newv && (!b.contains(&(m.region, m.gen)) || m.state == 1) {
                    t.push((m.region, m.gen));
                }
            }
            t
        }
        _ => vec![],
    }
}

impl Prop for C39 {
    fn id(&self) -> &'static str {
        "C39"
    }

    fn budget(&self, tier: Tier) -> usize {
        match tier {
            Tier::Quick => 800,
            Tier::Thorough => 6000,
            Tier::Search => 1500,
        }
    }

    fn gen_case(&mut self, rng: &mut Rng, tier: Tier, idx: usize) -> Vec<String> {
        // the enumerated pair table: all of it in the thorough tier, a seeded sample otherwise
        let np = self.pairs.len();
        match tier {
            Tier::Thorough if idx < np => return self.pairs[idx].clone(),
            Tier::Quick | Tier::Search if idx % 3 == 0 => return self.pairs[rng.usize(np)].clone(),
            _ => {}
        }
        let malformed = rng.chance(3, 20);
        let nregions = 1 + rng.below(2);
        let mut sh = Shadow { next_loc: 100, ..Default::default() };
        let mut ops: Vec<Op> = vec![];
        let concurrent = rng.chance(2, 3);
        // sequential prefix through handle 0
        let pre = if concurrent { 3 + rng.usize(7) } else { 8 + rng.usize(12) };
        for _ in 0..pre {
            let w = malformed && rng.chance(1, 3);
            let op = sh.gen_op(rng, 0, nregions, w);
            sh.apply(&op);
            let was_cidx = matches!(op, Op::Cidx(_));
            ops.push(op);
            if was_cidx && rng.chance(2, 3) {
                // the index was created through a handle of its own: let handle 0 see it (otherwise its trim is stale)
                ops.push(Op::Sync(0));
            }
        }
        if concurrent {
            let rounds = 1 + rng.usize(2);
            for _ in 0..rounds {
                let writers = 2 + rng.usize(2); // 2..=3 writers on handles 1..=3
                for h in 1..=writers {
                    ops.push(Op::Sync(h));
                }
                // every writer plans against the same shadow (the common read version)
                let base = sh.clone();
                let mut planned: Vec<Op> = vec![];
                for h in 1..=writers {
                    let mut s = base.clone();
                    s.next_loc = sh.next_loc + 10 * h as u64;
                    let n = if rng.chance(1, 5) { 2 } else { 1 };
                    for _ in 0..n {
                        let w = malformed && rng.chance(1, 4);
                        let op = s.gen_op(rng, h, nregions, w);
                        s.apply(&op);
                        if !matches!(op, Op::Cidx(_)) {
                            planned.push(op);
                        }
                    }
                }
                sh.next_loc += 50;
                // a seeded commit order (the pair table covers both orders systematically)
                for i in (1..planned.len()).rev() {
                    let j = rng.usize(i + 1);
                    planned.swap(i, j);
                }
                for op in planned {
                    sh.apply(&op);
                    ops.push(op);
                }
                ops.push(Op::Sync(0));
                // follow-up through the synced handle: trims and advances expose what the round left behind
                for _ in 0..(1 + rng.usize(3)) {
                    let op = sh.gen_op(rng, 0, nregions, false);
                    sh.apply(&op);
                    ops.push(op);
                }
            }
        }
        let mut lines: Vec<String> = ops.iter().map(show_op).collect();
        if malformed && rng.chance(1, 2) {
            let i = rng.usize(lines.len());
            lines[i] = match rng.below(6) {
                0 => format!("{} 7", lines[i]),
                1 => lines[i].replacen(' ', "  ", 1),
                2 => "vacuum 0".into(),
                3 => "trim 4".into(),
                4 => lines[i].replacen(' ', " x", 1),
                _ => "create 0 0 5 77 77 1".into(),
            };
        }
        lines
    }

    fn exec_case(&mut self, lines: &[String]) -> CaseResult {
        let mut res = CaseResult::default();
        self.kit.reset_session();
        let uri = self.kit.fresh_uri();
        let spec = SchemaSpec::ints(2);
        let rows: Vec<Row> = (0..5).map(|i| vec![Some(i), Some(i * 10)]).collect();
        let ds = self.kit.create(&uri, &spec, &[rows], &Self::knobs()).expect("create base table");
        let mut run = Run { handles: (0..NH).map(|_| ds.clone()).collect(), next_key: 100 };
        let mut hist = Hist::default();
        let has_create = lines.iter().any(|l| l.trim_start().starts_with("create"));
        let mut prev = View { version: 1, rows: 5, mw: None, idx: vec![] };
        let mut ok_ops = 0usize;
        let mut concurrent_commits = 0usize;
        for (ln, line) in lines.iter().enumerate() {
            let Some(op) = parse_op(line) else {
                res.outputs.push("bad-op".into());
                res.tags.push("op:bad".into());
                continue;
            };
            let kind = kind_of(&op);
            let rv = handle_of(&op).map(|h| run.handles[h].manifest().version);
            let out = self.exec(&mut run, &op);
            match out {
                Err(c) => {
                    res.tags.push(format!("err:{kind}:{c}"));
                    res.outputs.push(format!("err {c}"));
                }
                Ok(()) => {
                    let cur = match self.latest(&run) {
                        Ok(v) => v,
                        Err(e) => {
                            res.outputs.push(format!("err observe:{}", cls(&e)));
                            res.failures.push(OracleFailure { what: format!("cannot read the table after {line}: {e}"), key: Some("unreadable".into()), line: ln });
                            continue;
                        }
                    };
                    res.outputs.push(format!("ok {}", show_view(&cur)));
                    res.tags.push(format!("ok:{kind}"));
                    if matches!(op, Op::Sync(_)) {
                        continue;
                    }
                    ok_ops += 1;
                    let stale = rv.map_or(false, |rv| rv < prev.version);
                    if stale {
                        concurrent_commits += 1;
                        res.tags.push(format!("stale_commit:{kind}"));
                    }
                    // ---------------- property oracle ----------------
                    if matches!(op, Op::Mi { .. } | Op::Ins(_) | Op::Appd(_)) {
                        hist.data_commits += 1;
                    }
                    if cur.rows != 5 + hist.data_commits {
                        res.failures.push(OracleFailure {
                            what: format!("`{line}` left {} rows, expected {}", cur.rows, 5 + hist.data_commits),
                            key: Some("memwal_commit_drops_rows".into()),
                            line: ln,
                        });
                    }
                    if cur.version != prev.version + 1 {
                        res.failures.push(OracleFailure { what: format!("`{line}`: version {} after {}", cur.version, prev.version), key: Some("version_step".into()), line: ln });
                    }
                    if !has_create {
                        let l: &[Rec] = cur.mw.as_deref().unwrap_or(&[]);
                        let mut fail = |what: String, key: &str| res.failures.push(OracleFailure { what, key: Some(key.into()), line: ln });
                        // each generation once
                        let mut seen = BTreeSet::new();
                        for m in l {
                            if !seen.insert((m.region, m.gen)) {
                                fail(format!("`{line}`: generation {}/{} appears twice", m.region, m.gen), "duplicate_generation");
                            }
                        }
                        // only the latest may be open
                        for m in l {
                            if m.state == 0 && l.iter().any(|x| x.region == m.region && x.gen > m.gen) {
                                fail(format!("`{line}`: generation {}/{} is Open but not the latest", m.region, m.gen), "open_not_latest");
                            }
                        }
                        let tch = touched(&op, &prev.mw, &cur.mw);
                        // concurrent commits touching one generation
                        let mut same_gen_key: Option<&'static str> = None;
                        if let Some(rv) = rv {
                            for (_orv, ov, okind, otch) in hist.commits.iter() {
                                if *ov > rv && otch.iter().any(|i| tch.contains(i)) {
                                    let key = match (*okind, kind) {
                                        ("mi", "mi") => "two_merge_inserts_same_generation",
                                        ("mi", _) => "mw_after_merge_insert_same_generation",
                                        _ => "same_generation_both_commit",
                                    };
                                    same_gen_key = Some(key);
                                    fail(
                                        format!("`{line}` (read version {rv}) committed as version {} although `{okind}` touched the same generation {:?} in version {ov}", cur.version, tch),
                                        key,
                                    );
                                }
                            }
                        }
                        // forward only / never reappears / consecutive numbering
                        for m in l {
                            let id = (m.region, m.gen);
                            match hist.max_state.get(&id) {
                                Some(s) if hist.gone.contains(&id) => {
                                    let key = if kind == "adv" { "numbering_restarts_after_trim" } else { "trimmed_reappears_via_stale_update" };
                                    fail(format!("`{line}`: generation {}/{} had been removed (last state {}) and is back", m.region, m.gen, s), key);
                                    hist.gone.remove(&id);
                                    // a new life of the id: later commits are judged against the state it has now
                                    hist.max_state.insert(id, m.state);
                                }
                                Some(s) if m.state < *s => {
                                    fail(
                                        format!("`{line}`: generation {}/{} moved backwards from state {} to {}", m.region, m.gen, s, m.state),
                                        same_gen_key.unwrap_or("state_backward"),
                                    );
                                    // reported once: later commits are judged against the state it has now
                                    hist.max_state.insert(id, m.state);
                                }
                                Some(_) => {}
                                None => {
                                    let expect = hist.max_gen.get(&m.region).map_or(0, |g| g + 1);
                                    if m.gen != expect {
                                        fail(format!("`{line}`: new generation {}/{} but the next number is {}", m.region, m.gen, expect), "generation_gap");
                                    }
                                }
                            }
                        }
                        for m in l {
                            let id = (m.region, m.gen);
                            let s = hist.max_state.entry(id).or_insert(m.state);
                            if m.state > *s {
                                *s = m.state;
                            }
                            let g = hist.max_gen.entry(m.region).or_insert(m.gen);
                            if m.gen > *g {
                                *g = m.gen;
                            }
                        }
                        for id in hist.max_state.keys() {
                            if !l.iter().any(|m| (m.region, m.gen) == *id) {
                                hist.gone.insert(*id);
                            }
                        }
                        if let Some(rv) = rv {
                            hist.commits.push((rv, cur.version, kind, tch));
                        }
                    }
                    prev = cur;
                }
            }
        }
        res.nontrivial = ok_ops >= 3;
        if concurrent_commits > 0 {
            res.tags.push("case:has_stale_commit".into());
        }
        if has_create {
            res.tags.push("case:create_api".into());
        }
        res
    }

    fn rule(&self) -> String {
        "1/3 of the cases come from an enumerated table (9 setups x all ordered pairs of a 6-17 op menu planned by two stale handles, followed by sync, trim, advance; the thorough tier runs the whole table); the rest are seeded: a sequential prefix of mostly-valid ops on 1-2 regions chosen against a shadow state, then (2/3 of them) 1-2 rounds of 2-3 writers planned on a common read version and committed in a seeded order, each followed by a synced trim/advance tail; 15% of the seeded cases carry wrong owners / stale entries / missing generations / garbled lines. Non-trivial = at least 3 committed ops.".into()
    }
}

fn main() {
    let pairs = pair_table();
    run_main(C39 { kit: Kit::new(), pairs })
}
