//! C07: restore reproduces the old version and keeps row identities unique.
//!
//! Interpreter of the C07 op lines against the REAL lance code (`Dataset::write`, `Dataset::delete`,
//! `Dataset::checkout_version` + `Dataset::restore`, `Scanner` with `_rowid`), a seeded generator of histories and the
//! property oracle.  Every step runs through a fresh `Session` (fresh caches, same object-store registry) so that the
//! known C38 cache-key collision (row-id sequences cached by fragment id) cannot mask or fake a C07 result.
//!
//! Op lines (cells / rows: canonical forms of `../tablekit.rs`; a table has `K` Int64 columns `c0..`):
//!
//! ```text
//! create    s=<0|1> f=<nat> k=<K> <rows>     WriteMode::Create, enable_stable_row_ids = s, max_rows_per_file = f
//! append    f=<nat> <rows>                   WriteMode::Append through the latest handle (row width must be the table's K)
//! overwrite f=<nat> k=<K> <rows>             WriteMode::Overwrite through the latest handle
//! delete    lt <int> | ge <int> | in <int,…> | all      Dataset::delete("c0 < x" | "c0 >= x" | "c0 IN (…)" | "true")
//! restore   <v>                              checkout_version(v) then Dataset::restore()
//! restore@<h> <v>                            a Restore transaction built on a stale handle: checkout_version(h), then
//!                                            CommitBuilder::new(handle@h).execute(Transaction::new(h, Restore{version: v}))
//!                                            — the writer read version h, other writers committed h+1..latest meanwhile
//! ```
//!
//! Output: `ok v=<version> k=<K> nrid=<manifest.next_row_id> mfid=<manifest.max_fragment_id|none>
//! frags=<id:physical_rows:deletions,…> scan=<ordered scan, every row followed by its _rowid>` or `err <kind>`
//! (`err parse`, `err no_table` for a non-create op before any create, `err width` for an append of the wrong width —
//! these three are decided by the interpreter alone, identically on both sides).
//!
//! Oracle (independent of the Lean model): (1) after `restore v` the new version has v's schema, ordered scan (with
//! `_rowid`) and per-fragment (id, physical rows, deletions); (2) the harness's own flat replay (append = concatenate,
//! delete = filter, overwrite = replace, restore = copy) equals the scan; (3) with stable row ids, over ALL versions
//! of the history the relation row id → row cells is functional and no version lists a row id twice; (4) fragment ids
//! created by an append are larger than every fragment id any earlier version used; (5) after every restore and at the
//! end of the case every earlier version, re-opened by uri, still reads exactly as when it was written.

use std::collections::BTreeMap;
use std::sync::Arc;

use hcommon::*;
use lance::dataset::transaction::{Operation, Transaction};
use lance::dataset::CommitBuilder;
use lance::session::Session;
use lance::Dataset;

#[path = "../tablekit.rs"]
#[allow(dead_code)]
mod tablekit;
use tablekit::*;

struct C07 {
    kit: Kit,
}

#[derive(Clone, Debug)]
enum Pred {
    Lt(i64),
    Ge(i64),
    In(Vec<i64>),
    All,
}

impl Pred {
    fn sql(&self) -> String {
        match self {
            Pred::Lt(x) => format!("c0 < {x}"),
            Pred::Ge(x) => format!("c0 >= {x}"),
            Pred::In(xs) => format!("c0 IN ({})", xs.iter().map(|x| x.to_string()).collect::<Vec<_>>().join(", ")),
            Pred::All => "true".into(),
        }
    }
    fn show(&self) -> String {
        match self {
            Pred::Lt(x) => format!("lt {x}"),
            Pred::Ge(x) => format!("ge {x}"),
            Pred::In(xs) => format!("in {}", xs.iter().map(|x| x.to_string()).collect::<Vec<_>>().join(",")),
            Pred::All => "all".into(),
        }
    }
    /// SQL three-valued: a NULL `c0` never matches a comparison; `true` matches every row
    fn matches(&self, c0: Cell) -> bool {
        match (self, c0) {
            (Pred::All, _) => true,
            (_, None) => false,
            (Pred::Lt(x), Some(v)) => v < *x,
            (Pred::Ge(x), Some(v)) => v >= *x,
            (Pred::In(xs), Some(v)) => xs.contains(&v),
        }
    }
}

#[derive(Clone, Debug)]
enum Op {
    Create { stable: bool, f: usize, k: usize, rows: Vec<Row> },
    Append { f: usize, rows: Vec<Row> },
    Overwrite { f: usize, k: usize, rows: Vec<Row> },
    Delete(Pred),
    Restore(u64),
    /// (handle / read version, target version)
    RestoreAt(u64, u64),
}

fn show_op(op: &Op) -> String {
    match op {
        Op::Create { stable, f, k, rows } => format!("create s={} f={f} k={k} {}", *stable as u8, show_rows(rows)),
        Op::Append { f, rows } => format!("append f={f} {}", show_rows(rows)),
        Op::Overwrite { f, k, rows } => format!("overwrite f={f} k={k} {}", show_rows(rows)),
        Op::Delete(p) => format!("delete {}", p.show()),
        Op::Restore(v) => format!("restore {v}"),
        Op::RestoreAt(h, v) => format!("restore@{h} {v}"),
    }
}

fn parse_nat(s: &str) -> Option<u64> {
    if s.is_empty() || s.len() > 19 || !s.bytes().all(|b| b.is_ascii_digit()) {
        return None;
    }
    s.parse().ok()
}

fn parse_int(s: &str) -> Option<i64> {
    match parse_cell(s)? {
        Some(v) => Some(v),
        None => None,
    }
}

fn parse_k(s: &str) -> Option<usize> {
    let k = parse_nat(s)? as usize;
    if (1..=4).contains(&k) {
        Some(k)
    } else {
        None
    }
}

fn rows_of_width(s: &str, k: Option<usize>) -> Option<Vec<Row>> {
    let rows = parse_rows(s)?;
    if let Some(k) = k {
        if !rows.iter().all(|r| r.len() == k) {
            return None;
        }
    } else if let Some(first) = rows.first() {
        if !rows.iter().all(|r| r.len() == first.len()) {
            return None;
        }
    }
    Some(rows)
}

fn parse_op(line: &str) -> Option<Op> {
    let t: Vec<&str> = line.split(' ').filter(|s| !s.is_empty()).collect();
    match t.as_slice() {
        ["create", s, f, k, rows] => {
            let stable = match s.strip_prefix("s=")? {
                "0" => false,
                "1" => true,
                _ => return None,
            };
            let f = parse_nat(f.strip_prefix("f=")?)? as usize;
            let k = parse_k(k.strip_prefix("k=")?)?;
            Some(Op::Create { stable, f, k, rows: rows_of_width(rows, Some(k))? })
        }
        ["append", f, rows] => {
            let f = parse_nat(f.strip_prefix("f=")?)? as usize;
            Some(Op::Append { f, rows: rows_of_width(rows, None)? })
        }
        ["overwrite", f, k, rows] => {
            let f = parse_nat(f.strip_prefix("f=")?)? as usize;
            let k = parse_k(k.strip_prefix("k=")?)?;
            Some(Op::Overwrite { f, k, rows: rows_of_width(rows, Some(k))? })
        }
        ["delete", "all"] => Some(Op::Delete(Pred::All)),
        ["delete", "lt", x] => Some(Op::Delete(Pred::Lt(parse_int(x)?))),
        ["delete", "ge", x] => Some(Op::Delete(Pred::Ge(parse_int(x)?))),
        ["delete", "in", xs] => {
            let v: Option<Vec<i64>> = xs.split(',').map(parse_int).collect();
            Some(Op::Delete(Pred::In(v?)))
        }
        ["restore", v] => Some(Op::Restore(parse_nat(v)?)),
        [r, v] if r.starts_with("restore@") => Some(Op::RestoreAt(parse_nat(&r[8..])?, parse_nat(v)?)),
        _ => None,
    }
}

/// what was observed of one version when it was written
#[derive(Clone, Debug, PartialEq)]
struct VersionRec {
    version: u64,
    k: usize,
    /// ordered scan, every row followed by its `_rowid`
    scan: Vec<Row>,
    frags: Vec<(u64, usize, usize)>,
}

impl C07 {
    /// a new session (fresh metadata / index caches) on the same object-store registry, so `memory://` datasets survive
    fn fresh_session(&mut self) {
        let reg = self.kit.session.store_registry();
        self.kit.session = Arc::new(Session::new(64 << 20, 64 << 20, reg));
    }

    fn observe(&self, ds: &Dataset) -> Result<VersionRec, KitError> {
        let spec = Kit::spec_of(ds).ok_or_else(|| KitError::other("not a kit schema"))?;
        if !spec.extras.is_empty() {
            return Err(KitError::other("not a kit schema"));
        }
        let scan = self.kit.scan(ds, &spec, &ScanOpts { ordered: true, with_row_id: true, ..Default::default() })?;
        Ok(VersionRec { version: ds.version().version, k: spec.ints, scan, frags: Kit::fragments(ds) })
    }

    fn gen_cell(rng: &mut Rng) -> Cell {
        if rng.chance(1, 12) {
            None
        } else {
            Some(rng.below(21) as i64 - 6)
        }
    }

    fn gen_rows(rng: &mut Rng, k: usize) -> Vec<Row> {
        let n = match rng.below(12) {
            0 => 0,
            1..=6 => 1 + rng.usize(4),
            7..=10 => 3 + rng.usize(5),
            _ => 8 + rng.usize(6),
        };
        (0..n).map(|_| (0..k).map(|_| Self::gen_cell(rng)).collect()).collect()
    }

    fn gen_f(rng: &mut Rng, malformed: bool) -> usize {
        match rng.below(12) {
            0 if malformed => 0,
            0..=7 => 1 + rng.usize(4),
            8..=9 => 5 + rng.usize(4),
            _ => 1000,
        }
    }

    fn gen_pred(rng: &mut Rng) -> Pred {
        match rng.below(10) {
            0 => Pred::All,
            1..=3 => Pred::Lt(rng.below(21) as i64 - 6),
            4..=5 => Pred::Ge(rng.below(21) as i64 - 6),
            _ => {
                let n = 1 + rng.usize(3);
                Pred::In((0..n).map(|_| rng.below(21) as i64 - 6).collect())
            }
        }
    }
}

fn fmt_rec(r: &VersionRec, nrid: u64, mfid: Option<u32>) -> String {
    format!(
        "ok v={} k={} nrid={} mfid={} frags={} scan={}",
        r.version,
        r.k,
        nrid,
        mfid.map(|m| m.to_string()).unwrap_or_else(|| "none".into()),
        show_frags(&r.frags),
        show_rows(&r.scan)
    )
}

impl Prop for C07 {
    fn id(&self) -> &'static str {
        "C07"
    }

    fn budget(&self, tier: Tier) -> usize {
        match tier {
            Tier::Quick => 900,
            Tier::Thorough => 9000,
            Tier::Search => 4000,
        }
    }

    fn gen_case(&mut self, rng: &mut Rng, _tier: Tier, idx: usize) -> Vec<String> {
        let malformed = rng.chance(3, 20);
        let stable = idx % 4 != 3; // three quarters with stable row ids
        let len = 3 + rng.usize(6); // 3..=8 ops
        let mut k = 1 + rng.usize(2);
        let mut ops: Vec<Op> = vec![];
        if malformed && rng.chance(1, 4) {
            // an op before any create
            ops.push(Op::Append { f: 3, rows: Self::gen_rows(rng, k) });
        }
        ops.push(Op::Create { stable, f: Self::gen_f(rng, false), k, rows: Self::gen_rows(rng, k) });
        let mut nver = 1u64; // the generator's idea of the latest version (assumes ops succeed)
        let mut restored = false;
        while ops.len() < len {
            let left = len - ops.len();
            // make sure most histories restore at least once and keep writing afterwards
            let want_restore = !restored && nver >= 2 && (left <= 2 || rng.chance(1, 3));
            let op = if want_restore || (nver >= 2 && rng.chance(1, 6)) {
                restored = true;
                let v = if malformed && rng.chance(1, 5) {
                    *rng.pick(&[0, nver + 1, nver + 7])
                } else if rng.chance(1, 8) {
                    nver
                } else {
                    1 + rng.below(nver - 1)
                };
                if rng.chance(1, 2) {
                    // a restore prepared on a handle that other writers have overtaken (mostly by one or two versions)
                    let h = if malformed && rng.chance(1, 6) {
                        *rng.pick(&[0, nver + 1])
                    } else {
                        match rng.below(8) {
                            0 => nver,
                            1..=5 => nver - 1,
                            _ => 1 + rng.below(nver - 1),
                        }
                    };
                    // make sure somebody wrote rows after the handle was opened: that is what the marks must cover
                    if h < nver && !matches!(ops.last(), Some(Op::Append { .. } | Op::Overwrite { .. })) && ops.len() + 2 < 10 {
                        ops.push(Op::Append { f: Self::gen_f(rng, false), rows: Self::gen_rows(rng, k) });
                        nver += 1;
                    }
                    Op::RestoreAt(h, v)
                } else {
                    Op::Restore(v)
                }
            } else {
                match rng.below(20) {
                    0..=9 => {
                        let kk = if malformed && rng.chance(1, 4) { k + 1 } else { k };
                        Op::Append { f: Self::gen_f(rng, malformed), rows: Self::gen_rows(rng, kk) }
                    }
                    10..=14 => Op::Delete(Self::gen_pred(rng)),
                    15..=17 => {
                        if rng.chance(1, 2) {
                            k = 1 + rng.usize(2);
                        }
                        Op::Overwrite { f: Self::gen_f(rng, malformed), k, rows: Self::gen_rows(rng, k) }
                    }
                    18 if malformed => Op::Create { stable, f: 2, k, rows: Self::gen_rows(rng, k) },
                    _ => Op::Append { f: Self::gen_f(rng, false), rows: Self::gen_rows(rng, k) },
                }
            };
            if !matches!(op, Op::Create { .. }) {
                nver += 1;
            }
            ops.push(op);
        }
        // after a restore keep writing: that is where reused identifiers would show
        if restored && !matches!(ops.last(), Some(Op::Append { .. })) && ops.len() < 9 {
            ops.push(Op::Append { f: Self::gen_f(rng, false), rows: Self::gen_rows(rng, k) });
        }
        let mut lines: Vec<String> = ops.iter().map(show_op).collect();
        if malformed && rng.chance(1, 3) {
            let i = rng.usize(lines.len());
            lines[i] = match rng.below(4) {
                0 => lines[i].replacen("f=", "f=x", 1),
                1 => format!("{} 7", lines[i]),
                2 => lines[i].replacen(' ', "  ", 1).replace("restore", "restore -"),
                _ => "vacuum".into(),
            };
        }
        lines
    }

    fn exec_case(&mut self, lines: &[String]) -> CaseResult {
        self.kit.reset_session();
        let on_disk = lines.iter().map(|l| l.len()).sum::<usize>() % 16 == 0;
        let uri = if on_disk { self.kit.tempdir_uri() } else { self.kit.fresh_uri() };
        let mut res = CaseResult::default();
        if on_disk {
            res.tags.push("store:local_dir".into());
        }
        let mut ds: Option<Dataset> = None;
        let mut stable = false;
        // what every version looked like when it was written, and the harness's own flat replay of it
        let mut recs: BTreeMap<u64, VersionRec> = BTreeMap::new();
        let mut flat: BTreeMap<u64, Vec<Row>> = BTreeMap::new();
        // row id -> (cells, version that first showed it)
        let mut ids: BTreeMap<i64, (Row, u64)> = BTreeMap::new();
        let mut max_frag_seen: Option<u64> = None;
        let mut wrote_after_restore = false;
        let mut restored_earlier = false;
        let mut n_restores = 0;

        for (ln, line) in lines.iter().enumerate() {
            let Some(op) = parse_op(line) else {
                res.outputs.push("err parse".into());
                res.tags.push("err:parse".into());
                continue;
            };
            let opname = match &op {
                Op::Create { .. } => "create",
                Op::Append { .. } => "append",
                Op::Overwrite { .. } => "overwrite",
                Op::Delete(_) => "delete",
                Op::Restore(_) => "restore",
                Op::RestoreAt(..) => "restore_at",
            };
            res.tags.push(format!("op:{opname}"));
            // fresh caches for the operation; keep the old handle alive until the new one is open
            self.fresh_session();
            let cur: Option<Dataset> = match &ds {
                Some(_) => match self.kit.open(&uri, None) {
                    Ok(d) => Some(d),
                    Err(e) => {
                        res.failures.push(OracleFailure {
                            what: format!("re-opening the table failed: {}", e.msg),
                            key: Some("reopen_error".into()),
                            line: ln,
                        });
                        res.outputs.push("err reopen".into());
                        continue;
                    }
                },
                None => None,
            };
            if cur.is_none() && !matches!(op, Op::Create { .. }) {
                res.outputs.push("err no_table".into());
                res.tags.push("err:no_table".into());
                continue;
            }
            let cur_k = cur.as_ref().and_then(Kit::spec_of).map(|s| s.ints);
            if let (Op::Append { rows, .. }, Some(k)) = (&op, cur_k) {
                if rows.iter().any(|r| r.len() != k) {
                    res.outputs.push("err width".into());
                    res.tags.push("err:width".into());
                    continue;
                }
            }
            let kit = &self.kit;
            let knobs = |f: usize, s: bool| Knobs { max_rows_per_file: Some(f), stable_row_ids: s, ..Default::default() };
            let prev_latest = cur.as_ref().map(|d| d.version().version);
            let r: Result<Dataset, KitError> = std::panic::catch_unwind(std::panic::AssertUnwindSafe(|| match &op {
                Op::Create { stable, f, k, rows } => {
                    kit.write(Err(&uri), Mode::Create, &SchemaSpec::ints(*k), &[rows.clone()], &knobs(*f, *stable))
                }
                Op::Append { f, rows } => kit.write(
                    Ok(cur.as_ref().unwrap()),
                    Mode::Append,
                    &SchemaSpec::ints(cur_k.unwrap_or(1)),
                    &[rows.clone()],
                    &knobs(*f, stable),
                ),
                Op::Overwrite { f, k, rows } => {
                    kit.write(Ok(cur.as_ref().unwrap()), Mode::Overwrite, &SchemaSpec::ints(*k), &[rows.clone()], &knobs(*f, stable))
                }
                Op::Delete(p) => {
                    let mut d = cur.clone().unwrap();
                    kit.block_on(d.delete(&p.sql())).map_err(KitError::from)?;
                    Ok(d)
                }
                Op::Restore(v) => {
                    let mut d = kit.block_on(cur.as_ref().unwrap().checkout_version(*v)).map_err(KitError::from)?;
                    kit.block_on(d.restore()).map_err(KitError::from)?;
                    Ok(d)
                }
                Op::RestoreAt(h, v) => {
                    // the writer's handle is at version h; versions h+1..latest were committed by "other writers"
                    let stale = kit.block_on(cur.as_ref().unwrap().checkout_version(*h)).map_err(KitError::from)?;
                    let txn = Transaction::new(*h, Operation::Restore { version: *v }, None);
                    kit.block_on(CommitBuilder::new(Arc::new(stale)).execute(txn)).map_err(KitError::from)
                }
            }))
            .unwrap_or_else(|e| {
                let msg = e
                    .downcast_ref::<String>()
                    .cloned()
                    .or_else(|| e.downcast_ref::<&str>().map(|s| s.to_string()))
                    .unwrap_or_else(|| "panic".into());
                Err(KitError { kind: ErrKind::Other, msg: format!("PANIC {msg}") })
            });
            let new_ds = match r {
                Err(e) => {
                    if std::env::var("C07_DEBUG").is_ok() {
                        eprintln!("line {ln}: {:?}: {}", e.kind, e.msg);
                    }
                    if e.msg.starts_with("PANIC") {
                        res.failures.push(OracleFailure { what: format!("{opname}: {}", e.msg), key: Some("panic".into()), line: ln });
                        res.outputs.push("err panic".into());
                    } else {
                        res.outputs.push(format!("err {}", e.kind.as_str()));
                    }
                    res.tags.push(format!("err:{}", e.kind.as_str()));
                    if let Some(d) = cur {
                        ds = Some(d);
                    }
                    continue;
                }
                Ok(d) => d,
            };
            // ---- observe the new version through fresh caches
            drop(cur);
            self.fresh_session();
            let kit = &self.kit;
            let seen = kit.open(&uri, None).and_then(|d| {
                let rec = self.observe(&d)?;
                Ok((d, rec))
            });
            let (d, rec) = match seen {
                Ok(x) => x,
                Err(e) => {
                    res.failures.push(OracleFailure {
                        what: format!("after {opname} the table cannot be read: {}", e.msg),
                        key: Some(if e.msg.starts_with("decode:") { "typed_value_mismatch".into() } else { "scan_error".into() }),
                        line: ln,
                    });
                    res.outputs.push(format!("ok v={} unreadable", new_ds.version().version));
                    ds = Some(new_ds);
                    continue;
                }
            };
            drop(new_ds);
            let mut fail = |what: String, key: &str| res.failures.push(OracleFailure { what, key: Some(key.into()), line: ln });
            if matches!(op, Op::Create { .. }) {
                stable = d.manifest().uses_stable_row_ids();
                if let Op::Create { stable: want, .. } = &op {
                    if *want != stable {
                        fail(format!("create asked for stable row ids = {want}, the table says {stable}"), "stable_flag");
                    }
                }
            }
            // (0) versions are dense
            if let Some(p) = prev_latest {
                if rec.version != p + 1 {
                    fail(format!("{opname} on version {p} produced version {}", rec.version), "version_not_dense");
                }
            }
            let cells_of = |rec: &VersionRec| -> Vec<Row> { rec.scan.iter().map(|r| r[..rec.k].to_vec()).collect() };
            // (2) the harness's own flat replay
            let prev_flat: Vec<Row> = prev_latest.and_then(|p| flat.get(&p).cloned()).unwrap_or_default();
            let want_flat: Option<Vec<Row>> = match &op {
                Op::Create { rows, .. } | Op::Overwrite { rows, .. } => Some(rows.clone()),
                Op::Append { rows, .. } => {
                    let mut x = prev_flat.clone();
                    x.extend(rows.iter().cloned());
                    Some(x)
                }
                Op::Delete(p) => Some(prev_flat.iter().filter(|r| !p.matches(r[0])).cloned().collect()),
                Op::Restore(v) | Op::RestoreAt(_, v) => flat.get(v).cloned(),
            };
            match &want_flat {
                Some(w) if *w == cells_of(&rec) => {}
                Some(w) => fail(
                    format!("{opname}: the table scans {} but the history says {}", show_rows(&cells_of(&rec)), show_rows(w)),
                    "scan_mismatch",
                ),
                None => fail(format!("{opname} succeeded on a version the history never had"), "restore_unknown_version"),
            }
            // (1) restore reproduces the old version exactly (schema, rows, row ids, fragments, deletions)
            if let Op::Restore(v) | Op::RestoreAt(_, v) = &op {
                n_restores += 1;
                if let (Op::RestoreAt(h, _), Some(p)) = (&op, prev_latest) {
                    res.tags.push(if *h < p { "restore_at:stale_handle".into() } else { "restore_at:latest_handle".to_string() });
                }
                if let Some(old) = recs.get(v) {
                    if old.k != rec.k || old.scan != rec.scan || old.frags != rec.frags {
                        fail(
                            format!(
                                "restore {v}: version {} has k={} frags={} scan={}, version {v} had k={} frags={} scan={}",
                                rec.version,
                                rec.k,
                                show_frags(&rec.frags),
                                show_rows(&rec.scan),
                                old.k,
                                show_frags(&old.frags),
                                show_rows(&old.scan)
                            ),
                            "restore_mismatch",
                        );
                    }
                }
            }
            // (3) row ids: no duplicates inside a version; functional over the whole history
            if stable {
                let mut in_version: BTreeMap<i64, &Row> = BTreeMap::new();
                for r in &rec.scan {
                    let Some(id) = r[rec.k] else {
                        fail(format!("{opname}: NULL _rowid in version {}", rec.version), "rowid_null");
                        continue;
                    };
                    let cells = r[..rec.k].to_vec();
                    if in_version.insert(id, r).is_some() {
                        fail(format!("{opname}: version {} lists row id {id} twice", rec.version), "rowid_dup");
                    }
                    match ids.get(&id) {
                        Some((c, w)) if *c != cells => fail(
                            format!(
                                "{opname}: version {} hands out row id {id} to row {} but version {w} already used it for row {}",
                                rec.version,
                                show_row(&cells),
                                show_row(c)
                            ),
                            "rowid_reused",
                        ),
                        Some(_) => {}
                        None => {
                            ids.insert(id, (cells, rec.version));
                        }
                    }
                }
            }
            // (4) fragment ids created by an append are fresh with respect to every earlier version
            if let (Op::Append { .. }, Some(p)) = (&op, prev_latest) {
                let old_ids: Vec<u64> = recs.get(&p).map(|r| r.frags.iter().map(|f| f.0).collect()).unwrap_or_default();
                for f in &rec.frags {
                    if !old_ids.contains(&f.0) && max_frag_seen.map(|m| f.0 <= m).unwrap_or(false) {
                        fail(
                            format!(
                                "append: new fragment got id {} but an earlier version already had a fragment id up to {}",
                                f.0,
                                max_frag_seen.unwrap()
                            ),
                            "fragid_reused",
                        );
                    }
                }
            }
            for f in &rec.frags {
                max_frag_seen = Some(max_frag_seen.map(|m| m.max(f.0)).unwrap_or(f.0));
            }
            if restored_earlier && matches!(op, Op::Append { .. } | Op::Overwrite { .. }) && !rec.scan.is_empty() {
                wrote_after_restore = true;
            }
            if matches!(op, Op::Restore(_) | Op::RestoreAt(..)) {
                restored_earlier = true;
            }
            res.tags.push(format!("nfrags:{}", rec.frags.len().min(6)));
            if rec.frags.iter().any(|f| f.2 > 0) {
                res.tags.push("has_deletions".into());
            }
            let m = d.manifest();
            res.outputs.push(fmt_rec(&rec, m.next_row_id, m.max_fragment_id));
            flat.insert(rec.version, want_flat.unwrap_or_else(|| cells_of(&rec)));
            recs.insert(rec.version, rec);
            ds = Some(d);

            // (5) old versions are immutable: after a restore re-read every earlier version
            if matches!(op, Op::Restore(_) | Op::RestoreAt(..)) {
                self.check_old_versions(&uri, &recs, ln, &mut res);
            }
        }
        if ds.is_some() && !lines.is_empty() {
            self.check_old_versions(&uri, &recs, lines.len() - 1, &mut res);
        }
        res.tags.push(if stable { "stable_row_ids:on".into() } else { "stable_row_ids:off".into() });
        res.tags.push(format!("restores:{}", n_restores.min(3)));
        if wrote_after_restore {
            res.tags.push("wrote_after_restore".into());
        }
        res.nontrivial = wrote_after_restore && recs.len() >= 3;
        res
    }

    fn rule(&self) -> String {
        "random histories of 3-10 ops on one dataset (memory://, 1 in 16 in a local directory): create (stable row ids on for 3 of 4 \
         cases) then append / delete (c0 < x, c0 >= x, c0 IN, true) / overwrite (may change the number of columns) / restore to a \
         random earlier version (sometimes the latest), half of the restores as a Restore transaction built on a stale handle \
         (read version mostly latest-1, an append committed in between) and committed through CommitBuilder; most histories restore at least once and append afterwards; 0-13 rows per \
         write, 1-2 Int64 columns, 8% NULL cells, max_rows_per_file 1-8 or 1000; 15% malformed (ops before create, create twice, \
         wrong width, f=0, restore of version 0 / a future version, broken syntax). Every step runs with fresh session caches. \
         Non-trivial = a restore followed by a write of at least one row, at least 3 versions."
            .into()
    }
}

impl C07 {
    fn check_old_versions(&mut self, uri: &str, recs: &BTreeMap<u64, VersionRec>, ln: usize, res: &mut CaseResult) {
        for (v, old) in recs {
            // one session per version: cached row-id sequences are keyed by fragment id only (C38)
            self.fresh_session();
            let got = self.kit.open(uri, Some(*v)).and_then(|d| self.observe(&d));
            match got {
                Ok(now) if now == *old => {}
                Ok(now) => res.failures.push(OracleFailure {
                    what: format!(
                        "version {v} changed: now k={} frags={} scan={}, when written k={} frags={} scan={}",
                        now.k,
                        show_frags(&now.frags),
                        show_rows(&now.scan),
                        old.k,
                        show_frags(&old.frags),
                        show_rows(&old.scan)
                    ),
                    key: Some("old_version_changed".into()),
                    line: ln,
                }),
                Err(e) => res.failures.push(OracleFailure {
                    what: format!("version {v} can no longer be read: {}", e.msg),
                    key: Some("old_version_unreadable".into()),
                    line: ln,
                }),
            }
        }
    }
}

fn main() {
    run_main(C07 { kit: Kit::new() })
}
