//! C24: index coverage is never claimed for data the index did not see.
//!
//! Interpreter of the C24 op lines against the REAL lance code: one `memory://` table with three nullable Int64 columns
//! (`c0` = unique key k, `c1` = x, `c2` = y), three `Dataset` handles that go stale on purpose (the stale-handle technique:
//! a transaction is BUILT from the version its handle is at and COMMITTED on whatever is the latest version then —
//! conflict check `TransactionRebase::check_txn` against every transaction in between, rebase, `build_manifest`).
//!
//! ```text
//! create f=<nat> [s=<0|1>] <rows> WriteMode::Create, max_rows_per_file = f (ceil(n/f) fragments), s = enable_stable_row_ids
//!                                (default 0); every handle opens v1
//! open <h>                       handle h (0..2) := latest version
//! <h> append <rows>              one more fragment; keys must never have been used in the case
//! <h> delete <keys>              DeleteBuilder "c0 IN (keys)", conflict_retries(0)
//! <h> updx <keys> <int>          UpdateBuilder set c1 = <int> where c0 IN (keys)          (Update / RewriteRows)
//! <h> updy <keys> <int>          same on c2
//! <h> mix <rows of width 2>      MergeInsertBuilder on c0, source (c0, c1), UpdateAll / DoNothing, conflict_retries(0)
//!                                (partial schema: Update / RewriteColumns, fields_modified = {c0, c1})
//! <h> index x|y                  create_index(BTree, name ix|iy, replace = true) on c1|c2
//! <h> optimize                   optimize_indices(default)
//! <h> repl <frag> <rows>         Operation::DataReplacement of the data file of fragment <frag> that stores c1 (width 3 =
//!                                the original file, width 2 = the (c0, c1) file a `mix` left behind), fresh keys, as many
//!                                rows as the fragment has physical rows; committed with CommitBuilder at the handle's version
//! <h> compact                    compact_files(target 2^20 rows, materialize deletions with threshold 0, one thread)
//! ```
//!
//! Output of a mutating op: `ok v=<version> txn=<committed transaction> frags=<id:rows:deleted offsets:s|u …>
//! idx=<name/fields/bitmap …> scan=<ordered scan>` (`txn=none` when the version did not move) or `err <kind>`; of `open`:
//! `ok v=<version>`.  `err parse | no_table | keys | width | len | no_frag` are decided by the interpreter, identically on
//! both sides.
//!
//! Oracle (independent of the Lean model): after every successful step and for a set of literals v (every value ever
//! written to the column, plus an absent one) the scan `c1 = v` (`c2 = v`) with `use_scalar_index(true)` returns exactly
//! the rows of the same scan with `use_scalar_index(false)` (compared with `_rowaddr`).  A difference is classified from
//! the REAL transactions of the history (`read_transaction_by_version`), not from the model: a fragment claimed by an
//! index commit that was rebased over a column-rewriting Update of its field (`create_index_rebased_over_column_rewrite`),
//! a fragment whose indexed column was replaced by a DataReplacement while the index kept claiming it
//! (`data_replacement_keeps_index_coverage`), a fragment pruned from an index and claimed again by `optimize_indices`,
//! which merges the old entries back in (`optimize_merges_pruned_fragment`).  Anything else is unclassified.

use std::collections::{BTreeMap, BTreeSet};
use std::panic::{catch_unwind, AssertUnwindSafe};
use std::sync::Arc;

use arrow_array::RecordBatchIterator;
use hcommon::*;
use lance::dataset::optimize::{compact_files, CompactionOptions};
use lance::dataset::transaction::{DataReplacementGroup, Operation, Transaction, UpdateMode};
use lance::dataset::{
    CommitBuilder, DeleteBuilder, InsertBuilder, MergeInsertBuilder, UpdateBuilder, WhenMatched, WhenNotMatched,
};
use lance::session::Session;
use lance::Dataset;
use lance_index::optimize::OptimizeOptions;
use lance_index::scalar::ScalarIndexParams;
use lance_index::{DatasetIndexExt, IndexType};

#[path = "../tablekit.rs"]
#[allow(dead_code)]
mod tablekit;
use tablekit::*;

const KEY_REBASE: &str = "create_index_rebased_over_column_rewrite";
const KEY_REPL: &str = "data_replacement_keeps_index_coverage";
const KEY_OPT: &str = "optimize_merges_pruned_fragment";
const NH: usize = 3;

struct C24 {
    kit: Kit,
    compaction: bool,
}

#[derive(Clone, Debug)]
enum Act {
    Append(Vec<Row>),
    Delete(Vec<i64>),
    Upd(usize, Vec<i64>, i64),
    Mix(Vec<Row>),
    Index(usize),
    Optimize,
    Repl(u64, Vec<Row>),
    Compact,
}

#[derive(Clone, Debug)]
enum Op {
    Create { f: usize, s: bool, rows: Vec<Row> },
    Open(usize),
    Do(usize, Act),
}

fn parse_nat(s: &str) -> Option<u64> {
    if s.is_empty() || s.len() > 9 || !s.bytes().all(|b| b.is_ascii_digit()) {
        return None;
    }
    s.parse().ok()
}

fn parse_int(s: &str) -> Option<i64> {
    parse_cell(s)?
}

fn parse_keys(s: &str) -> Option<Vec<i64>> {
    s.split(',').map(parse_int).collect()
}

fn rows_w(s: &str, w: &[usize]) -> Option<Vec<Row>> {
    let rows = parse_rows(s)?;
    let first = rows.first()?.len();
    if !w.contains(&first) || !rows.iter().all(|r| r.len() == first) {
        return None;
    }
    Some(rows)
}

fn parse_op(line: &str) -> Option<Op> {
    let t: Vec<&str> = line.split(' ').collect();
    match t.as_slice() {
        ["create", f, rows] => {
            let f = parse_nat(f.strip_prefix("f=")?)? as usize;
            if f == 0 {
                return None;
            }
            Some(Op::Create { f, s: false, rows: rows_w(rows, &[3])? })
        }
        ["create", f, sr, rows] => {
            let f = parse_nat(f.strip_prefix("f=")?)? as usize;
            if f == 0 {
                return None;
            }
            let s = match sr.strip_prefix("s=")? {
                "0" => false,
                "1" => true,
                _ => return None,
            };
            Some(Op::Create { f, s, rows: rows_w(rows, &[3])? })
        }
        ["open", h] => {
            let h = parse_nat(h)? as usize;
            (h < NH).then_some(Op::Open(h))
        }
        [h, rest @ ..] => {
            let h = parse_nat(h)? as usize;
            if h >= NH {
                return None;
            }
            let act = match rest {
                ["append", rows] => Act::Append(rows_w(rows, &[3])?),
                ["delete", keys] => Act::Delete(parse_keys(keys)?),
                ["updx", keys, v] => Act::Upd(1, parse_keys(keys)?, parse_int(v)?),
                ["updy", keys, v] => Act::Upd(2, parse_keys(keys)?, parse_int(v)?),
                ["mix", rows] => Act::Mix(rows_w(rows, &[2])?),
                ["index", "x"] => Act::Index(1),
                ["index", "y"] => Act::Index(2),
                ["optimize"] => Act::Optimize,
                ["repl", f, rows] => Act::Repl(parse_nat(f)?, rows_w(rows, &[2, 3])?),
                ["compact"] => Act::Compact,
                _ => return None,
            };
            Some(Op::Do(h, act))
        }
        _ => None,
    }
}

fn show_keys(ks: &[i64]) -> String {
    ks.iter().map(|k| k.to_string()).collect::<Vec<_>>().join(",")
}

fn show_act(a: &Act) -> String {
    match a {
        Act::Append(rows) => format!("append {}", show_rows(rows)),
        Act::Delete(ks) => format!("delete {}", show_keys(ks)),
        Act::Upd(1, ks, v) => format!("updx {} {v}", show_keys(ks)),
        Act::Upd(_, ks, v) => format!("updy {} {v}", show_keys(ks)),
        Act::Mix(rows) => format!("mix {}", show_rows(rows)),
        Act::Index(1) => "index x".into(),
        Act::Index(_) => "index y".into(),
        Act::Optimize => "optimize".into(),
        Act::Repl(f, rows) => format!("repl {f} {}", show_rows(rows)),
        Act::Compact => "compact".into(),
    }
}

fn act_name(a: &Act) -> &'static str {
    match a {
        Act::Append(_) => "append",
        Act::Delete(_) => "delete",
        Act::Upd(1, ..) => "updx",
        Act::Upd(..) => "updy",
        Act::Mix(_) => "mix",
        Act::Index(1) => "index_x",
        Act::Index(_) => "index_y",
        Act::Optimize => "optimize",
        Act::Repl(..) => "repl",
        Act::Compact => "compact",
    }
}

fn show_ids<I: IntoIterator<Item = u64>>(xs: I) -> String {
    let mut v: Vec<u64> = xs.into_iter().collect();
    v.sort();
    show_nat_list(v)
}

/// canonical form of a committed transaction
fn show_txn(t: &Transaction) -> String {
    match &t.operation {
        Operation::Append { fragments } => format!("append:{}", fragments.len()),
        Operation::Delete { updated_fragments, deleted_fragment_ids, .. } => format!(
            "delete:u={}:r={}",
            show_ids(updated_fragments.iter().map(|f| f.id)),
            show_ids(deleted_fragment_ids.iter().copied())
        ),
        Operation::Update { removed_fragment_ids, updated_fragments, new_fragments, fields_modified, update_mode, .. } => {
            format!(
                "update:r={}:u={}:n={}:fm={}:m={}",
                show_ids(removed_fragment_ids.iter().copied()),
                show_ids(updated_fragments.iter().map(|f| f.id)),
                new_fragments.len(),
                show_ids(fields_modified.iter().map(|f| *f as u64)),
                match update_mode {
                    Some(UpdateMode::RewriteRows) => "rows",
                    Some(UpdateMode::RewriteColumns) => "cols",
                    None => "none",
                }
            )
        }
        Operation::CreateIndex { new_indices, removed_indices } => {
            let mut n: Vec<String> = new_indices
                .iter()
                .map(|i| {
                    format!(
                        "{}/{}/{}",
                        i.name,
                        show_ids(i.fields.iter().map(|f| *f as u64)),
                        i.fragment_bitmap.as_ref().map(|b| show_ids(b.iter().map(|x| x as u64))).unwrap_or_else(|| "none".into())
                    )
                })
                .collect();
            n.sort();
            let mut r: Vec<String> = removed_indices.iter().map(|i| i.name.clone()).collect();
            r.sort();
            format!("createindex:new={}:rm={}", if n.is_empty() { "-".into() } else { n.join("+") }, if r.is_empty() { "-".into() } else { r.join("+") })
        }
        Operation::DataReplacement { replacements } => {
            let v: Vec<String> = replacements
                .iter()
                .map(|DataReplacementGroup(f, file)| format!("{f}/{}", show_ids(file.fields.iter().map(|x| *x as u64))))
                .collect();
            format!("datarepl:{}", v.join("+"))
        }
        Operation::Rewrite { groups, rewritten_indices, frag_reuse_index } => {
            let g: Vec<String> = groups
                .iter()
                .map(|g| format!("{}>{}", show_ids(g.old_fragments.iter().map(|f| f.id)), show_ids(g.new_fragments.iter().map(|f| f.id))))
                .collect();
            format!("rewrite:{}:ri={}:fri={}", g.join("+"), rewritten_indices.len(), frag_reuse_index.is_some() as u8)
        }
        Operation::ReserveFragments { num_fragments } => format!("reserve:{num_fragments}"),
        other => format!("other:{}", other.name()),
    }
}

/// harness-side ghost of one index name, maintained from the REAL transactions (classification of oracle failures only)
#[derive(Clone, Debug, Default)]
struct Ghost {
    fields: Vec<i32>,
    /// fragments the index claims although it holds other values for them: fragment -> finding key
    stale: BTreeMap<u64, &'static str>,
    /// fragments pruned from the bitmap while the index files still hold their (old) entries
    pruned: BTreeSet<u64>,
}

struct Obs {
    version: u64,
    frag_ids: BTreeSet<u64>,
    frags: String,
    idx: String,
    scan: Vec<Row>,
    /// name -> (fields, bitmap, uuid)
    indices: BTreeMap<String, (Vec<i32>, BTreeSet<u64>, String)>,
}

impl C24 {
    fn fresh_session(&mut self) {
        let reg = self.kit.session.store_registry();
        self.kit.session = Arc::new(Session::new(64 << 20, 64 << 20, reg));
    }

    fn spec() -> SchemaSpec {
        SchemaSpec::ints(3)
    }

    fn observe(&self, ds: &Dataset) -> Result<Obs, KitError> {
        let kit = &self.kit;
        let mut fr: Vec<String> = vec![];
        for f in ds.get_fragments() {
            let m = f.metadata();
            let dv = kit.block_on(f.get_deletion_vector()).map_err(KitError::from)?;
            let phys = m.physical_rows.unwrap_or(usize::MAX);
            let dels: Vec<u64> = match &dv {
                Some(d) => (0..phys as u64).filter(|i| d.contains(*i as u32)).collect(),
                None => vec![],
            };
            // s = the fragment has been column-rewritten (more than one live data file)
            fr.push(format!("{}:{}:{}:{}", m.id, phys, show_nat_list(dels), if m.files.len() > 1 { "s" } else { "u" }));
        }
        let loaded = kit.lance_call("load_indices", ds.load_indices())?;
        let mut indices = BTreeMap::new();
        let mut names: Vec<String> = vec![];
        for i in loaded.iter() {
            let bm: BTreeSet<u64> = i.fragment_bitmap.as_ref().map(|b| b.iter().map(|x| x as u64).collect()).unwrap_or_default();
            names.push(format!(
                "{}/{}/{}",
                i.name,
                show_ids(i.fields.iter().map(|f| *f as u64)),
                if i.fragment_bitmap.is_some() { show_ids(bm.iter().copied()) } else { "none".into() }
            ));
            indices.insert(i.name.clone(), (i.fields.clone(), bm, i.uuid.to_string()));
        }
        names.sort();
        let scan = kit.scan(ds, &Self::spec(), &ScanOpts::ordered())?;
        Ok(Obs {
            version: ds.manifest().version,
            frag_ids: ds.get_fragments().iter().map(|f| f.id() as u64).collect(),
            frags: if fr.is_empty() { "-".into() } else { fr.join(",") },
            idx: if names.is_empty() { "-".into() } else { names.join("+") },
            scan,
            indices,
        })
    }

    /// rows (with `_rowaddr` appended) of `c<col> = v`
    fn probe(&self, ds: &Dataset, col: usize, v: i64, use_index: bool) -> Result<Vec<Row>, KitError> {
        let mut sc = ds.scan();
        sc.with_row_address();
        sc.use_scalar_index(use_index);
        sc.filter(&format!("c{col} = {v}"))?;
        let batch = self.kit.lance_call("probe", sc.try_into_batch())?;
        let mut rows =
            Self::spec().decode(&batch, &["_rowaddr"]).map_err(|e| KitError::other(format!("decode: {}", e.0)))?;
        rows.sort();
        Ok(rows)
    }

    fn run_act(&self, h: &Dataset, act: &Act) -> Result<Dataset, KitError> {
        let kit = &self.kit;
        let spec = Self::spec();
        let keys_sql = |ks: &[i64]| format!("c0 IN ({})", ks.iter().map(|k| k.to_string()).collect::<Vec<_>>().join(", "));
        match act {
            Act::Append(rows) => kit.write(Ok(h), Mode::Append, &spec, &[rows.clone()], &Knobs::default()),
            Act::Delete(ks) => {
                let d = kit.lance_call("delete", DeleteBuilder::new(Arc::new(h.clone()), keys_sql(ks)).conflict_retries(0).execute())?;
                Ok(d.as_ref().clone())
            }
            Act::Upd(col, ks, v) => {
                let d = h.clone();
                let r = kit.lance_call("update", async {
                    UpdateBuilder::new(Arc::new(d))
                        .update_where(&keys_sql(ks))?
                        .set(format!("c{col}"), &v.to_string())?
                        .conflict_retries(0)
                        .build()?
                        .execute()
                        .await
                })?;
                Ok(r.new_dataset.as_ref().clone())
            }
            Act::Mix(rows) => {
                let d = h.clone();
                let s2 = SchemaSpec::ints(2);
                let reader = RecordBatchIterator::new(vec![Ok(s2.batch(rows))].into_iter(), s2.arrow_schema());
                let r = kit.lance_call("merge_insert", async {
                    let mut mb = MergeInsertBuilder::try_new(Arc::new(d), vec!["c0".to_string()])?;
                    mb.when_matched(WhenMatched::UpdateAll).when_not_matched(WhenNotMatched::DoNothing).conflict_retries(0);
                    mb.try_build()?.execute_reader(Box::new(reader)).await
                })?;
                Ok(r.0.as_ref().clone())
            }
            Act::Index(col) => {
                let mut d = h.clone();
                let name = if *col == 1 { "ix" } else { "iy" };
                let cname = format!("c{col}");
                kit.lance_call(
                    "create_index",
                    d.create_index(&[cname.as_str()], IndexType::BTree, Some(name.to_string()), &ScalarIndexParams::default(), true),
                )?;
                Ok(d)
            }
            Act::Optimize => {
                let mut d = h.clone();
                kit.lance_call("optimize_indices", d.optimize_indices(&OptimizeOptions::default()))?;
                Ok(d)
            }
            Act::Repl(frag, rows) => {
                let w = rows[0].len();
                let s = SchemaSpec::ints(w);
                let batch = s.batch(rows);
                let arc = Arc::new(h.clone());
                // write the replacement file into the table's data directory without committing it
                let params = lance::dataset::WriteParams { mode: lance::dataset::WriteMode::Append, ..Default::default() };
                let txn = kit.lance_call("execute_uncommitted", async {
                    InsertBuilder::new(arc.clone()).with_params(&params).execute_uncommitted(vec![batch]).await
                })?;
                let file = match txn.operation {
                    Operation::Append { fragments } if fragments.len() == 1 && fragments[0].files.len() == 1 => {
                        fragments[0].files[0].clone()
                    }
                    _ => return Err(KitError::other("harness: uncommitted write did not produce one data file")),
                };
                let t = Transaction::new(
                    h.manifest().version,
                    Operation::DataReplacement { replacements: vec![DataReplacementGroup(*frag, file)] },
                    None,
                );
                kit.lance_call("commit", CommitBuilder::new(arc).execute(t))
            }
            Act::Compact => {
                let mut d = h.clone();
                let opts = CompactionOptions {
                    target_rows_per_fragment: 1 << 20,
                    materialize_deletions: true,
                    materialize_deletions_threshold: 0.0,
                    num_threads: Some(1),
                    ..Default::default()
                };
                kit.lance_call("compact_files", compact_files(&mut d, opts, None))?;
                Ok(d)
            }
        }
    }

    // ---------------------------------------------------------------------------------------------- generator

    fn gen_rows(next_key: &mut i64, n: usize, rng: &mut Rng) -> Vec<Row> {
        (0..n)
            .map(|_| {
                let k = *next_key;
                *next_key += 1;
                vec![Some(k), Some(10 * (1 + rng.below(4)) as i64), Some(100 * (1 + rng.below(3)) as i64)]
            })
            .collect()
    }
}

/// generator-side approximation of the latest table (only used to make the generated ops meaningful)
#[derive(Clone, Debug, Default)]
struct Sim {
    /// fragment id -> (keys of the physical rows, column-rewritten)
    frags: BTreeMap<u64, (Vec<i64>, bool)>,
    live: BTreeSet<i64>,
    next_frag: u64,
    next_key: i64,
}

impl Sim {
    fn add_frag(&mut self, keys: Vec<i64>) {
        for k in &keys {
            self.live.insert(*k);
        }
        self.frags.insert(self.next_frag, (keys, false));
        self.next_frag += 1;
    }
    fn pick_keys(&self, rng: &mut Rng) -> Vec<i64> {
        let live: Vec<i64> = self.live.iter().copied().collect();
        if live.is_empty() {
            return vec![1];
        }
        let n = 1 + rng.usize(2.min(live.len()));
        let mut out = vec![];
        // keys of one fragment more often than not: whole-fragment effects (removed fragments) need that
        if rng.chance(1, 4) {
            let ids: Vec<&u64> = self.frags.keys().collect();
            let f = **rng.pick(&ids);
            return self.frags[&f].0.iter().copied().filter(|k| self.live.contains(k)).collect::<Vec<_>>().into_iter().take(4).collect();
        }
        for _ in 0..n {
            let k = *rng.pick(&live);
            if !out.contains(&k) {
                out.push(k);
            }
        }
        if rng.chance(1, 10) {
            out.push(9000 + rng.below(5) as i64);
        }
        out
    }
    fn gen_act(&mut self, rng: &mut Rng, kind: &str) -> Act {
        match kind {
            "append" => {
                let n = 1 + rng.usize(3);
                let rows = C24::gen_rows(&mut self.next_key, n, rng);
                self.add_frag(rows.iter().map(|r| r[0].unwrap()).collect());
                Act::Append(rows)
            }
            "delete" => {
                let ks = self.pick_keys(rng);
                for k in &ks {
                    self.live.remove(k);
                }
                Act::Delete(ks)
            }
            "updx" | "updy" => {
                let ks = self.pick_keys(rng);
                let moved: Vec<i64> = ks.iter().copied().filter(|k| self.live.contains(k)).collect();
                if !moved.is_empty() {
                    self.frags.insert(self.next_frag, (moved, false));
                    self.next_frag += 1;
                }
                let v = if kind == "updx" { 10 * (5 + rng.below(3)) as i64 } else { 100 * (4 + rng.below(3)) as i64 };
                Act::Upd(if kind == "updx" { 1 } else { 2 }, ks, v)
            }
            "mix" => {
                let ks = self.pick_keys(rng);
                let mut seen = BTreeSet::new();
                let rows: Vec<Row> = ks
                    .iter()
                    .filter(|k| seen.insert(**k))
                    .map(|k| vec![Some(*k), Some(10 * (8 + rng.below(3)) as i64)])
                    .collect();
                for (_, (keys, split)) in self.frags.iter_mut() {
                    if keys.iter().any(|k| ks.contains(k) && self.live.contains(k)) {
                        *split = true;
                    }
                }
                Act::Mix(rows)
            }
            "index_x" => Act::Index(1),
            "index_y" => Act::Index(2),
            "optimize" => Act::Optimize,
            "compact" => Act::Compact,
            _ => {
                // repl
                let ids: Vec<u64> = self.frags.keys().copied().collect();
                let f = if ids.is_empty() { 0 } else { *rng.pick(&ids) };
                let (keys, split) = self.frags.get(&f).cloned().unwrap_or((vec![0], false));
                let n = keys.len();
                for k in &keys {
                    self.live.remove(k);
                }
                let w = if split { 2 } else { 3 };
                let mut rows = C24::gen_rows(&mut self.next_key, n, rng);
                for r in rows.iter_mut() {
                    r[1] = Some(10 * (11 + rng.below(3)) as i64);
                    r.truncate(w);
                }
                let newkeys: Vec<i64> = rows.iter().map(|r| r[0].unwrap()).collect();
                for k in &newkeys {
                    self.live.insert(*k);
                }
                self.frags.insert(f, (newkeys, split));
                Act::Repl(f, rows)
            }
        }
    }
}

const KINDS: [&str; 9] = ["index_x", "index_y", "optimize", "updx", "updy", "mix", "repl", "delete", "append"];

impl Prop for C24 {
    fn id(&self) -> &'static str {
        "C24"
    }

    fn budget(&self, tier: Tier) -> usize {
        match tier {
            Tier::Quick => 340,
            Tier::Thorough => 5000,
            Tier::Search => 2500,
        }
    }

    fn gen_case(&mut self, rng: &mut Rng, _tier: Tier, idx: usize) -> Vec<String> {
        let mut kinds: Vec<&str> = KINDS.to_vec();
        if self.compaction {
            kinds.push("compact");
        }
        let nk = kinds.len();
        let mut sim = Sim { next_key: 1, ..Default::default() };
        let mut lines: Vec<String> = vec![];
        let push = |lines: &mut Vec<String>, h: usize, a: &Act| lines.push(format!("{h} {}", show_act(a)));
        // table: 2-3 fragments of 2-3 rows
        let f = 2 + rng.usize(2);
        let n = f * (1 + rng.usize(2)) + rng.usize(f);
        let rows = C24::gen_rows(&mut sim.next_key, n.max(2), rng);
        for c in rows.chunks(f) {
            sim.add_frag(c.iter().map(|r| r[0].unwrap()).collect());
        }
        // stable row ids: a block of targeted shapes after the exhaustive pairs, and 1/5 of the random histories
        let targeted = idx >= 2 * nk * nk && idx < 2 * nk * nk + 50;
        let stable = targeted || (idx >= 2 * nk * nk + 50 && rng.chance(1, 5));
        if stable {
            lines.push(format!("create f={f} s=1 {}", show_rows(&rows)));
        } else {
            lines.push(format!("create f={f} {}", show_rows(&rows)));
        }
        if targeted {
            // index on x (and sometimes y); an append the index does not cover; an update of the OTHER column that moves
            // every row of the appended fragment and some rows of a covered one (build_manifest, Update arm:
            // register_pure_rewrite_rows_update_frags_in_indices), through a fresh or a stale handle
            push(&mut lines, 0, &Act::Index(1));
            if rng.chance(1, 3) {
                push(&mut lines, 0, &Act::Index(2));
            }
            lines.push("open 1".into());
            let a = sim.gen_act(rng, "append");
            let app_keys: Vec<i64> = match &a {
                Act::Append(rows) => rows.iter().map(|r| r[0].unwrap()).collect(),
                _ => vec![],
            };
            push(&mut lines, 0, &a);
            if rng.chance(1, 4) {
                push(&mut lines, 0, &Act::Optimize);
            }
            let mut ks = app_keys.clone();
            if rng.chance(1, 6) {
                ks.pop();
            }
            let old: Vec<i64> = sim.live.iter().copied().filter(|k| !app_keys.contains(k)).collect();
            for _ in 0..rng.usize(3) {
                let k = *rng.pick(&old);
                if !ks.contains(&k) {
                    ks.push(k);
                }
            }
            let col = if rng.chance(3, 4) { 2 } else { 1 };
            let h = if rng.chance(2, 3) { 0 } else { 1 };
            let moved: Vec<i64> = ks.clone();
            sim.frags.insert(sim.next_frag, (moved, false));
            sim.next_frag += 1;
            push(&mut lines, h, &Act::Upd(col, ks, if col == 2 { 900 } else { 90 }));
            lines.push("open 0".into());
            for _ in 0..rng.usize(3) {
                let kind = *rng.pick(&["updy", "updx", "delete", "optimize", "append", "index_y"]);
                let a = sim.gen_act(rng, kind);
                push(&mut lines, if rng.chance(1, 4) { 1 } else { 0 }, &a);
            }
            return lines;
        }
        if idx < 2 * nk * nk {
            // exhaustive: every ordered pair of op kinds built at the same version, on a table with / without an index on x
            let with_index = idx >= nk * nk;
            let (a, b) = ((idx % (nk * nk)) / nk, idx % nk);
            if with_index {
                push(&mut lines, 0, &Act::Index(1));
                if rng.chance(1, 2) {
                    push(&mut lines, 0, &Act::Index(2));
                }
            }
            lines.push("open 1".into());
            lines.push("open 2".into());
            let a1 = sim.gen_act(rng, kinds[a]);
            push(&mut lines, 1, &a1);
            let a2 = sim.gen_act(rng, kinds[b]);
            push(&mut lines, 2, &a2);
            lines.push("open 0".into());
            if rng.chance(1, 2) {
                push(&mut lines, 0, &Act::Optimize);
            }
            return lines;
        }
        // random histories: handle 0 is re-opened before most uses, 1 and 2 go stale
        let steps = 4 + rng.usize(7);
        for _ in 0..steps {
            let h = match rng.below(10) {
                0..=4 => 0,
                5..=7 => 1,
                _ => 2,
            };
            if (h == 0 && rng.chance(4, 5)) || rng.chance(1, 6) {
                lines.push(format!("open {h}"));
            }
            let kind = match rng.below(20) {
                0..=2 => "index_x",
                3 => "index_y",
                4..=6 => "optimize",
                7..=8 => "updx",
                9 => "updy",
                10..=13 => "mix",
                14..=15 => "repl",
                16 => "delete",
                17 => "append",
                _ => {
                    if self.compaction {
                        "compact"
                    } else {
                        "mix"
                    }
                }
            };
            // column rewrites in place (mix, repl) are exercised on tables without stable row ids
            let kind = if stable && (kind == "mix" || kind == "repl") { if rng.chance(1, 2) { "updy" } else { "append" } } else { kind };
            let a = sim.gen_act(rng, kind);
            push(&mut lines, h, &a);
        }
        // malformed stream (<= 15 %)
        if rng.chance(1, 8) && lines.len() > 2 {
            let i = 1 + rng.usize(lines.len() - 1);
            lines[i] = match rng.below(6) {
                0 => format!("{} extra", lines[i]),
                1 => "7 optimize".into(),
                2 => "0 mix 1,n,3".into(),
                3 => "1 repl 99 1,2,3".into(),
                4 => "0 mix n,5".into(),
                _ => "0 append 1,2,3".into(),
            };
        }
        lines
    }

    fn exec_case(&mut self, lines: &[String]) -> CaseResult {
        self.kit.reset_session();
        let uri = self.kit.fresh_uri();
        let mut res = CaseResult::default();
        let debug = std::env::var("C24_DEBUG").is_ok();
        let mut handles: Vec<Option<Dataset>> = vec![None; NH];
        let mut anchor: Option<Dataset> = None;
        let mut used_keys: BTreeSet<i64> = BTreeSet::new();
        // literals per column
        let mut lits: [BTreeSet<i64>; 3] = [BTreeSet::new(), BTreeSet::new(), BTreeSet::new()];
        // ghost of every index ever committed, by uuid (a stale optimize_indices may merge an index that has been replaced since)
        let mut ghosts: BTreeMap<String, Ghost> = BTreeMap::new();
        let mut seen_version = 0u64;
        let mut stable = false;
        let mut prev_frags: BTreeSet<u64> = BTreeSet::new();
        let mut obs_before: BTreeMap<String, (Vec<i32>, BTreeSet<u64>, String)> = BTreeMap::new();
        let mut n_stale_commits = 0usize;
        let mut n_conflicts = 0usize;
        let mut n_index_commits = 0usize;

        for (ln, line) in lines.iter().enumerate() {
            let Some(op) = parse_op(line) else {
                res.outputs.push("err parse".into());
                res.tags.push("err:parse".into());
                continue;
            };
            // ---- create / open
            let (h, act) = match op {
                Op::Create { f, s, rows } => {
                    let keys: Vec<Cell> = rows.iter().map(|r| r[0]).collect();
                    if anchor.is_some() {
                        res.outputs.push("err no_table".into());
                        continue;
                    }
                    if keys.iter().any(|k| k.is_none()) || keys.iter().collect::<BTreeSet<_>>().len() != keys.len() {
                        res.outputs.push("err keys".into());
                        continue;
                    }
                    let knobs = Knobs { max_rows_per_file: Some(f), stable_row_ids: s, ..Default::default() };
                    stable = s;
                    match self.kit.create(&uri, &Self::spec(), &[rows.clone()], &knobs) {
                        Ok(d) => {
                            for r in &rows {
                                used_keys.insert(r[0].unwrap());
                                for c in 1..3 {
                                    if let Some(v) = r[c] {
                                        lits[c].insert(v);
                                    }
                                }
                            }
                            for hh in handles.iter_mut() {
                                *hh = Some(d.clone());
                            }
                            seen_version = d.manifest().version;
                            res.tags.push("op:create".into());
                            match self.observe(&d) {
                                Ok(o) => {
                                    prev_frags = o.frag_ids.clone();
                                    res.outputs.push(format!(
                                    "ok v={} txn=create frags={} idx={} scan={}",
                                    o.version,
                                    o.frags,
                                    o.idx,
                                    show_rows(&o.scan)
                                    ))
                                }
                                Err(e) => res.outputs.push(format!("err observe {}", e.kind.as_str())),
                            }
                            anchor = Some(d);
                        }
                        Err(e) => {
                            if debug {
                                eprintln!("create: {}", e.msg);
                            }
                            res.outputs.push(format!("err {}", e.kind.as_str()));
                        }
                    }
                    continue;
                }
                Op::Open(h) => {
                    if anchor.is_none() {
                        res.outputs.push("err no_table".into());
                        continue;
                    }
                    match self.kit.open(&uri, None) {
                        Ok(d) => {
                            res.outputs.push(format!("ok v={}", d.manifest().version));
                            handles[h] = Some(d);
                        }
                        Err(e) => res.outputs.push(format!("err {}", e.kind.as_str())),
                    }
                    res.tags.push("op:open".into());
                    continue;
                }
                Op::Do(h, act) => (h, act),
            };
            let Some(handle) = handles[h].clone() else {
                res.outputs.push("err no_table".into());
                continue;
            };
            let name = act_name(&act);
            res.tags.push(format!("op:{name}"));
            // ---- interpreter-level rejections (identical in the Lean driver)
            let reject: Option<&'static str> = match &act {
                Act::Append(rows) => {
                    let keys: Vec<Cell> = rows.iter().map(|r| r[0]).collect();
                    if keys.iter().any(|k| k.map(|k| used_keys.contains(&k)).unwrap_or(true))
                        || keys.iter().collect::<BTreeSet<_>>().len() != keys.len()
                    {
                        Some("keys")
                    } else {
                        None
                    }
                }
                Act::Mix(rows) => {
                    let keys: Vec<Cell> = rows.iter().map(|r| r[0]).collect();
                    if keys.iter().any(|k| k.is_none()) || keys.iter().collect::<BTreeSet<_>>().len() != keys.len() {
                        Some("keys")
                    } else {
                        None
                    }
                }
                Act::Repl(frag, rows) => {
                    let keys: Vec<Cell> = rows.iter().map(|r| r[0]).collect();
                    let fr = handle.get_fragments().into_iter().find(|f| f.id() as u64 == *frag);
                    match fr {
                        None => Some("no_frag"),
                        Some(f) => {
                            let m = f.metadata();
                            let split = m.files.len() > 1;
                            if (rows[0].len() == 2) != split {
                                Some("width")
                            } else if m.physical_rows != Some(rows.len()) {
                                Some("len")
                            } else if keys.iter().any(|k| k.map(|k| used_keys.contains(&k)).unwrap_or(true))
                                || keys.iter().collect::<BTreeSet<_>>().len() != keys.len()
                            {
                                Some("keys")
                            } else {
                                None
                            }
                        }
                    }
                }
                _ => None,
            };
            if let Some(kind) = reject {
                res.outputs.push(format!("err {kind}"));
                res.tags.push(format!("err:{kind}"));
                continue;
            }
            match &act {
                Act::Append(rows) | Act::Repl(_, rows) => {
                    for r in rows {
                        used_keys.insert(r[0].unwrap());
                        for c in 1..r.len() {
                            if let Some(v) = r[c] {
                                lits[c].insert(v);
                            }
                        }
                    }
                }
                Act::Mix(rows) => {
                    for r in rows {
                        if let Some(v) = r[1] {
                            lits[1].insert(v);
                        }
                    }
                }
                Act::Upd(c, _, v) => {
                    lits[*c].insert(*v);
                }
                _ => {}
            }
            let stale = handle.manifest().version < seen_version;
            // ---- run on the real code
            let r = catch_unwind(AssertUnwindSafe(|| self.run_act(&handle, &act))).unwrap_or_else(|e| {
                let msg = e
                    .downcast_ref::<String>()
                    .cloned()
                    .or_else(|| e.downcast_ref::<&str>().map(|s| s.to_string()))
                    .unwrap_or_else(|| "panic".into());
                Err(KitError { kind: ErrKind::Other, msg: format!("PANIC {msg}") })
            });
            let new_ds = match r {
                Err(e) => {
                    if debug {
                        eprintln!("line {ln} `{line}`: {:?}: {}", e.kind, e.msg);
                    }
                    if e.msg.starts_with("PANIC") {
                        res.failures.push(OracleFailure { what: format!("{name}: {}", e.msg), key: Some("panic".into()), line: ln });
                        res.outputs.push("err panic".into());
                    } else {
                        res.outputs.push(format!("err {}", e.kind.as_str()));
                    }
                    if e.kind == ErrKind::ConflictRetryable {
                        n_conflicts += 1;
                    }
                    res.tags.push(format!("err:{}:{}", e.kind.as_str(), name));
                    continue;
                }
                Ok(d) => d,
            };
            handles[h] = Some(new_ds.clone());
            // ---- observe the latest version through fresh caches
            self.fresh_session();
            let latest = match self.kit.open(&uri, None) {
                Ok(d) => d,
                Err(e) => {
                    res.failures.push(OracleFailure { what: format!("re-opening failed: {}", e.msg), key: Some("reopen_error".into()), line: ln });
                    res.outputs.push("err reopen".into());
                    continue;
                }
            };
            let obs = match self.observe(&latest) {
                Ok(o) => o,
                Err(e) => {
                    res.failures.push(OracleFailure { what: format!("observing v{} failed: {}", latest.manifest().version, e.msg), key: Some("observe_error".into()), line: ln });
                    res.outputs.push("err observe".into());
                    continue;
                }
            };
            let moved = obs.version > seen_version;
            let mut txn_text = "none".to_string();
            // ---- ghost bookkeeping from the REAL transactions of the new versions
            let mut txns: Vec<(u64, Transaction)> = vec![];
            for v in (seen_version + 1)..=obs.version {
                match self.kit.lance_call("read_transaction_by_version", latest.read_transaction_by_version(v)) {
                    Ok(Some(t)) => txns.push((v, t)),
                    _ => {}
                }
            }
            if let Some((_, t)) = txns.last() {
                txn_text = show_txn(t);
            }
            for (v, t) in &txns {
                match &t.operation {
                    Operation::Update { updated_fragments, fields_modified, .. } if !fields_modified.is_empty() => {
                        for g in ghosts.values_mut() {
                            if g.fields.iter().any(|f| fields_modified.contains(&(*f as u32))) {
                                for f in updated_fragments {
                                    g.pruned.insert(f.id);
                                    g.stale.remove(&f.id);
                                }
                            }
                        }
                    }
                    Operation::Update {
                        updated_fragments,
                        removed_fragment_ids,
                        fields_for_preserving_frag_bitmap,
                        update_mode: Some(UpdateMode::RewriteRows),
                        ..
                    } if stable => {
                        // stable row ids: the index entries follow the moved rows into the new fragments
                        let originals: BTreeSet<u64> =
                            updated_fragments.iter().map(|f| f.id).chain(removed_fragment_ids.iter().copied()).collect();
                        let news: Vec<u64> = obs.frag_ids.difference(&prev_frags).copied().collect();
                        for (_, (_, bm, uuid)) in obs.indices.iter() {
                            if let Some(g) = ghosts.get_mut(uuid) {
                                let key = originals.iter().filter_map(|f| g.stale.get(f).copied()).next();
                                let was_pruned = originals.iter().any(|f| g.pruned.contains(f));
                                // an index on an assigned column keeps the OLD values of the moved rows under their row ids
                                // (harmless while the new fragment is outside its bitmap; optimize_indices merges them back in)
                                let assigned = g.fields.iter().any(|f| fields_for_preserving_frag_bitmap.contains(&(*f as u32)));
                                for nf in &news {
                                    if bm.contains(nf) {
                                        if let Some(k) = key {
                                            g.stale.insert(*nf, k);
                                        }
                                    } else if key.is_some() || was_pruned || assigned {
                                        g.pruned.insert(*nf);
                                    }
                                }
                            }
                        }
                    }
                    Operation::DataReplacement { replacements } => {
                        for DataReplacementGroup(f, file) in replacements {
                            for (_, (_, bm, uuid)) in obs_before.iter() {
                                if let Some(g) = ghosts.get_mut(uuid) {
                                    if bm.contains(f) && g.fields.iter().any(|x| file.fields.contains(x)) {
                                        g.stale.insert(*f, KEY_REPL);
                                    }
                                }
                            }
                        }
                    }
                    Operation::CreateIndex { new_indices, removed_indices } => {
                        n_index_commits += 1;
                        for i in new_indices {
                            let bm: BTreeSet<u64> = i.fragment_bitmap.as_ref().map(|b| b.iter().map(|x| x as u64).collect()).unwrap_or_default();
                            let merged = removed_indices.iter().find(|r| r.name == i.name);
                            let mut g = Ghost { fields: i.fields.clone(), ..Default::default() };
                            if let Some(oldmeta) = merged {
                                // optimize_indices: the entries of the index it was built from are merged into the new one
                                let old = ghosts.get(&oldmeta.uuid.to_string()).cloned().unwrap_or_default();
                                for (f, k) in &old.stale {
                                    if bm.contains(f) {
                                        g.stale.insert(*f, *k);
                                    }
                                }
                                for f in &old.pruned {
                                    if bm.contains(f) {
                                        g.stale.insert(*f, KEY_OPT);
                                    } else {
                                        g.pruned.insert(*f);
                                    }
                                }
                            }
                            // built at read_version, committed at v: column rewrites in between
                            for w in (t.read_version + 1)..*v {
                                if let Ok(Some(tw)) = self.kit.lance_call("read_transaction_by_version", latest.read_transaction_by_version(w)) {
                                    if let Operation::Update { updated_fragments, fields_modified, .. } = &tw.operation {
                                        if i.fields.iter().any(|f| fields_modified.contains(&(*f as u32))) {
                                            for f in updated_fragments {
                                                if bm.contains(&f.id) {
                                                    g.stale.insert(f.id, KEY_REBASE);
                                                }
                                            }
                                        }
                                    }
                                }
                            }
                            ghosts.insert(i.uuid.to_string(), g);
                        }
                    }
                    Operation::Rewrite { groups, rewritten_indices, .. } => {
                        // a remapped index is a new uuid with the same (remapped) entries
                        for ri in rewritten_indices {
                            if let Some(g) = ghosts.get(&ri.old_id.to_string()).cloned() {
                                ghosts.insert(ri.new_id.to_string(), g);
                            }
                        }
                        for g in ghosts.values_mut() {
                            for grp in groups {
                                let keys: Vec<&'static str> = grp.old_fragments.iter().filter_map(|f| g.stale.get(&f.id).copied()).collect();
                                let was_pruned = grp.old_fragments.iter().any(|f| g.pruned.contains(&f.id));
                                for f in &grp.old_fragments {
                                    g.stale.remove(&f.id);
                                    g.pruned.remove(&f.id);
                                }
                                for nf in &grp.new_fragments {
                                    if let Some(k) = keys.first() {
                                        g.stale.insert(nf.id, *k);
                                    }
                                    if was_pruned {
                                        g.pruned.insert(nf.id);
                                    }
                                }
                            }
                        }
                    }
                    _ => {}
                }
            }
            if stale && moved {
                n_stale_commits += 1;
            }
            seen_version = obs.version;
            obs_before = obs.indices.clone();
            prev_frags = obs.frag_ids.clone();
            res.outputs.push(format!(
                "ok v={} txn={} frags={} idx={} scan={}",
                obs.version,
                txn_text,
                obs.frags,
                obs.idx,
                show_rows(&obs.scan)
            ));
            anchor = Some(latest.clone());
            // ---- property oracle: indexed = un-indexed for every literal
            for (nm, (fields, _, uuid)) in &obs.indices {
                let Some(&fid) = fields.first() else { continue };
                let col = fid as usize;
                if col == 0 || col > 2 {
                    continue;
                }
                let mut vs: Vec<i64> = lits[col].iter().copied().collect();
                vs.truncate(12);
                vs.push(7);
                for v in vs {
                    let a = self.probe(&latest, col, v, true);
                    let b = self.probe(&latest, col, v, false);
                    match (a, b) {
                        (Ok(a), Ok(b)) => {
                            if a != b {
                                // fragments of the rows that differ
                                let sa: BTreeSet<&Row> = a.iter().collect();
                                let sb: BTreeSet<&Row> = b.iter().collect();
                                let frs: BTreeSet<u64> = sa
                                    .symmetric_difference(&sb)
                                    .map(|r| (r[3].unwrap_or(0) as u64) >> 32)
                                    .collect();
                                let g = ghosts.get(uuid).cloned().unwrap_or_default();
                                // one failure per defect class the differing fragments belong to (None = unexplained)
                                let mut groups: BTreeMap<Option<&'static str>, BTreeSet<u64>> = BTreeMap::new();
                                for f in &frs {
                                    groups.entry(g.stale.get(f).copied()).or_default().insert(*f);
                                }
                                for (key, fs) in groups {
                                    res.failures.push(OracleFailure {
                                        what: format!(
                                            "v{} index {nm}: c{col} = {v} returns {} with the scalar index and {} without (fragments {:?})",
                                            obs.version,
                                            show_rows(&a),
                                            show_rows(&b),
                                            fs
                                        ),
                                        key: key.map(|k| k.to_string()),
                                        line: ln,
                                    });
                                    res.tags.push(format!("oracle:{}", key.unwrap_or("unclassified")));
                                }
                            }
                        }
                        (a, b) => {
                            let msg = a.err().or(b.err()).map(|e| e.msg).unwrap_or_default();
                            res.failures.push(OracleFailure {
                                what: format!("v{} index {nm}: probe c{col} = {v} failed: {msg}", obs.version),
                                key: Some("probe_error".into()),
                                line: ln,
                            });
                        }
                    }
                }
            }
        }
        res.nontrivial = n_stale_commits > 0 && n_index_commits > 0;
        if n_stale_commits > 0 {
            res.tags.push("stale_commit".into());
        }
        if n_conflicts > 0 {
            res.tags.push("conflict".into());
        }
        drop(handles);
        drop(anchor);
        res
    }

    fn rule(&self) -> String {
        "one memory:// table (k, x, y) of 2-3 fragments and three handles that go stale: first every ordered pair of \
         {create index x, create index y, optimize_indices, update x, update y, partial-schema merge_insert on x, data \
         replacement, delete, append} built at the same version and committed one after the other, on a table with and \
         without an index (then optimize), then random histories of 4-10 ops where handle 0 is mostly fresh and handles 1, 2 \
         are re-opened rarely; 1/8 of the random cases get a malformed line. After every step: committed transaction, \
         fragments with deletion vectors, load_indices bitmaps and the ordered scan are compared with the model, and `x = v` / \
         `y = v` with and without the scalar index for every literal ever written. Non-trivial = a transaction built at a \
         stale version was committed and an index commit happened."
            .into()
    }
}

fn main() {
    let compaction = std::env::var("C24_COMPACT").map(|v| v != "0").unwrap_or(false);
    run_main(C24 { kit: Kit::new(), compaction })
}
