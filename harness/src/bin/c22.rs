//! C22: vector search returns the true nearest neighbours when it claims exactness.
//!
//! Interpreter of the C22 op lines against the REAL lance code (`Dataset::write`, `Dataset::delete`, `compact_files`,
//! `create_index(IvfFlat)`, `optimize_indices`, `Scanner::{nearest, distance_metric, filter, prefilter, use_index, nprobes,
//! refine, fast_search}`), a seeded generator of histories with many queries, and the property oracle (brute-force integer kNN).
//!
//! One dataset per case: columns `id` Int64 (unique, assigned 0,1,2,… in append order), `c` Int64 (filter column),
//! `vec` FixedSizeList<f32|f64|f16, dim> holding INTEGER values (|x| <= 8), so every distance the real code computes in
//! floating point is exact (L2 squared and 1 - dot are integers; cosine is compared through the exact rational key).
//!
//! ```text
//! create ty=<f32|f64|f16> dim=<d>
//! append f=<max rows per file> <c>:<v,v,..>;<c>:<v,v,..>;…      Dataset::write(Append | Create)
//! delete <eq|lt|ge|idlt|idge> <x>                              Dataset::delete("c = x" | "c < x" | "c >= x" | "id < x" | "id >= x")
//! index m=<l2|dot|cos> p=<num_partitions>                      create_index(["vec"], IvfFlat, "vi", ivf_flat(p, m), replace = true)
//! optimize <append|merge|all|retrain>                          optimize_indices(append() | default | merge(100) | retrain())
//! compact t=<target rows per fragment>                         compact_files(materialize_deletions_threshold = 0)
//! query m=<l2|dot|cos> k=<k> q=<v,v,..> f=<none|eq:x|lt:x|ge:x> pre=<0|1> ui=<0|1> np=<def|n> rf=<none|n> fast=<0|1>
//! ```
//! `rf=none` = no refine; `rf=0` is rejected by the real code when an index is used.  `np=def` leaves the defaults (minimum_nprobes = 1), `np=n` calls `nprobes(n)`.
//!
//! Output lines.  Mutations: `ok live=<rows> cov=<live rows in fragments covered by the vector index> idx=<metric|none>`.
//! Queries, canonical: `ok m=<metric actually used> n=<rows> <groups>` where the rows are grouped by equal distance in the
//! order returned, every group but the last printed as `<dist>:<ids sorted, '.'-separated>` and the last as `<dist>#<count>`
//! (ties at the cut are broken arbitrarily by the real code).  L2 / dot: `<dist>` is the returned `_distance` as an
//! integer (`x<float>` if it is not one); cosine: the exact key `-sgn(xy)·xy²/yy` of the returned row, reduced (`nan` for a zero
//! vector).  A post-filtered query (`pre=0` with a filter) additionally runs the same query without the filter to learn the
//! cut distance and prints `b=<cut|none>` and only the groups strictly below the cut.  A query that does not claim exactness
//! (index used and nprobes < num_partitions) prints `approx`.  Errors: `err invalid|other`.
//!
//! Oracle (never looks at the Lean model; brute force over the live rows read back from the real table):
//! every mode: no returned row is deleted or fails the filter (`unsound_row`), no duplicates (`dup_row`), distances
//! ascending (`unsorted`).  Exact modes: each reported distance equals the recomputed distance (`dist_mismatch`; cosine
//! within 1e-5 — a tolerance test), the number of rows is min(k, allowed) (`short_result`), the distances are the k smallest
//! (`not_nearest`).  Post-filter: every returned row is within the unfiltered top-k cut and every passing row strictly below
//! the cut is returned (`postfilter_wrong`).

use std::collections::{BTreeMap, BTreeSet};
use std::sync::Arc;

use arrow_array::types::{Float16Type, Float32Type, Float64Type};
use arrow_array::{Array, ArrayRef, FixedSizeListArray, Float32Array, Int64Array, RecordBatch, RecordBatchIterator, UInt64Array};
use arrow_array::cast::AsArray;
use arrow_schema::{DataType, Field, Schema};
use hcommon::*;
use lance::dataset::optimize::{compact_files, CompactionOptions};
use lance::dataset::{WriteMode, WriteParams};
use lance::index::vector::VectorIndexParams;
use lance::Dataset;
use lance_index::optimize::OptimizeOptions;
use lance_index::{DatasetIndexExt, IndexType};
use lance_linalg::distance::MetricType;

#[derive(Clone, Copy, PartialEq, Eq, Debug)]
enum Metric {
    L2,
    Dot,
    Cos,
}

impl Metric {
    fn parse(s: &str) -> Option<Self> {
        match s {
            "l2" => Some(Self::L2),
            "dot" => Some(Self::Dot),
            "cos" => Some(Self::Cos),
            _ => None,
        }
    }
    fn s(&self) -> &'static str {
        match self {
            Self::L2 => "l2",
            Self::Dot => "dot",
            Self::Cos => "cos",
        }
    }
    fn lance(&self) -> MetricType {
        match self {
            Self::L2 => MetricType::L2,
            Self::Dot => MetricType::Dot,
            Self::Cos => MetricType::Cosine,
        }
    }
}

#[derive(Clone, Copy, PartialEq, Eq, Debug)]
enum Ty {
    F32,
    F64,
    F16,
}

#[derive(Clone, Debug, PartialEq)]
enum Filt {
    None,
    Eq(i64),
    Lt(i64),
    Ge(i64),
}

impl Filt {
    fn parse(s: &str) -> Option<Self> {
        if s == "none" {
            return Some(Self::None);
        }
        let (a, b) = s.split_once(':')?;
        let x: i64 = b.parse().ok()?;
        match a {
            "eq" => Some(Self::Eq(x)),
            "lt" => Some(Self::Lt(x)),
            "ge" => Some(Self::Ge(x)),
            _ => None,
        }
    }
    fn sql(&self) -> Option<String> {
        match self {
            Self::None => None,
            Self::Eq(x) => Some(format!("c = {x}")),
            Self::Lt(x) => Some(format!("c < {x}")),
            Self::Ge(x) => Some(format!("c >= {x}")),
        }
    }
    fn pass(&self, c: i64) -> bool {
        match self {
            Self::None => true,
            Self::Eq(x) => c == *x,
            Self::Lt(x) => c < *x,
            Self::Ge(x) => c >= *x,
        }
    }
}

/// exact distance key: (nan, num, den) with den > 0, compared as num/den, nan last
#[derive(Clone, Copy, PartialEq, Eq, Debug)]
struct Key {
    nan: bool,
    num: i64,
    den: i64,
}

fn gcd(a: i64, b: i64) -> i64 {
    if b == 0 {
        a.abs()
    } else {
        gcd(b, a % b)
    }
}

impl Key {
    fn int(n: i64) -> Self {
        Self { nan: false, num: n, den: 1 }
    }
    fn cmp(&self, o: &Self) -> std::cmp::Ordering {
        match (self.nan, o.nan) {
            (true, true) => std::cmp::Ordering::Equal,
            (true, false) => std::cmp::Ordering::Greater,
            (false, true) => std::cmp::Ordering::Less,
            _ => (self.num as i128 * o.den as i128).cmp(&(o.num as i128 * self.den as i128)),
        }
    }
    fn show(&self) -> String {
        if self.nan {
            "nan".into()
        } else if self.den == 1 {
            format!("{}", self.num)
        } else {
            format!("{}/{}", self.num, self.den)
        }
    }
}

/// the ORACLE's distance: scalar definitions over integers
fn dist_key(m: Metric, q: &[i64], v: &[i64]) -> Key {
    let dot: i64 = q.iter().zip(v).map(|(a, b)| a * b).sum();
    match m {
        Metric::L2 => Key::int(q.iter().zip(v).map(|(a, b)| (a - b) * (a - b)).sum()),
        Metric::Dot => Key::int(1 - dot),
        Metric::Cos => {
            let xx: i64 = q.iter().map(|a| a * a).sum();
            let yy: i64 = v.iter().map(|a| a * a).sum();
            if xx == 0 || yy == 0 {
                return Key { nan: true, num: 0, den: 1 };
            }
            let num = -dot.signum() * dot * dot;
            let g = gcd(num, yy).max(1);
            Key { nan: false, num: num / g, den: yy / g }
        }
    }
}

/// cosine distance in f64 for the tolerance test
fn cos_f64(q: &[i64], v: &[i64]) -> f64 {
    let dot: f64 = q.iter().zip(v).map(|(a, b)| (a * b) as f64).sum();
    let xx: f64 = q.iter().map(|a| (a * a) as f64).sum();
    let yy: f64 = v.iter().map(|a| (a * a) as f64).sum();
    1.0 - dot / (xx.sqrt() * yy.sqrt())
}

#[derive(Clone, Debug)]
struct LiveRow {
    id: i64,
    c: i64,
    v: Vec<i64>,
    covered: bool,
}

struct Tab {
    ds: Dataset,
    ty: Ty,
    dim: usize,
    created: bool,
    next_id: i64,
    index: Option<(Metric, usize)>,
    live: Vec<LiveRow>,
}

struct Query {
    m: Metric,
    k: usize,
    q: Vec<i64>,
    f: Filt,
    pre: bool,
    ui: bool,
    np: Option<usize>,
    rf: Option<u32>,
    fast: bool,
}

fn kv<'a>(tok: &'a str, key: &str) -> Option<&'a str> {
    tok.strip_prefix(key)?.strip_prefix('=')
}

fn parse_ints(s: &str) -> Option<Vec<i64>> {
    if s == "-" {
        return Some(vec![]);
    }
    s.split(',').map(|x| x.parse().ok()).collect()
}

fn parse_query(t: &[&str]) -> Option<Query> {
    if t.len() != 10 {
        return None;
    }
    Some(Query {
        m: Metric::parse(kv(t[1], "m")?)?,
        k: kv(t[2], "k")?.parse().ok()?,
        q: parse_ints(kv(t[3], "q")?)?,
        f: Filt::parse(kv(t[4], "f")?)?,
        pre: kv(t[5], "pre")? == "1",
        ui: kv(t[6], "ui")? == "1",
        np: match kv(t[7], "np")? {
            "def" => None,
            n => Some(n.parse().ok()?),
        },
        rf: match kv(t[8], "rf")? {
            "none" => None,
            n => Some(n.parse().ok()?),
        },
        fast: kv(t[9], "fast")? == "1",
    })
}

struct C22 {
    rt: tokio::runtime::Runtime,
    n_uri: u64,
}

fn err_kind(e: &lance::Error) -> &'static str {
    match e {
        lance::Error::InvalidInput { .. } => "invalid",
        _ => {
            let s = e.to_string();
            if s.contains("Invalid user input") || s.contains("invalid input") {
                "invalid"
            } else {
                "other"
            }
        }
    }
}

fn make_batch(ty: Ty, dim: usize, rows: &[(i64, i64, Vec<i64>)]) -> RecordBatch {
    let ids = Int64Array::from_iter_values(rows.iter().map(|r| r.0));
    let cs = Int64Array::from_iter_values(rows.iter().map(|r| r.1));
    let (vec, et): (ArrayRef, DataType) = match ty {
        Ty::F32 => (
            Arc::new(FixedSizeListArray::from_iter_primitive::<Float32Type, _, _>(
                rows.iter().map(|r| Some(r.2.iter().map(|x| Some(*x as f32)).collect::<Vec<_>>())),
                dim as i32,
            )),
            DataType::Float32,
        ),
        Ty::F64 => (
            Arc::new(FixedSizeListArray::from_iter_primitive::<Float64Type, _, _>(
                rows.iter().map(|r| Some(r.2.iter().map(|x| Some(*x as f64)).collect::<Vec<_>>())),
                dim as i32,
            )),
            DataType::Float64,
        ),
        Ty::F16 => (
            Arc::new(FixedSizeListArray::from_iter_primitive::<Float16Type, _, _>(
                rows.iter().map(|r| Some(r.2.iter().map(|x| Some(half::f16::from_f32(*x as f32))).collect::<Vec<_>>())),
                dim as i32,
            )),
            DataType::Float16,
        ),
    };
    let schema = Arc::new(Schema::new(vec![
        Field::new("id", DataType::Int64, false),
        Field::new("c", DataType::Int64, false),
        Field::new("vec", DataType::FixedSizeList(Arc::new(Field::new("item", et, true)), dim as i32), true),
    ]));
    RecordBatch::try_new(schema, vec![Arc::new(ids), Arc::new(cs), vec]).unwrap()
}

fn vec_ints(col: &ArrayRef, ty: Ty) -> Vec<Vec<i64>> {
    let fsl = col.as_fixed_size_list();
    (0..fsl.len())
        .map(|i| {
            let v = fsl.value(i);
            match ty {
                Ty::F32 => v.as_primitive::<Float32Type>().values().iter().map(|x| *x as i64).collect(),
                Ty::F64 => v.as_primitive::<Float64Type>().values().iter().map(|x| *x as i64).collect(),
                Ty::F16 => v.as_primitive::<Float16Type>().values().iter().map(|x| x.to_f32() as i64).collect(),
            }
        })
        .collect()
}

impl C22 {
    fn new() -> Self {
        Self { rt: tokio::runtime::Builder::new_multi_thread().worker_threads(2).enable_all().build().unwrap(), n_uri: 0 }
    }

    /// read the live rows back from the REAL table (+ which of them sit in a fragment covered by the vector index)
    fn refresh(&self, t: &mut Tab) -> Result<(), lance::Error> {
        let rt = &self.rt;
        let mut sc = t.ds.scan();
        sc.with_row_address();
        let batch = rt.block_on(sc.try_into_batch())?;
        let covered: BTreeSet<u32> = {
            let idx = rt.block_on(t.ds.load_indices())?;
            let mut s = BTreeSet::new();
            // a vector index none of whose fragments exists any more is removed by the commit (Transaction::retain_relevant_indices)
            if !idx.iter().any(|i| i.name == "vi") {
                t.index = None;
            }
            for i in idx.iter() {
                if let Some(b) = &i.fragment_bitmap {
                    s.extend(b.iter());
                }
            }
            s
        };
        let mut live = vec![];
        if batch.num_rows() > 0 {
            let ids = batch.column_by_name("id").unwrap().as_primitive::<arrow_array::types::Int64Type>().clone();
            let cs = batch.column_by_name("c").unwrap().as_primitive::<arrow_array::types::Int64Type>().clone();
            let addr = batch.column_by_name("_rowaddr").unwrap().as_any().downcast_ref::<UInt64Array>().unwrap().clone();
            let vs = vec_ints(batch.column_by_name("vec").unwrap(), t.ty);
            for i in 0..batch.num_rows() {
                live.push(LiveRow { id: ids.value(i), c: cs.value(i), v: vs[i].clone(), covered: covered.contains(&((addr.value(i) >> 32) as u32)) });
            }
        }
        live.sort_by_key(|r| r.id);
        t.live = live;
        Ok(())
    }

    fn status(&self, t: &Tab) -> String {
        format!(
            "ok live={} cov={} idx={}",
            t.live.len(),
            t.live.iter().filter(|r| r.covered).count(),
            t.index.map(|(m, _)| m.s()).unwrap_or("none")
        )
    }

    /// run one nearest query on the real scanner: (id, f32 distance) in the order returned
    fn run_query(&self, t: &Tab, q: &Query, with_filter: bool) -> Result<Vec<(i64, f32)>, lance::Error> {
        let rt = &self.rt;
        let mut sc = t.ds.scan();
        sc.project(&["id"])?;
        if with_filter {
            if let Some(sql) = q.f.sql() {
                sc.filter(&sql)?;
            }
        }
        sc.prefilter(q.pre);
        let key = Float32Array::from_iter_values(q.q.iter().map(|x| *x as f32));
        sc.nearest("vec", &key, q.k)?;
        sc.distance_metric(q.m.lance());
        if !q.ui {
            sc.use_index(false);
        }
        if let Some(n) = q.np {
            sc.nprobes(n);
        }
        if let Some(rf) = q.rf {
            sc.refine(rf);
        }
        if q.fast {
            sc.fast_search();
        }
        let batch = rt.block_on(sc.try_into_batch())?;
        let mut out = vec![];
        if batch.num_rows() > 0 {
            let ids = batch.column_by_name("id").unwrap().as_primitive::<arrow_array::types::Int64Type>();
            let ds = batch.column_by_name("_distance").unwrap().as_primitive::<Float32Type>();
            for i in 0..batch.num_rows() {
                out.push((ids.value(i), if ds.is_null(i) { f32::NAN } else { ds.value(i) }));
            }
        }
        Ok(out)
    }
}

fn groups_of(keys: &[(String, i64)]) -> Vec<(String, Vec<i64>)> {
    let mut g: Vec<(String, Vec<i64>)> = vec![];
    for (k, id) in keys {
        match g.last_mut() {
            Some((lk, ids)) if lk == k => ids.push(*id),
            _ => g.push((k.clone(), vec![*id])),
        }
    }
    for (_, ids) in g.iter_mut() {
        ids.sort();
    }
    g
}

fn show_group(g: &(String, Vec<i64>)) -> String {
    format!("{}:{}", g.0, g.1.iter().map(|x| x.to_string()).collect::<Vec<_>>().join("."))
}

impl Prop for C22 {
    fn id(&self) -> &'static str {
        "C22"
    }
    fn budget(&self, tier: Tier) -> usize {
        match tier {
            Tier::Quick => 36,
            Tier::Thorough => 220,
            Tier::Search => 40,
        }
    }
    fn rule(&self) -> String {
        "histories on one memory:// dataset (id, c, vec: FixedSizeList<f32|f64|f16, dim in {2,3,8,16,17,32}> with integer values |x|<=8 \
         (cosine cases |x|<=2..4 and dim<=8 so that distinct cosines differ by > 4e-6), duplicates and zero vectors): create, 1-3 appends of 20-150 rows in \
         several fragments, deletes, IVF_FLAT index (1-5 partitions, l2/dot/cos), appends/deletes after indexing, optimize_indices \
         (append/merge/all/retrain), compact_files; 30-60 nearest queries per case with random k (1..40, sometimes > rows), query vectors near \
         data points or random, filters on c (prefilter / postfilter), use_index on/off, nprobes = all / more / fewer / default, refine 0-3, fast_search, \
         query metric equal to or different from the index metric; ~10% malformed (k=0, wrong dimension, refine 0). Non-trivial = at least one exact \
         query with a tie at the cut or a filter or an index"
            .into()
    }

    fn gen_case(&mut self, rng: &mut Rng, tier: Tier, idx: usize) -> Vec<String> {
        gen_case(rng, tier, idx)
    }

    fn exec_case(&mut self, lines: &[String]) -> CaseResult {
        let mut res = CaseResult::default();
        let mut tab: Option<Tab> = None;
        for (ln, line) in lines.iter().enumerate() {
            let toks: Vec<&str> = line.split_whitespace().collect();
            let out = self.exec_line(&mut tab, &toks, ln, &mut res);
            res.outputs.push(out);
        }
        res
    }
}

impl C22 {
    fn exec_line(&mut self, tab: &mut Option<Tab>, t: &[&str], ln: usize, res: &mut CaseResult) -> String {
        let bad = || "err parse".to_string();
        if t.is_empty() {
            return bad();
        }
        match t[0] {
            "create" => {
                if t.len() != 3 {
                    return bad();
                }
                let ty = match kv(t[1], "ty") {
                    Some("f32") => Ty::F32,
                    Some("f64") => Ty::F64,
                    Some("f16") => Ty::F16,
                    _ => return bad(),
                };
                let Some(dim) = kv(t[2], "dim").and_then(|x| x.parse::<usize>().ok()) else { return bad() };
                if dim == 0 || dim > 64 {
                    return bad();
                }
                self.n_uri += 1;
                let uri = format!("memory://c22_{}_{}", std::process::id(), self.n_uri);
                // an empty table: written with zero rows
                let b = make_batch(ty, dim, &[]);
                let schema = b.schema();
                let rd = RecordBatchIterator::new(vec![Ok(b)], schema);
                match self.rt.block_on(Dataset::write(rd, &uri, Some(WriteParams { mode: WriteMode::Create, ..Default::default() }))) {
                    Ok(ds) => {
                        *tab = Some(Tab { ds, ty, dim, created: true, next_id: 0, index: None, live: vec![] });
                        res.tags.push("op:create".into());
                        "ok live=0 cov=0 idx=none".into()
                    }
                    Err(e) => format!("err {}", err_kind(&e)),
                }
            }
            "append" => {
                let Some(tb) = tab.as_mut() else { return "err notable".into() };
                if t.len() != 3 {
                    return bad();
                }
                let Some(f) = kv(t[1], "f").and_then(|x| x.parse::<usize>().ok()) else { return bad() };
                if f == 0 {
                    return bad();
                }
                let mut rows = vec![];
                for r in t[2].split(';') {
                    let Some((c, v)) = r.split_once(':') else { return bad() };
                    let (Ok(c), Some(v)) = (c.parse::<i64>(), parse_ints(v)) else { return bad() };
                    if v.len() != tb.dim || v.iter().any(|x| x.abs() > 64) {
                        return bad();
                    }
                    rows.push((tb.next_id + rows.len() as i64, c, v));
                }
                let b = make_batch(tb.ty, tb.dim, &rows);
                let schema = b.schema();
                let rd = RecordBatchIterator::new(vec![Ok(b)], schema);
                let params = WriteParams { mode: WriteMode::Append, max_rows_per_file: f, ..Default::default() };
                match self.rt.block_on(Dataset::write(rd, Arc::new(tb.ds.clone()), Some(params))) {
                    Ok(ds) => {
                        tb.ds = ds;
                        tb.next_id += rows.len() as i64;
                        res.tags.push("op:append".into());
                        if tb.index.is_some() {
                            res.tags.push("append_after_index".into());
                        }
                        match self.refresh(tb) {
                            Ok(()) => self.status(tb),
                            Err(e) => format!("err {}", err_kind(&e)),
                        }
                    }
                    Err(e) => format!("err {}", err_kind(&e)),
                }
            }
            "delete" => {
                let Some(tb) = tab.as_mut() else { return "err notable".into() };
                if t.len() != 3 {
                    return bad();
                }
                let Ok(x) = t[2].parse::<i64>() else { return bad() };
                let pred = match t[1] {
                    "eq" => format!("c = {x}"),
                    "lt" => format!("c < {x}"),
                    "ge" => format!("c >= {x}"),
                    "idlt" => format!("id < {x}"),
                    "idge" => format!("id >= {x}"),
                    _ => return bad(),
                };
                match self.rt.block_on(tb.ds.delete(&pred)) {
                    Ok(_) => {
                        res.tags.push("op:delete".into());
                        if tb.index.is_some() {
                            res.tags.push("delete_after_index".into());
                        }
                        match self.refresh(tb) {
                            Ok(()) => self.status(tb),
                            Err(e) => format!("err {}", err_kind(&e)),
                        }
                    }
                    Err(e) => format!("err {}", err_kind(&e)),
                }
            }
            "index" => {
                let Some(tb) = tab.as_mut() else { return "err notable".into() };
                if t.len() != 3 {
                    return bad();
                }
                let (Some(m), Some(p)) = (kv(t[1], "m").and_then(Metric::parse), kv(t[2], "p").and_then(|x| x.parse::<usize>().ok())) else {
                    return bad();
                };
                if p == 0 || p > 64 {
                    return bad();
                }
                let params = VectorIndexParams::ivf_flat(p, m.lance());
                let rt = &self.rt;
                let mut ds2 = tb.ds.clone();
                let r = std::panic::catch_unwind(std::panic::AssertUnwindSafe(|| {
                    rt.block_on(ds2.create_index(&["vec"], IndexType::Vector, Some("vi".into()), &params, true))
                }));
                let r = match r {
                    Ok(r) => r,
                    Err(_) => {
                        // recorded defect: building IVF_FLAT over a Float64 column panics inside lance
                        res.failures.push(OracleFailure {
                            what: "create_index(IVF_FLAT) panicked".into(),
                            key: Some(if tb.ty == Ty::F64 { "ivf_flat_f64_panic".into() } else { "panic".into() }),
                            line: ln,
                        });
                        res.tags.push("op:index:panic".into());
                        return "err panic".into();
                    }
                };
                match r {
                    Ok(_) => {
                        tb.ds = ds2;
                        tb.index = Some((m, p));
                        res.tags.push(format!("op:index:{}", m.s()));
                        match self.refresh(tb) {
                            Ok(()) => self.status(tb),
                            Err(e) => format!("err {}", err_kind(&e)),
                        }
                    }
                    Err(e) => {
                        if std::env::var("C22_DEBUG").is_ok() {
                            eprintln!("index error: {e}");
                        }
                        format!("err {}", err_kind(&e))
                    }
                }
            }
            "optimize" => {
                let Some(tb) = tab.as_mut() else { return "err notable".into() };
                if t.len() != 2 {
                    return bad();
                }
                let opts = match t[1] {
                    "append" => OptimizeOptions::append(),
                    "merge" => OptimizeOptions::default(),
                    "all" => OptimizeOptions::merge(100),
                    "retrain" => OptimizeOptions::retrain(),
                    _ => return bad(),
                };
                match self.rt.block_on(tb.ds.optimize_indices(&opts)) {
                    Ok(_) => {
                        res.tags.push(format!("op:optimize:{}", t[1]));
                        match self.refresh(tb) {
                            Ok(()) => self.status(tb),
                            Err(e) => format!("err {}", err_kind(&e)),
                        }
                    }
                    Err(e) => {
                        if std::env::var("C22_DEBUG").is_ok() {
                            eprintln!("optimize error: {e}");
                        }
                        format!("err {}", err_kind(&e))
                    }
                }
            }
            "compact" => {
                let Some(tb) = tab.as_mut() else { return "err notable".into() };
                if t.len() != 2 {
                    return bad();
                }
                let Some(target) = kv(t[1], "t").and_then(|x| x.parse::<usize>().ok()) else { return bad() };
                if target == 0 {
                    return bad();
                }
                let opts = CompactionOptions {
                    target_rows_per_fragment: target,
                    materialize_deletions: true,
                    materialize_deletions_threshold: 0.0,
                    num_threads: Some(1),
                    ..Default::default()
                };
                match self.rt.block_on(compact_files(&mut tb.ds, opts, None)) {
                    Ok(_) => {
                        res.tags.push("op:compact".into());
                        match self.refresh(tb) {
                            Ok(()) => self.status(tb),
                            Err(e) => format!("err {}", err_kind(&e)),
                        }
                    }
                    Err(e) => {
                        if std::env::var("C22_DEBUG").is_ok() {
                            eprintln!("compact error: {e}");
                        }
                        let key = if tb.ty == Ty::F16 && tb.index.is_some() { "ivf_flat_f16_unreadable" } else { "compact_error" };
                        res.failures.push(OracleFailure { what: format!("compact_files failed: {}", e.to_string().chars().take(300).collect::<String>()), key: Some(key.into()), line: ln });
                        format!("err {}", err_kind(&e))
                    }
                }
            }
            "query" => {
                let Some(tb) = tab.as_ref() else { return "err notable".into() };
                let Some(q) = parse_query(t) else { return bad() };
                if !tb.created {
                    return bad();
                }
                self.exec_query(tb, &q, ln, res)
            }
            _ => bad(),
        }
    }

    fn exec_query(&self, tb: &Tab, q: &Query, ln: usize, res: &mut CaseResult) -> String {
        let caught = std::panic::catch_unwind(std::panic::AssertUnwindSafe(|| self.run_query(tb, q, true)));
        let got = match caught {
            Err(_) => {
                // recorded defect: a query through an IVF_FLAT index over a Float64 column panics inside lance
                let key = if tb.ty == Ty::F64 && (q.ui || q.fast) && tb.index.is_some() { "ivf_flat_f64_panic" } else { "panic" };
                res.failures.push(OracleFailure { what: "the query panicked".into(), key: Some(key.into()), line: ln });
                res.tags.push("q:panic".into());
                return "err panic".into();
            }
            Ok(r) => r,
        };
        let got = match got {
            Ok(g) => g,
            Err(e) => {
                if std::env::var("C22_DEBUG").is_ok() {
                    eprintln!("query error: {e}");
                }
                res.tags.push(format!("q:err:{}", err_kind(&e)));
                if tb.ty == Ty::F16 && (q.ui || q.fast) && tb.index.is_some() && err_kind(&e) == "other" {
                    // recorded defect: an IVF_FLAT index over a Float16 column cannot be read back
                    res.failures.push(OracleFailure {
                        what: format!("indexed query on a float16 column failed: {}", e.to_string().chars().take(200).collect::<String>()),
                        key: Some("ivf_flat_f16_unreadable".into()),
                        line: ln,
                    });
                } else if err_kind(&e) == "other" {
                    res.failures.push(OracleFailure { what: format!("query failed: {}", e.to_string().chars().take(300).collect::<String>()), key: Some("query_error".into()), line: ln });
                }
                return format!("err {}", err_kind(&e));
            }
        };
        // Scanner::fast_search sets use_index = true again
        let index_used = (q.ui || q.fast) && tb.index.is_some();
        // the metric the real code uses: the index's when the index is used (Scanner::vector_search / knn_combined)
        let m = if index_used { tb.index.unwrap().0 } else { q.m };
        let nparts = tb.index.map(|x| x.1).unwrap_or(0);
        let exact = !index_used || q.np.unwrap_or(1) >= nparts;
        let has_filter = q.f != Filt::None;
        let postfilter = has_filter && !q.pre;
        let by_id: BTreeMap<i64, &LiveRow> = tb.live.iter().map(|r| (r.id, r)).collect();
        // recorded defect class: cosine distance against a zero vector is NaN; the flat path sorts it FIRST and a cosine index drops the row
        let cos_nan = m == Metric::Cos && (q.q.iter().all(|x| *x == 0) || tb.live.iter().any(|r| r.v.iter().all(|x| *x == 0)));
        let mut fail = |key: &str, what: String| {
            let key = if cos_nan && matches!(key, "unsorted" | "not_nearest" | "short_result" | "postfilter_wrong") { "cosine_zero_vector" } else { key };
            res.failures.push(OracleFailure { what, key: Some(key.into()), line: ln });
        };
        res.tags.push(format!(
            "q:{}:{}:{}{}{}",
            m.s(),
            if index_used { "ivf" } else { "flat" },
            if !has_filter { "nofilter" } else if q.pre { "prefilter" } else { "postfilter" },
            if q.rf.is_some() { ":refine" } else { "" },
            if q.fast { ":fast" } else { "" }
        ));
        if !exact {
            res.tags.push("q:approx".into());
        }

        // ---- oracle, every mode: soundness, duplicates, order
        let mut seen = BTreeSet::new();
        for (id, _) in &got {
            match by_id.get(id) {
                None => fail("unsound_row", format!("returned id {id} is not a live row")),
                Some(r) if has_filter && !q.f.pass(r.c) => fail("unsound_row", format!("returned id {id} has c={} which fails the filter {:?}", r.c, q.f)),
                _ => {}
            }
            if !seen.insert(*id) {
                fail("dup_row", format!("id {id} returned twice"));
            }
        }
        for w in got.windows(2) {
            // NaN sorts last
            let bad = if w[0].1.is_nan() { !w[1].1.is_nan() } else { !w[1].1.is_nan() && w[0].1 > w[1].1 };
            if bad {
                fail("unsorted", format!("distances not ascending: {} before {}", w[0].1, w[1].1));
                break;
            }
        }
        if !exact {
            return "approx".into();
        }

        // ---- exact modes: distances recomputed
        let qv = &q.q;
        let mut keyed: Vec<(String, i64)> = vec![];
        for (id, d) in &got {
            let Some(r) = by_id.get(id) else {
                keyed.push(("dead".into(), *id));
                continue;
            };
            let key = dist_key(m, qv, &r.v);
            match m {
                Metric::L2 | Metric::Dot => {
                    let shown = if d.fract() == 0.0 && d.abs() < 1e9 { format!("{}", *d as i64) } else { format!("x{d}") };
                    if shown != key.show() {
                        fail("dist_mismatch", format!("id {id}: reported distance {d}, recomputed {}", key.show()));
                    }
                    keyed.push((shown, *id));
                }
                Metric::Cos => {
                    if key.nan {
                        if !d.is_nan() {
                            fail("dist_mismatch", format!("id {id}: zero-norm cosine reported as {d}, the flat kernel gives NaN"));
                            keyed.push((format!("x{d}"), *id));
                            continue;
                        }
                    } else {
                        let e = cos_f64(qv, &r.v);
                        if !((*d as f64 - e).abs() <= 1e-5) {
                            fail("dist_mismatch", format!("id {id}: reported cosine distance {d}, recomputed {e}"));
                        }
                    }
                    keyed.push((key.show(), *id));
                }
            }
        }

        // ---- brute force
        let domain: Vec<&LiveRow> = tb.live.iter().filter(|r| !(q.fast && index_used) || r.covered).collect();
        let brute = |rows: &[&LiveRow]| -> Vec<Key> {
            let mut ks: Vec<Key> = rows.iter().map(|r| dist_key(m, qv, &r.v)).collect();
            ks.sort_by(|a, b| a.cmp(b));
            ks.truncate(q.k);
            ks
        };
        if !postfilter {
            let allowed: Vec<&LiveRow> = domain.iter().copied().filter(|r| q.f.pass(r.c)).collect();
            let want = brute(&allowed);
            if got.len() != want.len() {
                fail("short_result", format!("{} rows returned, min(k={}, allowed={}) = {}", got.len(), q.k, allowed.len(), want.len()));
            } else {
                let have: Vec<Key> = got.iter().filter_map(|(id, _)| by_id.get(id).map(|r| dist_key(m, qv, &r.v))).collect();
                if have.len() == want.len() && have.iter().zip(&want).any(|(a, b)| a.cmp(b) != std::cmp::Ordering::Equal) {
                    fail(
                        "not_nearest",
                        format!(
                            "returned distances {:?} are not the k smallest {:?}",
                            have.iter().map(|k| k.show()).collect::<Vec<_>>(),
                            want.iter().map(|k| k.show()).collect::<Vec<_>>()
                        ),
                    );
                }
            }
            let g = groups_of(&keyed);
            if g.len() >= 2 || has_filter || index_used {
                res.nontrivial = true;
            }
            if let Some(last) = g.last() {
                let tie_total = allowed.iter().filter(|r| dist_key(m, qv, &r.v).show() == last.0).count();
                if tie_total > last.1.len() {
                    res.tags.push("q:tie_at_cut".into());
                }
            }
            if got.len() < q.k {
                res.tags.push("q:fewer_than_k".into());
            }
            let mut s = format!("ok m={} n={}", m.s(), got.len());
            for (i, gr) in g.iter().enumerate() {
                s.push(' ');
                if i + 1 == g.len() {
                    s.push_str(&format!("{}#{}", gr.0, gr.1.len()));
                } else {
                    s.push_str(&show_group(gr));
                }
            }
            s
        } else {
            // post-filter: the API promises "the filter is applied to the nearest results" (Scanner::prefilter doc): may be short
            res.nontrivial = true;
            let want_all = brute(&domain);
            let cut = if want_all.len() == q.k { want_all.last().copied() } else { None };
            // the real cut: the same query without the filter
            let unf = match std::panic::catch_unwind(std::panic::AssertUnwindSafe(|| self.run_query(tb, q, false))) {
                Ok(Ok(g)) => g,
                Ok(Err(e)) => return format!("err {}", err_kind(&e)),
                Err(_) => return "err panic".into(),
            };
            let real_cut: Option<String> = if unf.len() == q.k {
                let (id, d) = unf[unf.len() - 1];
                Some(match (m, by_id.get(&id)) {
                    (Metric::Cos, Some(r)) => dist_key(m, qv, &r.v).show(),
                    (Metric::Cos, None) => "dead".into(),
                    _ => {
                        if d.fract() == 0.0 && d.abs() < 1e9 {
                            format!("{}", d as i64)
                        } else {
                            format!("x{d}")
                        }
                    }
                })
            } else {
                None
            };
            if real_cut != cut.map(|k| k.show()) {
                fail("postfilter_wrong", format!("unfiltered cut distance {:?}, brute force {:?}", real_cut, cut.map(|k| k.show())));
            }
            // every returned row within the cut; every passing row strictly below the cut returned
            for (id, _) in &got {
                if let (Some(r), Some(c)) = (by_id.get(id), cut) {
                    if dist_key(m, qv, &r.v).cmp(&c) == std::cmp::Ordering::Greater {
                        fail("postfilter_wrong", format!("id {id} lies beyond the unfiltered top-k cut {}", c.show()));
                    }
                }
            }
            for r in domain.iter().filter(|r| q.f.pass(r.c)) {
                let inside = match cut {
                    None => true,
                    Some(c) => dist_key(m, qv, &r.v).cmp(&c) == std::cmp::Ordering::Less,
                };
                if inside && !seen.contains(&r.id) {
                    fail("postfilter_wrong", format!("id {} passes the filter and is strictly inside the unfiltered top-k but was not returned", r.id));
                }
            }
            let g = groups_of(&keyed);
            let cut_s = real_cut.clone().unwrap_or_else(|| "none".into());
            let mut s = format!("ok m={} b={}", m.s(), cut_s);
            for gr in g.iter() {
                if Some(&gr.0) != real_cut.as_ref() {
                    s.push(' ');
                    s.push_str(&show_group(gr));
                }
            }
            s
        }
    }
}

// ------------------------------------------------------------------------------------------------
// generator
// ------------------------------------------------------------------------------------------------

fn show_vec(v: &[i64]) -> String {
    v.iter().map(|x| x.to_string()).collect::<Vec<_>>().join(",")
}

struct GenState {
    zeros: bool,
    dim: usize,
    amp: i64,
    pool: Vec<Vec<i64>>,
    rows: usize,
    cmax: i64,
}

fn gen_vec(rng: &mut Rng, g: &mut GenState) -> Vec<i64> {
    let r = rng.below(100);
    if r < 6 && g.zeros {
        return vec![0; g.dim];
    }
    if r < 30 && !g.pool.is_empty() {
        // duplicate of an earlier vector
        return rng.pick(&g.pool).clone();
    }
    if r < 40 && !g.pool.is_empty() {
        // neighbour of an earlier vector (one coordinate changed): many near ties
        let mut v = rng.pick(&g.pool).clone();
        let i = rng.usize(g.dim);
        v[i] = (v[i] + if rng.chance(1, 2) { 1 } else { -1 }).clamp(-g.amp, g.amp);
        return v;
    }
    let sparse = rng.chance(1, 3);
    let v: Vec<i64> = (0..g.dim)
        .map(|_| if sparse && rng.chance(2, 3) { 0 } else { rng.range(0, (2 * g.amp) as u64) as i64 - g.amp })
        .collect();
    g.pool.push(v.clone());
    v
}

fn gen_rows(rng: &mut Rng, g: &mut GenState, n: usize) -> String {
    let mut parts = vec![];
    for _ in 0..n {
        let c = rng.below(g.cmax as u64) as i64;
        let v = gen_vec(rng, g);
        parts.push(format!("{}:{}", c, show_vec(&v)));
    }
    g.rows += n;
    parts.join(";")
}

fn gen_query(rng: &mut Rng, g: &mut GenState, cos_case: bool, index: Option<(Metric, usize)>, malformed: bool) -> String {
    let metrics = [Metric::L2, Metric::Dot, Metric::Cos];
    let m = if cos_case {
        Metric::Cos
    } else if let (Some((im, _)), true) = (index, rng.chance(3, 4)) {
        im
    } else {
        *rng.pick(&metrics[..2])
    };
    let mut k = match rng.below(10) {
        0 => 1,
        1..=5 => rng.range(2, 12) as usize,
        6..=8 => rng.range(5, 40) as usize,
        _ => g.rows + rng.range(0, 5) as usize,
    };
    let mut q: Vec<i64> = if rng.chance(1, 2) && !g.pool.is_empty() {
        rng.pick(&g.pool).clone()
    } else {
        (0..g.dim).map(|_| rng.range(0, (2 * g.amp) as u64) as i64 - g.amp).collect()
    };
    if cos_case && q.iter().all(|x| *x == 0) {
        q[0] = 1;
    }
    let f = match rng.below(10) {
        0..=3 => "none".to_string(),
        4..=6 => format!("eq:{}", rng.below(g.cmax as u64 + 1)),
        7 | 8 => format!("lt:{}", rng.below(g.cmax as u64 + 1)),
        _ => format!("ge:{}", rng.below(g.cmax as u64 + 1)),
    };
    let pre = if rng.chance(3, 4) { 1 } else { 0 };
    let ui = if rng.chance(5, 6) { 1 } else { 0 };
    let np = match (index, rng.below(10)) {
        (Some((_, p)), 0..=6) => format!("{p}"),
        (Some((_, p)), 7) => format!("{}", p + rng.range(1, 3) as usize),
        (Some((_, p)), 8) if p > 1 => format!("{}", rng.range(1, p as u64 - 1)),
        (None, 0..=4) => format!("{}", rng.range(1, 4)),
        _ => "def".into(),
    };
    let mut rf = match rng.below(8) {
        0 => "1".to_string(),
        1 => format!("{}", rng.range(2, 3)),
        _ => "none".to_string(),
    };
    let fast = if rng.chance(1, 6) { 1 } else { 0 };
    if malformed {
        match rng.below(3) {
            0 => k = 0,
            1 => {
                q.push(1);
            }
            _ => {
                // refine factor 0 is rejected when an index is used and ignored otherwise
                rf = "0".to_string();
            }
        }
    }
    format!("query m={} k={} q={} f={} pre={} ui={} np={} rf={} fast={}", m.s(), k, show_vec(&q), f, pre, ui, np, rf, fast)
}

fn gen_case(rng: &mut Rng, tier: Tier, idx: usize) -> Vec<String> {
    let mut lines = vec![];
    let cos_case = idx % 4 == 3;
    let dim = if cos_case { *rng.pick(&[2usize, 3, 8]) } else { *rng.pick(&[2usize, 3, 8, 16, 17, 32]) };
    let amp = if cos_case {
        if dim == 8 {
            2
        } else {
            4
        }
    } else {
        *rng.pick(&[1i64, 2, 8, 8])
    };
    let ty = match rng.below(7) {
        0 => "f64",
        1 => "f16",
        _ => "f32",
    };
    // an IVF_FLAT index over f16 / f64 does not work at all (recorded defects, witnesses in the corpus): those tables stay un-indexed
    let indexable = ty == "f32";
    // cosine against a zero vector is NaN (recorded defect class): a third of the cosine cases carry zero vectors
    let zeros = !cos_case || rng.chance(1, 3);
    let mut g = GenState { zeros, dim, amp, pool: vec![], rows: 0, cmax: *rng.pick(&[2i64, 4, 9]) };
    lines.push(format!("create ty={ty} dim={dim}"));
    let nq = match tier {
        Tier::Quick => 40,
        _ => 50,
    };
    let mut index: Option<(Metric, usize)> = None;
    // phase 1: data
    let n_app = rng.range(1, 3);
    for _ in 0..n_app {
        let n = rng.range(20, 110) as usize;
        let f = *rng.pick(&[1000usize, 1000, 40, 17]);
        let rows = gen_rows(rng, &mut g, n);
        lines.push(format!("append f={f} {rows}"));
    }
    let emit_queries = |lines: &mut Vec<String>, rng: &mut Rng, g: &mut GenState, index: Option<(Metric, usize)>, n: usize| {
        for _ in 0..n {
            let malformed = rng.chance(1, 10);
            lines.push(gen_query(rng, g, cos_case, index, malformed));
        }
    };
    // flat queries
    emit_queries(&mut lines, rng, &mut g, index, nq / 4);
    if rng.chance(1, 2) {
        lines.push(format!("delete {} {}", rng.pick(&["eq", "lt", "ge"]), rng.below(g.cmax as u64)));
        emit_queries(&mut lines, rng, &mut g, index, 3);
    }
    // phase 2: index
    let m = if cos_case { Metric::Cos } else { *rng.pick(&[Metric::L2, Metric::Dot]) };
    let p = rng.range(1, 5) as usize;
    if indexable {
        lines.push(format!("index m={} p={}", m.s(), p));
        index = Some((m, p));
    }
    emit_queries(&mut lines, rng, &mut g, index, nq / 4);
    // phase 3: history after indexing
    let steps = rng.range(2, 4);
    for _ in 0..steps {
        match rng.below(10) {
            0..=2 => {
                let n = rng.range(3, 40) as usize;
                let rows = gen_rows(rng, &mut g, n);
                lines.push(format!("append f={} {rows}", rng.pick(&[1000usize, 9])));
            }
            3..=4 => {
                let op = *rng.pick(&["eq", "lt", "ge", "idlt", "idge"]);
                let x = if op.starts_with("id") { rng.below(g.rows as u64 + 1) } else { rng.below(g.cmax as u64) };
                lines.push(format!("delete {op} {x}"));
            }
            5..=6 if indexable => lines.push(format!("optimize {}", rng.pick(&["append", "merge", "all", "retrain"]))),
            7..=8 => lines.push(format!("compact t={}", rng.pick(&[1000usize, 50, 25]))),
            _ => {
                let n = rng.range(3, 20) as usize;
                let rows = gen_rows(rng, &mut g, n);
                lines.push(format!("append f=1000 {rows}"));
            }
        }
        emit_queries(&mut lines, rng, &mut g, index, nq / 8 + 1);
    }
    lines
}

fn main() {
    run_main(C22::new())
}
